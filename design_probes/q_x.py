import numpy as np, warnings, torch, time, itertools, sys
warnings.simplefilter("ignore"); torch.set_num_threads(1)
from quantem.core.utils.imaging_utils import unwrap_phase_2d_torch, cross_correlation_shift_torch, cross_correlation_shift
from scipy.ndimage import label
def wrap(x): return (x+np.pi)%(2*np.pi)-np.pi
# C17: all masks on 3x4 with a ramp field
H,W=3,4; yy,xx=np.mgrid[:H,:W].astype(float); f=2.4*xx+1.7*yy
t0=time.time(); bad=0; n=0
for bits in range(1,2**(H*W)):
    mask=np.array([(bits>>i)&1 for i in range(H*W)],bool).reshape(H,W)
    out=unwrap_phase_2d_torch(torch.tensor(wrap(f),dtype=torch.float32),mask=torch.tensor(mask),wrap_around=False).numpy()
    lab,nc=label(mask); n+=1
    for c in range(1,nc+1):
        d=(out-f)[lab==c]
        if np.ptp(d)>1e-4: bad+=1; break
    if n%1000==0: print("masks",n,"bad",bad,"t",round(time.time()-t0,1),flush=True)
print("C17 all masks 3x4:",n,"bad",bad,"time",round(time.time()-t0,1),flush=True)
# C13 torch: all integer shifts, antisymmetry, numpy up=1 aligned image
def bandlimited(shape,seed=0,frac=0.25):
    rng=np.random.default_rng(seed);Hh,Ww=shape;F=np.zeros(shape,complex);ky=np.fft.fftfreq(Hh)[:,None];kx=np.fft.fftfreq(Ww)[None,:];m=(np.abs(ky)<=frac)&(np.abs(kx)<=frac)
    F[m]=rng.normal(size=m.sum())+1j*rng.normal(size=m.sum());im=np.fft.ifft2(F).real;return im/np.abs(im).max()
t0=time.time(); bad=[];n=0
for shape in [(8,8),(9,9),(8,11)]:
    ref=bandlimited(shape,1)
    for s in itertools.product(range(shape[0]),range(shape[1])):
        im=np.roll(ref,(-s[0],-s[1]),(0,1))
        for up in (1,4):
            e=cross_correlation_shift_torch(torch.tensor(ref),torch.tensor(im),upsample_factor=up).numpy()
            d=(e-np.array(s)+np.array(shape)/2)%np.array(shape)-np.array(shape)/2
            e2=cross_correlation_shift_torch(torch.tensor(im),torch.tensor(ref),upsample_factor=up).numpy()
            anti=(e+e2+np.array(shape)/2)%np.array(shape)-np.array(shape)/2
            n+=1
            if np.abs(d).max()>1e-3 or np.abs(anti).max()>1e-3: bad.append((shape,s,up,e.tolist(),e2.tolist()))
        sh,al=cross_correlation_shift(ref,im,upsample_factor=1,return_shifted_image=True)
        if np.abs(al-ref).max()>1e-6: bad.append(("np aligned",shape,s,np.abs(al-ref).max()))
print("C13 torch integer shifts",n,"bad",len(bad),bad[:4],"time",round(time.time()-t0,1),flush=True)
