#!/venv/bin/python
"""Regenerate /verif/MANIFEST.json from the constants at the top of each checks/Cxx.py
(LEVEL, CLAIM, NOTE, TECHNIQUE, DESIGN_REF; read with ast, nothing is imported)."""
import ast
import json
import os

HERE = os.path.dirname(os.path.dirname(os.path.abspath(__file__)))
PY = "/venv/bin/python"


def consts(path):
    tree = ast.parse(open(path).read())
    out = {}
    for node in tree.body:
        if isinstance(node, ast.Assign) and len(node.targets) == 1 and isinstance(node.targets[0], ast.Name):
            try:
                out[node.targets[0].id] = ast.literal_eval(node.value)
            except Exception:
                pass
    return out


def main():
    props = [json.loads(l) for l in open(os.path.join(HERE, "properties.jsonl"))]
    na_path = os.path.join(HERE, "tools", "not_applicable.json")
    na_reasons = json.load(open(na_path)) if os.path.exists(na_path) else {}
    import subprocess

    # only checks that are tracked by git (finished and reviewed) are registered; work in progress is not
    # registered = finished and reviewed (tools/registered.txt); `vp check` commits work in progress too, so "tracked" is not enough
    reg = {l.strip() for l in open(os.path.join(HERE, "tools", "registered.txt")) if l.strip() and not l.startswith("#")}
    tracked = {f"checks/{i}.py" for i in reg}
    checks, na = [], []
    for p in props:
        pid = p["id"]
        f = os.path.join(HERE, "checks", f"{pid}.py")
        if not os.path.exists(f) or f"checks/{pid}.py" not in tracked or pid in na_reasons:
            na.append({"property_id": pid, "reason": na_reasons.get(pid, "check not built yet (work in progress; see DESIGN.md section 3 for the planned exploration)")})
            continue
        c = consts(f)
        checks.append(
            {
                "property_id": pid,
                "quick_cmd": f"{PY} /verif/run.py {pid} --tier quick",
                "thorough_cmd": f"{PY} /verif/run.py {pid} --tier thorough",
                "evidence_file": f"/verif/evidence/{pid}.json",
                "replay_cmd_template": f"{PY} /verif/run.py {pid} --replay {{path}}",
                "engine": "qmc",
                "level_claimed": {"category": c["LEVEL"], "text": c["CLAIM"], "design_ref": c.get("DESIGN_REF", f"DESIGN.md section 3, {pid}")},
                "level_note": c["NOTE"],
                "technique": c["TECHNIQUE"],
            }
        )
    man = {
        "version": 1,
        "setup_cmd": f"{PY} /verif/run.py --setup",
        "hooks": {
            "guard": "QUANTEM_VERIF",
            "enable": "no source hooks: quantem is imported from /repo/src (editable install, or VERIF_REPO=<dir>/src first on sys.path); all interception happens in the harness at third-party seams (zarr, zipfile, numpy Generator, torch), so the guard selects nothing in the source tree",
            "baseline_off_cmd": "cd /repo && /venv/bin/python -m pytest -ra -q -p no:cacheprovider --timeout=900 --continue-on-collection-errors",
            "source_commits": [],
            "add_only": True,
        },
        "engines": [
            {
                "name": "qmc",
                "path": "/verif/mc",
                "serves_properties": [c["property_id"] for c in checks],
                "kind_free_text": "hand-written explicit-state / bounded-exhaustive explorer for Python: BFS over operation histories with canonical-state dedup and a reference model per transition, deviation-bounded histories, exhaustive fault-position injection, exhaustive schedule (batch partition / shuffle order) enumeration, full configuration lattices; all executed on the real quantem code",
            }
        ],
        "checks": checks,
        "not_applicable": na,
        "notes": "All checks: /verif/run.py <id> --tier quick|thorough; honours VERIF_SEED, VERIF_TIER, VERIF_REPO. Known findings and fixed defects: /verif/known_findings.json. Seeded breaking changes and which check catches them: /verif/seeded/, DESIGN.md section 9.",
    }
    with open(os.path.join(HERE, "MANIFEST.json"), "w") as f:
        json.dump(man, f, indent=1)
        f.write("\n")
    import jsonschema

    jsonschema.validate(man, json.load(open("/root/.vp/MANIFEST.schema.json")))
    print(f"MANIFEST.json: {len(checks)} checks, {len(na)} not_applicable; validates")


if __name__ == "__main__":
    main()
