#!/venv/bin/python
"""Refresh the generated tables inside DESIGN.md (between the BEGIN/END markers)."""
import os
import re
import subprocess

HERE = os.path.dirname(os.path.dirname(os.path.abspath(__file__)))
p = os.path.join(HERE, "DESIGN.md")
s = open(p).read()
for name, script in (("SEED-TABLE", "seed_table.py"), ("COVERAGE-TABLE", "design_tables.py")):
    out = subprocess.run(["/venv/bin/python", os.path.join(HERE, "tools", script)], capture_output=True, text=True).stdout
    out = "\n".join(l for l in out.splitlines() if not l.startswith("WARNING"))
    s = re.sub(rf"<!-- {name}-BEGIN -->.*?<!-- {name}-END -->", lambda m: f"<!-- {name}-BEGIN -->\n{out}\n<!-- {name}-END -->", s, flags=re.S)
open(p, "w").write(s)
print("DESIGN.md tables refreshed")
