"""C02 — the ptychography forward pipeline reproduces independently simulated data.

Shape L (configuration lattice) + S (every batch partition), level exploration.

Every point of the lattice (object type x slices x probe modes x detector ROI x scan grid x step kind x
object padding, descan `no_shift`; plus a smaller `constant`-descan family on vacuum data, see "Stated
limit" below) is built by `checks/_ptycho.build`: an independent complex128 NumPy multislice mixed-state
simulator produces the 4D data set, the library preprocesses it, and the ground truth is installed through
public constructors / setters.  Then, all through the public forward chain
`dset.forward -> probe_model.forward -> obj_model.forward -> forward_operator -> detector_model.forward
-> error_estimate`:

 (5) geometry: padded object shape, adjusted padding, pixel positions and patch indices of the library equal
     the independently computed ones (exact for integers, 1e-3 px for positions);
 (5b) a forward pass leaves the scan positions where they were (root-cause relation: if it fires the remaining
     oracles are skipped at that point; the message quotes the consequence for the predicted intensities);
 (5c) within one forward pass, patch origin + fractional shift handed to the probe = position (modulo the object shape)
     for every pattern: the two places that round a position must agree (root cause of tie-breaking mismatches);
 (1) predicted intensities == simulated intensities, for every batch of every batch size 1..J
     (also at the five perturbed states, against the simulator evaluated at the perturbed state);
 (2) every loss (l1/l2 x amplitude/intensity) of every batch of every batch size is zero to numerical
     precision at the ground truth (relative to the loss of an all-zero prediction);
 (3) at each member of the perturbation alphabet (object: one-pixel phase kick under the first probe,
     smooth phase ramp, seeded noise; probe: defocus change, mode-amplitude change) every full-batch loss
     exceeds the ground-truth loss by >= 1e4x (l2 losses; >= 1e3x for the l1 losses, see TOL), and at the
     seeded-noise state, for every batch size, the batch-fraction-weighted sum of the per-batch losses
     equals the full-batch loss (the loss is scaled by the batch fraction);
 (4) the autograd gradient (object and probe parameters) of the l2 losses at the ground truth is <= 1e-3
     of the gradient at every perturbed state (stationarity; l1 losses are not differentiable at 0).

Families. "main" is the DESIGN lattice (descan no_shift, seeded random-phase objects).  "constant_descan_vacuum" see
the stated limit.  "unpadded_edge" (6 points quick, 48 thorough) adds the corner the main alphabets cannot reach with
J <= 12: no padding requested and a scanned extent of 8 object pixels, so that the divisible-by-8 adjustment adds
no padding either.  FINDING on the unchanged tree (class {"relation": "forward_keeps_scan_positions", "cause":
"clipped_to_last_object_pixel"}): the object has floor(fov/sampling) = 8 pixels but the positions run 0..8(.3);
`clip_scan_positions` (default on) clamps the last scan row/column to pixel 7 inside `dset.forward`, overwriting
`scan_positions_px`, and the ground truth no longer predicts the data (rel. intensity error ~0.5).

"half_pixel_ties" (48 points quick, 576 thorough): positions that are exact half-pixel ties in the library's own float32
arithmetic (dyadic sampling and steps; checked at run time).  The other families are kept away from ties (`.fragile`),
because there the nearest pixel is a convention.  Here the convention is left free but CONSISTENCY is demanded: the library
passes a point if every oracle holds against the simulator with ties half-to-even everywhere, or with ties half-up everywhere
(data, geometry and all oracles recomputed under that convention), and (5c) must hold in any case.

"mode_orders" (24 points quick: the non-identity orders; 576 thorough: every order): 2 and 3 orthogonal ground-truth modes
(intensities 1 : 1/4 : 1/9) installed through the public probe setter in every permutation.  The incoherent mode sum does not
depend on the order, so all oracles apply unchanged; in addition, at every state of every family, the probe read back through
the public property must carry the same (mode shape, intensity) pairs as what was installed (relation
`probe_readback_keeps_shape_weight_pairs`).

Reconfiguration histories (second part, see the section further down): on ONE Ptychography instance every history of up to
2 (quick) / 3 (thorough) events from an 8-event alphabet (object model swaps with other thicknesses / another slice count,
direct and Ptychography-level thickness assignment, probe model swap with another mode count and reversed order, loss-type
switch, a forward pass, a zero-iteration reconstruct) is applied and mirrored in a small reference model; the final state is
judged against the simulator evaluated at the final configuration: "the prediction depends on the current configuration only".

Refused requests (third part): ~86 invalid arguments to the public setters / configuration calls (zero, negative, ill-typed,
ill-shaped thicknesses as scalar / list / ndarray / tensor on the Ptychography object and on the object model; ill-shaped probe,
positions, descan, masks; unknown probe parameters, constraints, loss type, optimizer; invalid batch size, padding, validation
ratio; ill-formed models ...), each refused by the reference tree, are placed in histories (alone, in pairs with each other and
with the valid events, thorough: triples).  The request must leave everything the forward model uses untouched: judged right
after the refusal and again after compute_propagator_arrays() + preprocess(same arguments) + reconstruct(num_iters=0).
Class {"relation": "refused_request_changes_nothing", "op": <member>, "what": ...}; the responsible member is found by
re-running prefixes.  A member that the tree under test accepts is counted, not flagged.

Ordered configuration (fourth part): slice-thickness sequences for 3, 4 and 5 slices in every order pattern of distinct values
(all permutations of 2 and 3 values; ascending, descending, peak, valley, two zig-zags of 4) and with repeats in every position,
as list / tuple / ndarray / tensor / scalar, installed at construction, by an object-model swap and through both
slice_thicknesses setters followed by the recomputation calls; pattern order (data and positions permuted consistently, positions
through the public `dset.scan_positions_px` setter); probe_params key order.  Class {"relation":
"ordered_configuration_is_used_in_order", "sequence": ..., "what": ...}.  Nearly-equal thicknesses (same part): sequences for 3 and 4
slices whose members differ by a relative spread of 1e-4 ... 2 % (ascending, descending, one odd value in every position), at a
thickness scale where one common thickness is provably (independent simulator) >= 20x outside the l2 zero-tolerance; judged like any
other thickness sequence, plus: the propagators read through the public property equal the simulator's, gap by gap.  Class
{"relation": "nearly_equal_thicknesses_are_used_as_given", "sequence": "nearly_equal_thicknesses", "what": ...}.

Copies / alternative constructors (fifth part): clone(), from_ptychography(), save(with raw data)+from_file, save(default, no raw
data)+from_file(path) on a FILE-BACKED data set, save(no raw data)+from_file(path, dset=fresh identically preprocessed data set),
copy.deepcopy (where supported); bases with a padding the library adjusts ((9,11) -> (11,14)) and an aligned one, learnable and
fixed scan positions, 1 and 3 slices.  (i) the second object predicts the data at the ground truth and copying leaves the original
intact: {"relation": "copy_predicts_its_data", "kind": ...}; (ii) isolation: five changes applied to one of the two, the other
judged after each, both directions: {"relation": "copies_are_isolated", "kind": ..., "change": ..., "changed": ...}.

Stated limit. `com_fit_function="constant"` shifts every pattern by the data-dependent mean centre of mass
with sinc interpolation; "zero to numerical precision" is only defined when that is an integer pixel.  It
is provably the detector centre for vacuum data of a centro-symmetric aperture that stays below Nyquist, so
the `constant` family uses vacuum (uniform-object) data only; there the probe phase is unobservable, so the
"defocus" perturbation is not in that family's alphabet.  Odd ROI sizes are excluded (half-pixel centre).

Tolerances (worst observed on the unchanged tree over seeds {0,1,2,7,12345}, both tiers | smallest mutant effect):
 see the TOL table below; numbers next to each entry.
"""
from __future__ import annotations

import itertools
import json
import traceback

import numpy as np

from checks import _ptycho as PT
from mc.harness import Broken, Tally

LEVEL = "exploration"
TECHNIQUE = "full configuration lattice x every batch partition on the real forward pipeline, independent complex128 multislice mixed-state simulator as oracle"
CLAIM = (
    "For every point of a stated lattice (object type x slices with unequal thicknesses x incoherent probe modes x "
    "detector ROI incl. non-square x raster grid x integer/fractional pixel steps x object padding; descan no_shift, plus "
    "constant descan on vacuum data, plus an unpadded family whose last scan row lies on the object edge, plus a family of exact "
    "half-pixel positions judged under either tie convention applied consistently) the library's preprocessing + forward pipeline, evaluated at the ground truth of data "
    "produced by an independent NumPy simulator, predicts the simulated patterns for every batch of every batch size 1..J; "
    "all four l1/l2 amplitude/intensity losses vanish to numerical precision; each member of a fixed perturbation alphabet "
    "raises every l2 loss by >= 1e4x and every l1 loss by >= 1e3x, with batch-fraction-consistent per-batch losses for every "
    "batch size at a perturbed state; the l2 gradients at the ground truth are "
    "<= 1e-3 of those at the perturbed states; and the library's object shape, padding, pixel positions and patch indices "
    "equal independently computed ones, are not moved by a forward pass, and patch origin + fractional probe shift = position "
    "for every pattern. Probe modes installed in every order give the same predictions and are read back with each shape attached "
    "to its own weight. On one instance, after every history of up to 2 (quick) / 3 (thorough) reconfiguration events, the "
    "prediction equals the simulator at the final configuration (no stale propagators, probes or targets); about 86 invalid requests "
    "to the public setters / configuration calls, alone and combined with each other and with the valid events, are refused without "
    "changing anything the forward model uses, also after derived state is rebuilt; slice-thickness sequences in every order pattern "
    "(distinct and repeated values, five container kinds, four installation routes), permuted pattern orders and probe_params key "
    "orders are used in the order given; slice-thickness sequences for 3 and 4 slices whose members are NEARLY but not exactly equal "
    "(relative spread 1e-4, 1e-3, 0.5 %, 0.9 %, 2 %; ascending, descending, one odd value in every position; four installation "
    "routes; thick enough that one common thickness would miss the l2 zero-tolerance >= 20x by the independent simulator) are "
    "propagated gap by gap with their own thickness: the public propagators equal exp(-i pi lambda dz k^2) per gap and all the "
    "oracles above hold; every way of obtaining a second object (clone, from_ptychography, three save/from_file "
    "routes incl. a file-backed data set, deepcopy) yields one that predicts the data and is isolated from the original under five "
    "kinds of change, in both directions. Exploration is the right level: the property quantifies over configurations and "
    "batch schedules, which are enumerated completely; array contents are seeded alphabet members."
)
NOTE = (
    "Trusted: the reference simulator and geometry in checks/_ptycho.py (about 150 lines of NumPy written from the physics), "
    "the lattice alphabets and the perturbation alphabet; single-threaded float32 torch on CPU; universality over continuous "
    "object/probe values is not claimed (seeded contents, widened by VERIF_SEED); constant descan only on vacuum data."
)
RULE = (
    "Full Cartesian product of the stated alphabets, simplest first; at every point every contiguous batch partition for "
    "batch size 1..J and all four loss types at the ground truth and at the seeded-noise perturbed state, the other "
    "perturbed states on the full batch. Exact half-pixel positions are enumerated only in the half_pixel_ties family, where a "
    "point passes under half-to-even or half-up ties applied consistently. Points whose independently "
    "computed object grid has a zero-length axis are excluded and counted. A point is non-trivial when it is not excluded; "
    "distinct outcomes are distinct (object shape, adjusted padding, J, wrap-around, fractional) geometry signatures. "
    "Reconfiguration part: every sequence of length 0..d over the 8-event alphabet on each base configuration, one fresh "
    "instance per sequence, reference model stepped alongside, final state judged; outcomes are distinct final configurations. "
    "Refused requests: every member alone, pairs over the core members and with the valid events (thorough: plus triples over six "
    "core members and the valid events), on 3 (quick) / 4 (thorough) base configurations incl. a single-slice one. Ordered "
    "configuration: sequences x routes x bases (quick: list container plus all containers for two sequences; thorough: full product), "
    "6 pattern orders x {1,3} slices, 6 probe_params key orders. Nearly-equal thicknesses: {3,4} slices x 6 spreads x every order "
    "(quick: at construction on the first base, plus the three other routes with the odd value in the middle on the second base; "
    "thorough: x 4 routes x 2 bases); a member whose seeded contents make it less sensitive than 40x is thickened until it is. Copies: base configurations x 6 ways of copying x which of the "
    "two objects is changed; the five changes are applied one after the other and the other object is judged after each."
)

# ----------------------------------------------------------------------------- tolerances
# Every entry: tolerance  # worst value observed on the unchanged tree (seeds 0,1,2,7,12345 quick; seed 0 thorough sweep with
# statistics, the other seeds pass/fail) | smallest effect of a mutant over the lattice points it touches (mutants/C02).
# The design quoted rel <= 1e-5 for the intensities; float32 gives up to 1.4e-6, so 1e-5 would leave a margin of only 7x.
TOL = {
    "pred_rel": 5e-5,        # max|pred-sim|/max(sim): 1.4e-6 observed | mutants >= 3.6e-3 (propagator with swapped axis samplings)
    "positions_px": 1e-3,    # 3.8e-7 px observed (float32 positions) | geometry mutants move positions by >= 1 px
    "zero": {                # loss(truth) / loss(all-zero prediction), every batch
        "l2_amplitude": 1e-9,    # 2.5e-13 observed | mutants >= 5e-5
        "l1_amplitude": 5e-5,    # 6.7e-7 observed  | mutants >= 6e-3
        "l2_intensity": 1e-9,    # 7.4e-13 observed | mutants >= 1e-5
        "l1_intensity": 5e-5,    # 7.6e-7 observed  | mutants >= 4.6e-3
    },
    "ratio": {"l2": 1e4,     # loss(perturbed)/loss(truth), l2 losses: smallest observed 1.3e10 | mutants that move the truth: <= 1.5e3
              "l1": 1e3},    # l1 losses grow with the first power of the residual and sit on the float32 rounding floor:
                             # smallest observed 1.4e5 (a 1e4 bound would leave a margin of only 14x) | mutants: <= 27
    "batch_sum_rel": 1e-4,   # |sum_k (n_k/J) L_k - L_full| / L_full: 4.1e-7 observed | batch-count mutant >= 0.96
    "readback": 1e-3,        # probe read back vs installed: 1-|overlap| and relative intensity per mode: 2e-6 observed | mode/weight mix-up >= 0.5
    "stationary": 1e-3,      # |grad(truth)| / min |grad(perturbed)|: 2.8e-5 observed | mutants that move the truth: >= 1e-2
}

# ----------------------------------------------------------------------------- lattice
OBJ_TYPES = ["complex", "pure_phase", "potential"]
ROIS = [(8, 8), (8, 10), (10, 8), (12, 8)]
SCANS = [(2, 2), (3, 4), (4, 3), (1, 5)]
STEPS = ["commensurate", "fractional"]
PADS = [(0, 0), (3, 5), (8, 8)]
# "unpadded_edge" family: no padding requested AND a scanned extent of exactly / just over 8 object pixels, so that the
# divisible-by-8 adjustment adds no padding either and the last scan row sits on / beyond the last object pixel.
# Steps in object pixels: integer positions (0,4,8) on both axes; fractional (0,4.15,8.3) x (0,2.1,4.2).
EDGE_STEPS = [(4.0, 4.0), (4.15, 2.1)]
# "half_pixel_ties" family: positions that are EXACT half-pixel ties by construction.  Object sampling (2.0, 1.0) A and
# steps of 0.5 / 1.5 / 2.5 object pixels are dyadic, so every float32/float64 operation the library performs on the
# positions is exact (verified at run time: the library's float32 positions must equal k + 0.5 exactly, else the point
# is skipped and counted).  4 points along one axis and 2 along the other: the scanned extent (1.5, 4.5, 7.5 / 0.5,
# 1.5, 2.5 px) is never near an integer, and ties with even AND odd integer part occur at every point (the adjusted
# padding takes both parities across the family).  Which pixel a tie goes to is a convention the property does not
# prescribe; only consistency (patch origin + fractional shift = position) is demanded, see judge().
TIE_SAMPLING = (2.0, 1.0)
TIE_STEPS = [(0.5, 1.5), (1.5, 2.5), (2.5, 0.5)]
TIE_SCANS = [(4, 2), (2, 4)]
TIE_PADS = [(3, 5), (1, 1)]
# "mode_orders" family: the ground-truth modes (orthogonal, intensities 1 : 1/4 : 1/9) are installed through the public
# probe setter in EVERY order; the incoherent sum does not depend on the order, so every oracle applies unchanged, and the
# probe read back through the public property must carry the same (mode shape, intensity) pairs as what was installed.
MODE_ORDERS = [list(p) for M in (2, 3) for p in itertools.permutations(range(M))]


def lattice(tier):
    if tier == "quick":
        # slices {1,3}: three slices exercise everything two do, plus two different propagators (unequal thicknesses)
        main = dict(obj_type=OBJ_TYPES, slices=[1, 3], modes=[1, 2], roi=ROIS[:2], scan=[SCANS[3], SCANS[1]], step=STEPS, pad=PADS[:2])
        const = dict(obj_type=OBJ_TYPES, slices=[1, 2], modes=[1, 2], roi=ROIS[:2], scan=[SCANS[1]], step=["fractional"], pad=[PADS[1]])
        edge = dict(obj_type=OBJ_TYPES, slices=[1], modes=[1], roi=ROIS[:1], scan=[(3, 3)], step=EDGE_STEPS, pad=[PADS[0]])
        ties = dict(obj_type=OBJ_TYPES[:1], slices=[1, 2], modes=[1, 2], roi=ROIS[:2], scan=TIE_SCANS, step=TIE_STEPS, pad=TIE_PADS[:1], sampling=[TIE_SAMPLING])
        # quick: the non-identity orders only (the identity orders are what every other family installs)
        orders = dict(obj_type=OBJ_TYPES[:1], slices=[1, 2], mode_order=[p for p in MODE_ORDERS if p != sorted(p)], roi=ROIS[:2], scan=[SCANS[0]], step=STEPS[1:], pad=PADS[1:2])
    else:
        main = dict(obj_type=OBJ_TYPES, slices=[1, 2, 3, 4], modes=[1, 2, 3], roi=ROIS, scan=SCANS, step=STEPS, pad=PADS)
        const = dict(obj_type=OBJ_TYPES, slices=[1, 2], modes=[1, 2], roi=ROIS, scan=[SCANS[0], SCANS[1], SCANS[3]], step=STEPS, pad=PADS[:2])
        edge = dict(obj_type=OBJ_TYPES, slices=[1, 2], modes=[1, 2], roi=ROIS[:2], scan=[(3, 3)], step=EDGE_STEPS, pad=[PADS[0]])
        ties = dict(obj_type=OBJ_TYPES, slices=[1, 2], modes=[1, 2], roi=ROIS, scan=TIE_SCANS, step=TIE_STEPS, pad=TIE_PADS, sampling=[TIE_SAMPLING])
        orders = dict(obj_type=OBJ_TYPES, slices=[1, 2, 3], mode_order=MODE_ORDERS, roi=ROIS[:2], scan=SCANS[:2], step=STEPS, pad=PADS[1:2])
    fams = [("main", "no_shift", "random", main), ("constant_descan_vacuum", "constant", "vacuum", const), ("unpadded_edge", "no_shift", "random", edge),
            ("half_pixel_ties", "no_shift", "random", ties), ("mode_orders", "no_shift", "random", orders)]
    items = []
    alph = {}
    for fam, descan, content, a in fams:
        keys = list(a)
        alph[fam] = {k: [list(v) if isinstance(v, tuple) else v for v in a[k]] for k in keys}
        alph[fam].update(descan=[descan], content=[content])
        for combo in itertools.product(*[a[k] for k in keys]):
            cfg = {k: (list(v) if isinstance(v, tuple) else v) for k, v in zip(keys, combo)}
            cfg["descan"] = descan
            cfg["content"] = content
            if "mode_order" in cfg:
                cfg["modes"] = len(cfg["mode_order"])
            items.append({"index": len(items), "family": fam, "cfg": cfg})
    return items, alph


# states at which EVERY batch partition is forwarded (the other perturbed states are evaluated on the full batch)
PARTITIONED_STATES = ("truth", "noise")


def readback_mismatch(installed, readback):
    """None if the probe read back through the public property carries the same multiset of (mode shape, intensity) pairs
    as the installed orthogonal modes (any order), else a description."""
    if readback.shape != installed.shape:
        return f"read-back probe shape {readback.shape} != installed {installed.shape}"
    wi = (np.abs(installed) ** 2).sum((1, 2))
    wr = (np.abs(readback) ** 2).sum((1, 2))
    if not (wr > 0).all():
        return f"read-back mode intensities {wr.tolist()}"
    ui = installed / np.sqrt(wi)[:, None, None]
    ur = readback / np.sqrt(wr)[:, None, None]
    ov = np.abs(np.einsum("kij,mij->km", ur, ui.conj()))  # |<read-back k | installed m>|
    match = ov.argmax(1)
    if sorted(match.tolist()) != list(range(len(wi))) or (1 - ov[np.arange(len(match)), match]).max() > TOL["readback"]:
        return f"read-back mode shapes are not a permutation of the installed ones: |overlap| matrix (read-back x installed) {np.round(ov, 4).tolist()}"
    rel = np.abs(wr / wi[match] - 1)
    if rel.max() > TOL["readback"]:
        k = int(rel.argmax())
        return (f"read-back mode {k} has the shape of installed mode {int(match[k])} but intensity {wr[k]:.6g} instead of {wi[match[k]]:.6g} "
                f"(installed intensities {wi.tolist()}, read back {wr.tolist()}, shape assignment {match.tolist()})")
    return None


def perturbations(cfg):
    ps = [("object", k) for k in PT.OBJECT_PERTURBATIONS] + [("probe", k) for k in PT.PROBE_PERTURBATIONS]
    if cfg["content"] == "vacuum":
        ps = [p for p in ps if p != ("probe", "defocus")]
    return ps


# ----------------------------------------------------------------------------- one lattice point
def point_rng(seed, index, stream=0):
    return np.random.default_rng([int(seed), 2, int(index), int(stream)])


def evaluate(item, seed=0, tie=None):
    """Run every oracle at one lattice point. Returns (record, fails) with fails = [(cls, msg)].
    `tie` ("even" | "up") selects the simulator's convention for exact half-pixel ties (half_pixel_ties family)."""
    import torch

    cfg, index = item["cfg"], item["index"]
    if tie is not None:
        cfg = dict(cfg, tie=tie)
    fails = []
    seen = set()

    def fail(cls, msg):
        k = json.dumps(cls, sort_keys=True)
        if k in seen:  # first instance per class and point (smallest batch size first) is enough
            return
        seen.add(k)
        fails.append((cls, msg))

    rec = {"index": index, "cfg": cfg}
    c = PT.normalise(cfg)
    geo = PT.geometry(c)
    rec["degenerate"] = geo.degenerate
    rec["obj_shape_expected"] = [int(v) for v in geo.obj_shape]
    if geo.degenerate:
        return rec, fails
    J = geo.num_patterns
    rec.update(J=J, pad_adj=[int(v) for v in geo.pad_adj], wraps=bool((geo.roi > geo.obj_shape).any()), fractional=bool((np.abs(geo.frac) > 1e-3).any()),
               rounds_up=bool((geo.frac < -1e-3).any()), on_edge=bool((geo.positions_px > geo.obj_shape - 1 + 1e-6).any()))
    stage = "build"
    try:
        pr = PT.build(cfg, point_rng(seed, index))
        # ------------------------------------------------------------------ (5) geometry
        stage = "geometry"
        lg = pr.lib_geometry()
        rec["obj_shape_lib"] = lg["obj_shape"]
        if lg["obj_shape"] != [c["slices"], int(geo.obj_shape[0]), int(geo.obj_shape[1])]:
            fail({"relation": "geometry", "what": "obj_shape"}, f"library object shape {lg['obj_shape']} != independently computed {[c['slices'], *map(int, geo.obj_shape)]}")
        if lg["obj_padding_px"] != [int(v) for v in geo.pad_adj]:
            fail({"relation": "geometry", "what": "padding"}, f"library adjusted padding {lg['obj_padding_px']} != expected {[int(v) for v in geo.pad_adj]}")
        if np.abs(lg["sampling"] - geo.sampling).max() > 1e-9 * geo.sampling.max():
            fail({"relation": "geometry", "what": "sampling"}, f"library object sampling {lg['sampling']} != {geo.sampling}")
        if lg["positions_px"].shape != geo.positions_px.shape:
            fail({"relation": "geometry", "what": "positions"}, f"positions shape {lg['positions_px'].shape} != {geo.positions_px.shape}")
        else:
            dpos = float(np.abs(lg["positions_px"] - geo.positions_px).max())
            rec["dpos"] = dpos
            if dpos > TOL["positions_px"]:
                j = int(np.argmax(np.abs(lg["positions_px"] - geo.positions_px).max(1)))
                fail({"relation": "geometry", "what": "positions"}, f"pixel position of pattern {j}: library {lg['positions_px'][j]} vs expected {geo.positions_px[j]} (max diff {dpos:.3g} px)")
        if lg["patch_indices"].shape != geo.patch_flat.shape or not np.array_equal(lg["patch_indices"], geo.patch_flat):
            if lg["patch_indices"].shape == geo.patch_flat.shape:
                bad = np.argwhere(lg["patch_indices"] != geo.patch_flat)
                j, r, q = (int(v) for v in bad[0])
                where = f"first at pattern {j} roi pixel ({r},{q}): library {int(lg['patch_indices'][j, r, q])} vs expected {int(geo.patch_flat[j, r, q])}; {len(bad)} entries differ"
            else:
                where = f"shape {lg['patch_indices'].shape} vs {geo.patch_flat.shape}"
            fail({"relation": "geometry", "what": "patch_indices"}, f"patch indices differ from periodic round(position) indexing: {where}")

        # ------------------------------------------------------------------ (5b) a forward pass leaves the scan positions alone
        stage = "forward:truth"
        full = np.arange(J)
        with torch.no_grad():
            pred0 = pr.predict(full).detach().cpu().numpy().astype(float)
        pos_after = pr.lib_geometry()["positions_px"]
        if pos_after.shape != lg["positions_px"].shape:
            fail({"relation": "forward_keeps_scan_positions", "cause": "other"}, f"dset.forward changed the shape of scan_positions_px: {lg['positions_px'].shape} -> {pos_after.shape}")
            return rec, fails
        moved = np.abs(pos_after - lg["positions_px"]).max(1)
        if moved.max() > TOL["positions_px"]:
            # Which positions moved, and how?  "clipped_to_last_object_pixel" is reserved for exactly one mechanism: a
            # position that lay beyond the last object pixel and came back as min(position, shape-1).
            # Every other displacement gets cause "other" (its own class: never absorbed by the known finding).
            before = lg["positions_px"]
            hi = (geo.obj_shape - 1).astype(float)
            idx_moved = np.flatnonzero(moved > TOL["positions_px"])
            outside = (before > hi + 1e-6).any(1)
            as_clip = np.abs(pos_after - np.minimum(before, hi)).max(1) <= TOL["positions_px"]
            clipped = [int(j) for j in idx_moved if outside[j] and as_clip[j]]
            other = [int(j) for j in idx_moved if not (outside[j] and as_clip[j])]
            d0 = float(np.abs(pred0 - pr.intensities).max() / pr.intensities.max()) if pred0.shape == pr.intensities.shape else float("nan")
            for cause, js in (("clipped_to_last_object_pixel", clipped), ("other", other)):
                if js:
                    j = js[0]
                    fail({"relation": "forward_keeps_scan_positions", "cause": cause},
                         f"dset.forward moved the scan position of pattern {j} from {before[j].tolist()} to {pos_after[j].tolist()} on an object of "
                         f"{lg['obj_shape'][1:]} px (adjusted padding {lg['obj_padding_px']}); {len(js)} of {J} positions moved this way ({js}); consequence: at the "
                         f"ground truth max |predicted - simulated| / max(simulated) = {d0:.3g} (the remaining oracles are skipped at this point)")
            rec["moved"] = float(moved.max())
            return rec, fails

        # ------------------------------------------------------------------ (5c) patch origin + fractional shift = position
        stage = "placement"
        pl = pr.lib_placement(full)
        res = (pl["origin_mod"] + pl["frac"] - pl["positions_px"]) % pl["obj_shape"]
        res = np.minimum(res, pl["obj_shape"] - res).max(1)
        rec["placement_residual"] = float(res.max())
        if res.max() > TOL["positions_px"]:
            js = [int(j) for j in np.flatnonzero(res > TOL["positions_px"])]
            j = js[0]
            fail({"relation": "patch_origin_plus_fraction_is_position"},
                 f"one dset.forward call places pattern {j} inconsistently: position {pl['positions_px'][j].tolist()}, patch origin (mod object shape "
                 f"{pl['obj_shape'].tolist()}) {pl['origin_mod'][j].tolist()}, fractional shift handed to the probe {pl['frac'][j].tolist()}: origin + shift is "
                 f"{res[j]:.3g} px away from the position; {len(js)} of {J} patterns affected ({js})")
        if geo.has_ties:
            # the family is only meaningful if the library's own float32 positions are the exact ties
            rec["tie_exact_in_library"] = bool(np.array_equal(lg["positions_px"], geo.positions_px) and geo.exact_ties.any())
            ip = np.floor(geo.positions_px[geo.exact_ties]).astype(int)
            rec["ties_even"], rec["ties_odd"] = int((ip % 2 == 0).sum()), int((ip % 2 == 1).sum())
            if not rec["tie_exact_in_library"]:
                rec["skipped"] = "library positions are not exact half-pixel ties"
                return rec, fails

        # ------------------------------------------------------------------ states
        prng = point_rng(seed, index, 1)
        states = [("truth", None, pr.obj_true, pr.probe_true, pr.intensities)]
        for target, kind in perturbations(c):
            if target == "object":
                o = PT.perturb_object(pr.obj_true, c, geo, kind, prng)
                states.append((kind, "object", o, pr.probe_true, None))
            else:
                p = PT.perturb_probe(pr.probe_true, c, geo, kind)
                states.append((kind, "probe", pr.obj_true, p, None))
        I_meas = pr.intensities
        mean_I = float(I_meas.sum() / J)
        parts = PT.partitions(J)
        null = {lt: PT.ref_loss(np.zeros_like(I_meas), I_meas, lt, J, mean_I) for lt in PT.LOSS_TYPES}
        L_truth = {}
        grads = {}
        worst = {"pred_rel": 0.0, "batch_sum_rel": 0.0, "zero": {lt: 0.0 for lt in PT.LOSS_TYPES}, "ratio": {lt: np.inf for lt in PT.LOSS_TYPES}}
        nb = 0
        installed_obj = "truth"
        for name, target, o, p, sim in states:
            stage = f"install:{name}"
            want_obj = name if target == "object" else "truth"
            if want_obj != installed_obj:
                pr.set_object(o)
                installed_obj = want_obj
            pr.set_probe(pr.install_order(p))
            msg = readback_mismatch(pr.install_order(p), pr.probe_readback())
            if msg:
                fail({"relation": "probe_readback_keeps_shape_weight_pairs"}, f"state {name}, modes installed in order {c.get('mode_order') or list(range(c['modes']))}: {msg}")
            if sim is None:
                sim = PT.simulate(o, p, geo, c)
            scale = float(sim.max())
            # ---- (1) predictions for every batch of every batch size
            stage = f"forward:{name}"
            preds = {}
            sparts = parts if name in PARTITIONED_STATES else [(J, [full])]
            with torch.no_grad():
                for b, batches in sparts:
                    for k, idx in enumerate(batches):
                        pred = pr.predict(idx)
                        preds[(b, k)] = pred
                        nb += 1
                        pn = pred.detach().cpu().numpy().astype(float)
                        if pn.shape != sim[idx].shape:
                            fail({"relation": "predicted_equals_simulated", "state": "truth" if name == "truth" else "perturbed", "what": "shape"},
                                 f"state {name}, batch size {b}, batch {k}: predicted shape {pn.shape} vs simulated {sim[idx].shape}")
                            continue
                        d = float(np.abs(pn - sim[idx]).max() / scale) if np.isfinite(pn).all() else float("inf")
                        worst["pred_rel"] = max(worst["pred_rel"], d)
                        if not d <= TOL["pred_rel"]:
                            jj = int(idx[int(np.argmax(np.abs(pn - sim[idx]).reshape(len(idx), -1).max(1)))]) if np.isfinite(d) else int(idx[0])
                            fail({"relation": "predicted_equals_simulated", "state": "truth" if name == "truth" else "perturbed"},
                                 f"state {name}, batch size {b}, batch {k} (patterns {idx.tolist()}): max |predicted - simulated| / max(simulated) = {d:.3g} > {TOL['pred_rel']:g} (worst pattern {jj})")
                # ---- (2)/(3) losses for every loss type, every batch
                for lt in PT.LOSS_TYPES:
                    stage = f"loss:{name}:{lt}"
                    pr.set_loss_type(lt)
                    Lfull = float(pr.loss(preds[(J, 0)], full, lt))  # batch size J = the full batch
                    for b, batches in sparts:  # smallest batch size first
                        Ls = [float(pr.loss(preds[(b, k)], idx, lt)) for k, idx in enumerate(batches)]
                        if name == "truth":
                            for k, (idx, L) in enumerate(zip(batches, Ls)):
                                z = L / null[lt] if np.isfinite(L) else float("inf")
                                worst["zero"][lt] = max(worst["zero"][lt], z)
                                if not z <= TOL["zero"][lt]:
                                    fail({"relation": "loss_zero_at_truth", "loss": lt},
                                         f"{lt} at the ground truth, batch size {b}, batch {k} (patterns {idx.tolist()}): loss {L:.4g} = {z:.3g} x the loss of an all-zero prediction (tolerance {TOL['zero'][lt]:g})")
                        else:
                            w = sum(len(idx) / J * L for idx, L in zip(batches, Ls))
                            dsum = abs(w - Lfull) / abs(Lfull) if Lfull else float("inf")
                            worst["batch_sum_rel"] = max(worst["batch_sum_rel"], dsum)
                            if not dsum <= TOL["batch_sum_rel"]:
                                fail({"relation": "batch_fraction_scaling", "loss": lt},
                                     f"{lt} at perturbed state {name}, batch size {b}: sum_k (n_k/J) L_k = {w:.6g} but the full-batch loss is {Lfull:.6g} (rel. diff {dsum:.3g}); per-batch losses {[float(f'{v:.4g}') for v in Ls]}")
                    if name == "truth":
                        L_truth[lt] = Lfull
                    else:
                        base = max(L_truth.get(lt, 0.0), 1e-30)
                        ratio = Lfull / base
                        worst["ratio"][lt] = min(worst["ratio"][lt], ratio)
                        if not ratio >= TOL["ratio"][lt[:2]]:
                            fail({"relation": "loss_larger_when_perturbed", "loss": lt, "perturbation": name},
                                 f"{lt}: loss at perturbed state {name} = {Lfull:.4g}, at the ground truth {L_truth.get(lt)!r}: ratio {ratio:.3g} < {TOL['ratio'][lt[:2]]:g}")
            # ---- (4) gradients of the l2 losses, full batch
            for lt in ("l2_amplitude", "l2_intensity"):
                stage = f"grad:{name}:{lt}"
                pr.set_loss_type(lt)
                _l, go, gp = pr.loss_and_grads(full, lt)
                grads[(name, lt)] = (float(np.linalg.norm(go)), float(np.linalg.norm(gp)))
        stage = "stationarity"
        rec["stationary"] = {}
        for lt in ("l2_amplitude", "l2_intensity"):
            g0 = grads[("truth", lt)]
            for w, wrt in enumerate(("object", "probe")):
                # compared with the gradient at the states in which THIS parameter was perturbed (a pure probe
                # rescaling, for example, produces no gradient on the phase of the object)
                names = PT.OBJECT_PERTURBATIONS if wrt == "object" else PT.PROBE_PERTURBATIONS
                others = {n: grads[(n, lt)][w] for (n, l2) in grads if l2 == lt and n in names}
                gmin_name = min(others, key=others.get)
                r = g0[w] / others[gmin_name] if others[gmin_name] > 0 else float("inf")
                rec["stationary"][f"{lt}:{wrt}"] = r
                if not r <= TOL["stationary"]:
                    fail({"relation": "stationary_at_truth", "loss": lt, "wrt": wrt},
                         f"{lt}: |grad wrt {wrt}| at the ground truth = {g0[w]:.4g}, at perturbed state {gmin_name} = {others[gmin_name]:.4g}: ratio {r:.3g} > {TOL['stationary']:g}")
        rec["worst"] = worst
        rec["L_truth"] = L_truth
        rec["batches"] = nb
    except Broken:
        raise
    except Exception as e:  # the pipeline raising on a legal configuration is a verdict, not a harness error
        tb = traceback.format_exc().strip().splitlines()
        src = [ln.strip() for ln in tb if "/quantem/" in ln]
        in_lib = bool(src)
        if not in_lib:
            raise
        fail({"relation": "pipeline_raises", "stage": stage.split(":")[0], "error": type(e).__name__},
             f"stage {stage}: {type(e).__name__}: {str(e)[:200]} @ {src[-1][-160:] if src else ''}")
    return rec, fails


def judge(item, seed=0):
    """evaluate() plus the acceptance rule of the half_pixel_ties family: the library passes if it agrees with the
    simulator under at least ONE tie convention applied consistently to patch origin and fractional shift (data, geometry
    and every oracle recomputed under that convention): half-to-even first, then half-up.  If neither passes, the
    failures under half-to-even are reported, each message saying that half-up failed as well."""
    if item["family"] != "half_pixel_ties":
        rec, fails = evaluate(item, seed=seed)
        return rec, fails
    rec, fails = evaluate(item, seed=seed, tie="even")
    rec["tie_convention"] = "half_to_even"
    if not fails or rec["degenerate"] or rec.get("skipped"):
        return rec, fails
    rec_up, fails_up = evaluate(item, seed=seed, tie="up")
    if not fails_up:
        rec_up["tie_convention"] = "half_up"
        return rec_up, fails_up
    rec["tie_convention"] = "neither"
    up = sorted({c.get("relation", "?") for c, _ in fails_up})
    return rec, [(c, m + f" [simulator ties half-to-even; with ties half-up the point fails too: {', '.join(up)}]") for c, m in fails]


def check_point(item, seed=0):
    t = Tally()
    rec, fails = judge(item, seed=seed)
    if rec["degenerate"]:
        t.case(key=item["cfg"], nontrivial=False, outcome=None)
        t.extra["excluded_zero_length_object_axis"] += 1
        return t
    outcome = (rec["obj_shape_expected"], rec["pad_adj"], rec["J"], rec["wraps"], rec["fractional"], rec.get("tie_convention"))
    t.case(key=item["cfg"], nontrivial=True, outcome=outcome)
    t.extra["batches_forwarded"] += rec.get("batches", 0)
    t.extra["loss_evaluations"] += 4 * rec.get("batches", 0)
    t.extra["points_with_wraparound_patches"] += int(rec["wraps"])
    t.extra["points_with_fractional_positions"] += int(rec["fractional"])
    t.extra["points_where_round_differs_from_floor"] += int(rec["rounds_up"])
    t.extra["points_nonsquare_roi"] += int(item["cfg"]["roi"][0] != item["cfg"]["roi"][1])
    t.extra["points_constant_descan"] += int(item["cfg"]["descan"] == "constant")
    t.extra["points_with_a_position_beyond_the_last_object_pixel"] += int(rec["on_edge"])
    mo = item["cfg"].get("mode_order")
    t.extra["points_modes_not_installed_strongest_first"] += int(mo is not None and mo != sorted(mo))
    if item["family"] == "half_pixel_ties":
        t.extra["tie_points_exact_in_library_arithmetic"] += int(bool(rec.get("tie_exact_in_library")))
        t.extra["tie_points_skipped_library_positions_inexact"] += int(bool(rec.get("skipped")))
        t.extra["tie_coordinates_even_integer_part"] += rec.get("ties_even", 0)
        t.extra["tie_coordinates_odd_integer_part"] += rec.get("ties_odd", 0)
        t.extra["tie_points_library_matches_" + rec.get("tie_convention", "?")] += int(not rec.get("skipped"))
    for cls, msg in fails:
        t.fail(cls, {"index": item["index"], "family": item["family"], "cfg": item["cfg"]}, f"{json.dumps(item['cfg'], sort_keys=True)} :: {msg}")
    if (item["index"] % 97 == 0 or item["family"] != "main" and item["index"] % 7 == 0) and "worst" in rec:
        t.sample({"cfg": item["cfg"], "obj_shape": rec["obj_shape_expected"], "patterns": rec["J"], "batches": rec["batches"],
                  "max_rel_pred_error": rec["worst"]["pred_rel"], "loss_truth": rec["L_truth"], "min_loss_ratio": rec["worst"]["ratio"]})
    return t


# ============================================================================= reconfiguration histories
# "The prediction depends on the CURRENT configuration only."  One Problem / Ptychography instance per history: it is built
# with configuration A (thicknesses A) on data that the independent simulator produced for configuration F (same object and
# probe, thicknesses B).  Every history of reconfiguration events up to the stated length is applied; a tiny reference model
# (slice count, thicknesses, object, probe modes, loss type) follows each event.  The FINAL state is then judged the way
# reconstruct() enters its loop (reconstruct(num_iters=0, loss_type) first, then the public forward chain):
#   (H1) predicted == simulator evaluated at the reference model's final configuration (whatever it is);
#   (H2) if the final configuration is F, all four losses are ~0 against the data, and
#   (H3) the seeded-noise object perturbation raises every loss by the usual factor.
# Events that are not applicable in the current state (direct thickness assignment while another slice count is installed)
# are skipped in both library and model and counted.
HISTORY_EVENTS = (
    "object_thicknesses_B_via_model_swap",     # fresh object model, same slice count, thicknesses B: ptycho.obj_model = ..; preprocess
    "thicknesses_B_on_object_model",           # ptycho.obj_model.slice_thicknesses = B
    "thicknesses_B_via_ptychography_setter",   # ptycho.slice_thicknesses = B
    "object_with_other_slice_count",           # fresh object model with S1 slices (thicknesses C): model swap + preprocess
    "probe_model_with_other_mode_count",       # fresh probe model, M <-> M1 modes, installed in reversed order
    "switch_loss_type",                        # reconstruct(num_iters=0, loss_type=next)
    "forward_pass_on_a_batch",                 # one forward + loss on the first half of the patterns
    "reconstruct_zero_iterations",             # reconstruct(num_iters=0)
)
HISTORY_BASES = [
    dict(obj_type="complex", slices=2, modes=1, roi=[8, 10], scan=[2, 2], step="fractional", pad=[3, 5]),
    dict(obj_type="potential", slices=3, modes=2, roi=[8, 8], scan=[2, 3], step="fractional", pad=[3, 5]),
    dict(obj_type="pure_phase", slices=2, modes=2, roi=[10, 8], scan=[2, 2], step="commensurate", pad=[3, 5]),
    dict(obj_type="complex", slices=1, modes=2, roi=[8, 10], scan=[2, 2], step="fractional", pad=[3, 5]),  # refused-request family only
]


def history_setup(base):
    """Thickness sets A (build), B (data), C (other slice count) and the other slice / mode counts of a base configuration."""
    S0 = base["slices"]
    S1 = 3 if S0 == 2 else 2  # (a single-slice base gets 2)
    A = [60.0 + 30.0 * s for s in range(S0 - 1)]
    B = [35.0 + 95.0 * s for s in range(S0 - 1)]
    C = [80.0 + 45.0 * s for s in range(S1 - 1)]
    M0 = base["modes"]
    M1 = 2 if M0 == 1 else 1
    return S0, S1, A, B, C, M0, M1


def history_items(tier):
    depth = 2 if tier == "quick" else 3
    bases = HISTORY_BASES[:2] if tier == "quick" else HISTORY_BASES[:3]
    items = []
    for b, base in enumerate(bases):
        for n in range(depth + 1):
            for h in itertools.product(range(len(HISTORY_EVENTS)), repeat=n):
                items.append({"index": len(items), "base": b, "history": [HISTORY_EVENTS[e] for e in h]})
    return items, depth, len(bases)


# ----------------------------------------------------------------------------- refused requests
# "A refused request changes nothing the forward model uses."  Invalid arguments to the public setters / configuration calls
# that the history alphabet uses.  Every member below is REFUSED (raises) by the tree this check was written against; members
# that it accepts were left out on purpose (NaN thicknesses, negative padding, an ill-shaped object array).  At run time a
# member that does NOT raise is counted (`refused_ops_accepted_by_this_tree`) and the history is not judged: what the tree
# accepts is not this family's business.  After a refusal the reference model is unchanged; the final state is judged twice:
# immediately, and after a follow-up that forces derived state to be rebuilt (compute_propagator_arrays(), preprocess() with
# the same arguments, reconstruct(num_iters=0)).  Ill-shaped arguments are built against the CURRENT slice / mode counts.
_BAD_THICKNESS = ("zero_scalar", "neg_scalar", "neg_int", "list_neg", "list_zero", "ndarray_neg", "tensor_neg", "wrong_length", "string", "list_str", "2d")
REFUSED_OPS = tuple(
    [f"ptycho.slice_thicknesses={k}" for k in _BAD_THICKNESS] + [f"obj_model.slice_thicknesses={k}" for k in _BAD_THICKNESS] + [
        "probe_setter:extra_mode", "probe_setter:wrong_roi", "probe_setter:4d", "probe_setter:string", "probe_setter:none",
        "probe_params:unknown_key", "probe_params:bad_aberration", "probe_params:not_dict", "probe_tilt:len3",
        "probe_model.num_probes=0", "probe_model.roi_shape=0", "probe_model.roi_shape=len3", "probe_model.reciprocal_sampling=len3",
        "probe_model.mean_diffraction_intensity=-1", "dset.mean_diffraction_intensity=-1",
        "dset.scan_positions_px:wrong_shape", "dset.scan_positions_px:3cols", "dset.scan_positions_px:string", "dset.descan_shifts:wrong_shape",
        "dset.detector_mask:wrong_shape", "dset.diffraction_padding:len3", "dset.probe_energy=-1", "dset.verbose=-1",
        "ptycho.obj_padding_px:len3", "ptycho.obj_padding_px:string", "preprocess:obj_padding_len3", "preprocess:val_ratio=1.5",
        "preprocess:val_mode=bogus", "preprocess:batch_size=0", "ptycho.val_ratio=2", "ptycho.val_mode=bogus", "ptycho.batch_size=0",
        "ptycho.batch_size=-3", "ptycho.batch_size=str", "ptycho.verbose=-1", "ptycho.device=tpu", "ptycho.propagators:wrong_shape",
        "ptycho.obj_fov_mask:4d", "ptycho.constraints:unknown_category", "ptycho.constraints:unknown_object_key",
        "ptycho.constraints:unknown_probe_key", "ptycho.constraints:not_dict", "ptycho.set_obj_type(bogus)", "obj_model.obj_type=bogus",
        "obj_model.sampling=negative", "obj_model.sampling=len3", "obj_model.mask:4d", "ptycho.obj_model=not_a_model",
        "ptycho.probe_model=not_a_model", "ptycho.probe_model=wrong_roi_model", "ptycho.detector_model=not_a_model", "ptycho.dset=not_a_dataset",
        "ptycho.logger=not_a_logger", "object_model:thickness_count_mismatch", "object_model:negative_thickness",
        "reconstruct:loss_type=bogus", "reconstruct:batch_size=0", "reconstruct:batch_size=-2", "reconstruct:optimizer_params=unknown_key",
        "reconstruct:optimizer_type=bogus", "reconstruct:scheduler_params=unknown_type", "reconstruct:constraints=unknown_category",
        "reconstruct:device=tpu", "reconstruct:unknown_kw",
    ]
)
# one or two members per setter / call: the alphabet of the pairs; the first six also of the thorough triples
REFUSED_CORE = (
    "ptycho.slice_thicknesses=list_neg", "obj_model.slice_thicknesses=neg_scalar", "probe_setter:wrong_roi", "ptycho.probe_model=wrong_roi_model",
    "dset.scan_positions_px:wrong_shape", "reconstruct:loss_type=bogus",
    "obj_model.slice_thicknesses=tensor_neg", "ptycho.slice_thicknesses=zero_scalar", "probe_params:unknown_key", "dset.descan_shifts:wrong_shape",
    "ptycho.obj_padding_px:len3", "preprocess:obj_padding_len3", "ptycho.constraints:unknown_object_key", "reconstruct:batch_size=0",
    "object_model:thickness_count_mismatch",
)
REFUSED_BASES = {"quick": (0, 1, 3), "thorough": (0, 1, 2, 3)}


def refused_call(pr, op):
    """Issue the invalid request `op` on the live instance. Returns 'raised:<Type>', 'accepted' or 'not_applicable'."""
    import torch

    from quantem.diffractive_imaging.object_models import ObjectPixelated
    from quantem.diffractive_imaging.probe_models import ProbePixelated

    pt = pr.ptycho
    S, M, J = int(pt.num_slices), int(pt.num_probes), pr.num_patterns
    R, C = (int(v) for v in pr.geo.roi)
    H, W = (int(v) for v in pr.geo.obj_shape)
    n = max(S - 1, 1)
    pad = tuple(pr.cfg["pad"])
    kw = dict(plot_rotation=False, plot_com=False)
    thick = {"zero_scalar": 0.0, "neg_scalar": -5.0, "neg_int": -3, "list_neg": [-5.0] + [10.0] * (n - 1), "list_zero": [0.0] * n,
             "ndarray_neg": np.array([20.0] * (n - 1) + [-1.0]), "tensor_neg": torch.tensor([20.0] * (n - 1) + [-1.0]),
             "wrong_length": [10.0] * (n + 2), "string": "thick", "list_str": ["a"] * n, "2d": np.ones((n, 2))}
    target, _, arg = op.partition("=") if "slice_thicknesses=" in op else (op, "", "")
    if arg in thick and target in ("ptycho.slice_thicknesses", "obj_model.slice_thicknesses"):
        holder = pt if target.startswith("ptycho") else pt.obj_model
        call = lambda: setattr(holder, "slice_thicknesses", thick[arg])  # noqa: E731
    else:
        table = {
            "probe_setter:extra_mode": lambda: setattr(pt.probe_model, "probe", np.ones((M + 1, R, C), np.complex64)),
            "probe_setter:wrong_roi": lambda: setattr(pt.probe_model, "probe", np.ones((M, R + 2, C), np.complex64)),
            "probe_setter:4d": lambda: setattr(pt.probe_model, "probe", np.ones((1, M, R, C), np.complex64)),
            "probe_setter:string": lambda: setattr(pt.probe_model, "probe", "probe"),
            "probe_setter:none": lambda: setattr(pt.probe_model, "probe", None),
            "probe_params:unknown_key": lambda: setattr(pt.probe_model, "probe_params", {"bogus": 1.0}),
            "probe_params:bad_aberration": lambda: setattr(pt.probe_model, "probe_params", {"C10": "x"}),
            "probe_params:not_dict": lambda: setattr(pt.probe_model, "probe_params", 5),
            "probe_tilt:len3": lambda: setattr(pt.probe_model, "probe_tilt", (1.0, 2.0, 3.0)),
            "probe_model.num_probes=0": lambda: setattr(pt.probe_model, "num_probes", 0),
            "probe_model.roi_shape=0": lambda: setattr(pt.probe_model, "roi_shape", (0, 0)),
            "probe_model.roi_shape=len3": lambda: setattr(pt.probe_model, "roi_shape", (8, 8, 8)),
            "probe_model.reciprocal_sampling=len3": lambda: setattr(pt.probe_model, "reciprocal_sampling", (1.0, 1.0, 1.0)),
            "probe_model.mean_diffraction_intensity=-1": lambda: setattr(pt.probe_model, "mean_diffraction_intensity", -1.0),
            "dset.mean_diffraction_intensity=-1": lambda: setattr(pt.dset, "mean_diffraction_intensity", -1.0),
            "dset.scan_positions_px:wrong_shape": lambda: setattr(pt.dset, "scan_positions_px", np.zeros((J + 1, 2), np.float32)),
            "dset.scan_positions_px:3cols": lambda: setattr(pt.dset, "scan_positions_px", np.zeros((J, 3), np.float32)),
            "dset.scan_positions_px:string": lambda: setattr(pt.dset, "scan_positions_px", "x"),
            "dset.descan_shifts:wrong_shape": lambda: setattr(pt.dset, "descan_shifts", np.zeros((J + 1, 2), np.float32)),
            "dset.detector_mask:wrong_shape": lambda: setattr(pt.dset, "detector_mask", np.ones((R + 1, C), np.float32)),
            "dset.diffraction_padding:len3": lambda: setattr(pt.dset, "diffraction_padding", (1, 2, 3)),
            "dset.probe_energy=-1": lambda: setattr(pt.dset, "probe_energy", -1.0),
            "dset.verbose=-1": lambda: setattr(pt.dset, "verbose", -1),
            "ptycho.obj_padding_px:len3": lambda: setattr(pt, "obj_padding_px", (1, 2, 3)),
            "ptycho.obj_padding_px:string": lambda: setattr(pt, "obj_padding_px", "ab"),
            "preprocess:obj_padding_len3": lambda: pt.preprocess(obj_padding_px=(1, 2, 3), **kw),
            "preprocess:val_ratio=1.5": lambda: pt.preprocess(obj_padding_px=pad, val_ratio=1.5, **kw),
            "preprocess:val_mode=bogus": lambda: pt.preprocess(obj_padding_px=pad, val_mode="bogus", **kw),
            "preprocess:batch_size=0": lambda: pt.preprocess(obj_padding_px=pad, batch_size=0, **kw),
            "ptycho.val_ratio=2": lambda: setattr(pt, "val_ratio", 2.0),
            "ptycho.val_mode=bogus": lambda: setattr(pt, "val_mode", "bogus"),
            "ptycho.batch_size=0": lambda: setattr(pt, "batch_size", 0),
            "ptycho.batch_size=-3": lambda: setattr(pt, "batch_size", -3),
            "ptycho.batch_size=str": lambda: setattr(pt, "batch_size", "many"),
            "ptycho.verbose=-1": lambda: setattr(pt, "verbose", -1),
            "ptycho.device=tpu": lambda: setattr(pt, "device", "tpu"),
            "ptycho.propagators:wrong_shape": (lambda: setattr(pt, "propagators", np.ones((S + 1, R, C), np.complex64))) if S > 1 else None,
            "ptycho.obj_fov_mask:4d": lambda: setattr(pt, "obj_fov_mask", np.ones((1, 1, 4, 4), np.float32)),
            "ptycho.constraints:unknown_category": lambda: setattr(pt, "constraints", {"bogus": {"a": 1}}),
            "ptycho.constraints:unknown_object_key": lambda: setattr(pt, "constraints", {"object": {"bogus_key": 1}}),
            "ptycho.constraints:unknown_probe_key": lambda: setattr(pt, "constraints", {"probe": {"bogus_key": 1}}),
            "ptycho.constraints:not_dict": lambda: setattr(pt, "constraints", 5),
            "ptycho.set_obj_type(bogus)": lambda: pt.set_obj_type("bogus"),
            "obj_model.obj_type=bogus": lambda: setattr(pt.obj_model, "obj_type", "bogus"),
            "obj_model.sampling=negative": lambda: setattr(pt.obj_model, "sampling", (-1.0, 1.0)),
            "obj_model.sampling=len3": lambda: setattr(pt.obj_model, "sampling", (1.0, 1.0, 1.0)),
            "obj_model.mask:4d": lambda: setattr(pt.obj_model, "mask", np.ones((1, 1, 4, 4), np.float32)),
            "ptycho.obj_model=not_a_model": lambda: setattr(pt, "obj_model", 5),
            "ptycho.probe_model=not_a_model": lambda: setattr(pt, "probe_model", 5),
            "ptycho.probe_model=wrong_roi_model": lambda: setattr(pt, "probe_model", ProbePixelated.from_array(np.ones((M, R + 2, C + 2), np.complex64), probe_params=pr._probe_params(), rng=1)),
            "ptycho.detector_model=not_a_model": lambda: setattr(pt, "detector_model", 5),
            "ptycho.dset=not_a_dataset": lambda: setattr(pt, "dset", 5),
            "ptycho.logger=not_a_logger": lambda: setattr(pt, "logger", 5),
            "object_model:thickness_count_mismatch": lambda: setattr(pt, "obj_model", ObjectPixelated.from_array(np.ones((S, H, W), np.complex64), slice_thicknesses=[10.0] * (S + 1))),
            "object_model:negative_thickness": lambda: setattr(pt, "obj_model", ObjectPixelated.from_array(np.ones((max(S, 2), H, W), np.complex64), slice_thicknesses=-4.0)),
            "reconstruct:loss_type=bogus": lambda: pt.reconstruct(num_iters=0, loss_type="bogus"),
            "reconstruct:batch_size=0": lambda: pt.reconstruct(num_iters=0, batch_size=0),
            "reconstruct:batch_size=-2": lambda: pt.reconstruct(num_iters=0, batch_size=-2),
            "reconstruct:optimizer_params=unknown_key": lambda: pt.reconstruct(num_iters=0, optimizer_params={"bogus": {"type": "sgd", "lr": 1.0}}),
            "reconstruct:optimizer_type=bogus": lambda: pt.reconstruct(num_iters=0, optimizer_params={"object": {"type": "bogus", "lr": 1.0}}),
            "reconstruct:scheduler_params=unknown_type": lambda: pt.reconstruct(num_iters=0, scheduler_params={"object": {"type": "bogus"}}),
            "reconstruct:constraints=unknown_category": lambda: pt.reconstruct(num_iters=0, constraints={"bogus": {"a": 1}}),
            "reconstruct:device=tpu": lambda: pt.reconstruct(num_iters=0, device="tpu"),
            "reconstruct:unknown_kw": lambda: pt.reconstruct(num_iter=0),
        }
        call = table[op]
    if call is None:
        return "not_applicable"
    try:
        call()
    except Exception as e:  # any exception is a refusal
        return f"raised:{type(e).__name__}"
    return "accepted"


def refused_items(tier, start):
    """Histories with at least one refused request.  quick: every member alone, every (refused, refused) pair over the first
    9 core members, every (core, valid event) pair.  thorough: pairs over all 15 core members, also (valid event, core),
    (any other member, first six core) and (first six core, any other member), and every triple over the first six core
    members and the 8 valid events that contains a refused request."""
    r = lambda k: "refused:" + k  # noqa: E731
    core = [r(k) for k in (REFUSED_CORE[:9] if tier == "quick" else REFUSED_CORE)]
    valid = list(HISTORY_EVENTS)
    hs = [[r(k)] for k in REFUSED_OPS]
    hs += [[a, b] for a in core for b in core]
    hs += [[a, v] for a in core for v in valid]
    if tier != "quick":
        hs += [[v, a] for v in valid for a in core]
        rest = [r(k) for k in REFUSED_OPS if r(k) not in core]
        hs += [[a, b] for a in rest for b in core[:6]] + [[a, b] for a in core[:6] for b in rest]
        small = core[:6] + valid
        hs += [list(h) for h in itertools.product(small, repeat=3) if any(e.startswith("refused:") for e in h)]
    items = []
    for b in REFUSED_BASES[tier]:
        for h in hs:
            items.append({"index": start + len(items), "base": b, "history": h})
    return items


def run_history(item, seed=0):
    """Apply one history on one instance and judge the final state. Returns (record, fails)."""
    import torch

    base = dict(HISTORY_BASES[item["base"]])
    S0, S1, A, B, C, M0, M1 = history_setup(base)
    hist = item["history"]
    fails, seen = [], set()

    has_refused = any(e.startswith("refused:") for e in hist)

    def fail(what, msg):
        cls = {"relation": "refused_request_changes_nothing" if has_refused else "prediction_depends_on_current_configuration_only", "what": what}
        k = json.dumps(cls, sort_keys=True)
        if k not in seen:
            seen.add(k)
            fails.append((cls, msg))

    cfgA = dict(base, thicknesses=A)
    c = PT.normalise(cfgA)
    geo = PT.geometry(c)
    J = geo.num_patterns
    # ground truth of every configuration the events can reach (independent of the library)
    rng = np.random.default_rng([int(seed), 2, 900 + item["base"], 0])
    obj = {S0: PT.make_object(c, geo, np.random.default_rng([int(seed), 2, 900 + item["base"], 1])),
           S1: PT.make_object(PT.normalise(dict(base, slices=S1, thicknesses=C)), geo, np.random.default_rng([int(seed), 2, 900 + item["base"], 2]))}
    probes = {M: PT.make_probe(PT.normalise(dict(base, modes=M, thicknesses=A)), geo) for M in (M0, M1)}
    # the data belong to thicknesses B (the events have to make the model right), except when the history opens with a refused
    # request: then they belong to the build configuration A, so that "nothing changed" is judged with all four losses
    D = list(A) if (hist and hist[0].startswith("refused:")) else list(B)
    cfgF = PT.normalise(dict(base, thicknesses=D))
    data = PT.simulate(obj[S0], probes[M0], geo, cfgF)
    model = {"S": S0, "T": list(A), "M": M0, "loss": 0}  # reference model of the configuration
    trail = [dict(model)]
    rec = {"index": item["index"], "base": item["base"], "history": hist, "skipped_events": 0, "refused": 0, "accepted": []}
    half = np.arange(max(1, J // 2))
    stage = "build"
    try:
        pr = PT.build(cfgA, rng, obj_init=obj[S0], probe_init=probes[M0], sim=data)
        for n, ev in enumerate(hist):
            stage = f"event {n} {ev}"
            if ev.startswith("refused:"):
                out = refused_call(pr, ev[len("refused:"):])
                if out == "not_applicable":
                    rec["skipped_events"] += 1
                elif out == "accepted":  # this tree accepts what the reference tree refuses: counted, history not judged
                    rec["accepted"].append(ev)
                    rec["not_judged"] = True
                    return rec, fails
                else:
                    rec["refused"] += 1
                continue
            if ev == "object_thicknesses_B_via_model_swap":
                pr.set_object(obj[S0], thicknesses=B)
                model.update(S=S0, T=list(B))
            elif ev in ("thicknesses_B_on_object_model", "thicknesses_B_via_ptychography_setter"):
                if model["S"] != S0:  # B has S0-1 entries: not applicable while another slice count is installed
                    rec["skipped_events"] += 1
                    continue
                if ev == "thicknesses_B_on_object_model":
                    pr.ptycho.obj_model.slice_thicknesses = list(B)
                else:
                    pr.ptycho.slice_thicknesses = list(B)
                model.update(T=list(B))
            elif ev == "object_with_other_slice_count":
                pr.set_object(obj[S1], thicknesses=C)
                model.update(S=S1, T=list(C))
            elif ev == "probe_model_with_other_mode_count":
                M = M1 if model["M"] == M0 else M0
                pr.set_probe_model(probes[M][::-1])
                model.update(M=M)
            elif ev == "switch_loss_type":
                model["loss"] = (model["loss"] + 1) % len(PT.LOSS_TYPES)
                pr.set_loss_type(PT.LOSS_TYPES[model["loss"]])
            elif ev == "forward_pass_on_a_batch":
                with torch.no_grad():
                    pr.loss(pr.predict(half), half, PT.LOSS_TYPES[model["loss"]])
            elif ev == "reconstruct_zero_iterations":
                pr.ptycho.reconstruct(num_iters=0)
            else:
                raise ValueError(ev)
            trail.append(dict(model))
        # ------------------------------------------------------------------ judge the final state
        stage = "judge"
        cfg_now = PT.normalise(dict(base, slices=model["S"], modes=model["M"], thicknesses=model["T"]))
        sim_now = PT.simulate(obj[model["S"]], probes[model["M"]], geo, cfg_now)
        is_F = model["S"] == S0 and model["T"] == D and model["M"] == M0
        rec.update(final=dict(model), final_is_data_configuration=is_F)
        full = np.arange(J)
        mean_I = float(data.sum() / J)
        if has_refused:
            # (a) immediately after the history -- only when every event was a refused request: a valid direct assignment on the
            # object model is, by the library's protocol, picked up at the next reconstruct()/preprocess(), not before;
            # (b) after derived state has been rebuilt through public calls
            d = 0.0
            if all(e.startswith("refused:") for e in hist):
                with torch.no_grad():
                    pn = pr.predict(full).detach().cpu().numpy().astype(float)
                d = float(np.abs(pn - sim_now).max() / sim_now.max()) if pn.shape == sim_now.shape and np.isfinite(pn).all() else float("inf")
                rec["pred_rel_immediate"] = d
            if not d <= TOL["pred_rel"]:
                fail("predicted_equals_simulated_immediately", f"directly after {hist}: max |predicted - simulated| / max = {d:.3g} > {TOL['pred_rel']:g} for the configuration "
                     f"{model['S']} slices, thicknesses {model['T']}, {model['M']} mode(s)")
            stage = "follow-up compute_propagator_arrays"
            pr.ptycho.compute_propagator_arrays()
            stage = "follow-up preprocess (same arguments)"
            pr.ptycho.preprocess(obj_padding_px=tuple(c["pad"]), plot_rotation=False, plot_com=False)
            stage = "judge"
        preds = None
        for lt in PT.LOSS_TYPES:
            pr.set_loss_type(lt)  # reconstruct(num_iters=0, loss_type=lt): what every reconstruct() call does first
            if preds is None:
                with torch.no_grad():
                    preds = [(idx, pr.predict(idx)) for idx in (full, half, np.arange(len(half), J))[: 3 if len(half) < J else 1]]
                for idx, pred in preds:
                    pn = pred.detach().cpu().numpy().astype(float)
                    d = float(np.abs(pn - sim_now[idx]).max() / sim_now.max()) if pn.shape == sim_now[idx].shape and np.isfinite(pn).all() else float("inf")
                    rec["pred_rel"] = max(rec.get("pred_rel", 0.0), d)
                    if not d <= TOL["pred_rel"]:
                        # which earlier configuration does the prediction belong to?
                        stale = []
                        for k, m in enumerate(trail[:-1]):
                            if m["S"] == model["S"] and m["M"] == model["M"] and m["T"] != model["T"]:
                                sk = PT.simulate(obj[m["S"]], probes[m["M"]], geo, PT.normalise(dict(base, slices=m["S"], modes=m["M"], thicknesses=m["T"])))
                                if np.abs(pn - sk[idx]).max() / sk.max() <= TOL["pred_rel"]:
                                    stale.append(f"it equals the simulator for the configuration before event {k} (thicknesses {m['T']})")
                                    break
                        fail("predicted_equals_simulated",
                             f"after {hist} the configuration is {model['S']} slices, thicknesses {model['T']}, {model['M']} mode(s); patterns {idx.tolist()}: "
                             f"max |predicted - simulated(final configuration)| / max = {d:.3g} > {TOL['pred_rel']:g}" + ("; " + stale[0] if stale else ""))
            if is_F:
                L = float(pr.loss(preds[0][1], full, lt))
                z = L / PT.ref_loss(np.zeros_like(data), data, lt, J, mean_I)
                rec.setdefault("zero", {})[lt] = z
                rec.setdefault("L", {})[lt] = L
                if not z <= TOL["zero"][lt]:
                    fail("loss_zero_at_truth", f"after {hist} the configuration is the one the data were simulated with, but {lt} = {L:.4g} = {z:.3g} x the loss of an all-zero prediction")
        if is_F:
            stage = "judge:perturbed"
            pr.set_object(PT.perturb_object(obj[S0], cfgF, geo, "noise", np.random.default_rng([int(seed), 2, 900 + item["base"], 3])), thicknesses=model["T"])
            for lt in PT.LOSS_TYPES:
                pr.set_loss_type(lt)
                with torch.no_grad():
                    Lp = float(pr.loss(pr.predict(full), full, lt))
                ratio = Lp / max(rec["L"][lt], 1e-30)
                rec.setdefault("ratio", {})[lt] = ratio
                if not ratio >= TOL["ratio"][lt[:2]]:
                    fail("loss_larger_when_perturbed", f"after {hist}: {lt} at the noise-perturbed object = {Lp:.4g}, at the ground truth {rec['L'][lt]:.4g}: ratio {ratio:.3g} < {TOL['ratio'][lt[:2]]:g}")
    except Exception as e:
        tb = traceback.format_exc().strip().splitlines()
        src = [ln.strip() for ln in tb if "/quantem/" in ln]
        if not src:
            raise
        fail("event_raises", f"history {hist}, {stage}: {type(e).__name__}: {str(e)[:200]} @ {src[-1][-160:]}")
    return rec, fails


def judge_history(item, seed=0):
    """run_history() plus attribution: a failing history with refused requests is re-run on its proper prefixes; the shortest
    failing prefix names the event after which things went wrong, and the class carries the refused request responsible
    (the latest one up to that event): {"relation": "refused_request_changes_nothing", "op": ..., "what": ...}."""
    rec, fails = run_history(item, seed=seed)
    hist = item["history"]
    if not fails or not any(e.startswith("refused:") for e in hist):
        return rec, fails
    valid_only = [e for e in hist if not e.startswith("refused:")]
    if valid_only:
        _r, f = run_history(dict(item, history=valid_only), seed=seed)
        if f:  # the valid events fail on their own: the refused requests are not responsible
            return rec, [(dict(cls, relation="prediction_depends_on_current_configuration_only"), msg + f" [the valid events alone, {valid_only}, fail as well]") for cls, msg in fails]
    k_bad = len(hist)
    for k in range(1, len(hist)):
        _r, f = run_history(dict(item, history=hist[:k]), seed=seed)
        if f:
            k_bad = k
            break
    ops = [e for e in hist[:k_bad] if e.startswith("refused:")]
    op = ops[-1][len("refused:"):] if ops else "?"
    rec["blamed_event"] = hist[k_bad - 1]
    return rec, [(dict(cls, op=op), msg + f" [first failing prefix ends with {hist[k_bad - 1]!r}]") for cls, msg in fails]


def check_history(item, seed=0):
    t = Tally()
    rec, fails = judge_history(item, seed=seed)
    t.extra["refused_requests_issued_and_refused"] += rec.get("refused", 0)
    t.extra["refused_ops_accepted_by_this_tree"] += len(rec.get("accepted", []))
    t.extra["histories_not_judged_because_a_refused_op_was_accepted"] += int(bool(rec.get("not_judged")))
    t.extra["histories_with_refused_requests"] += int(any(e.startswith("refused:") for e in item["history"]))
    fin = rec.get("final", {})
    t.case(key=[item["base"], item["history"]], nontrivial=True, outcome=(item["base"], fin.get("S"), fin.get("T"), fin.get("M"), fin.get("loss")))
    t.extra["histories"] += 1
    t.extra["history_events_applied"] += len(item["history"]) - rec["skipped_events"]
    t.extra["history_events_not_applicable"] += rec["skipped_events"]
    t.extra["histories_ending_in_the_data_configuration"] += int(bool(rec.get("final_is_data_configuration")))
    for cls, msg in fails:
        t.fail(cls, {"index": item["index"], "family": "reconfiguration_history", "base": item["base"], "history": item["history"]},
               f"base {json.dumps(HISTORY_BASES[item['base']], sort_keys=True)} :: {msg}")
    if item["index"] % 53 == 0 and item["history"]:
        t.sample({"base": HISTORY_BASES[item["base"]], "history": item["history"], "final": fin, "max_rel_pred_error": rec.get("pred_rel"), "loss_zero_ratio": rec.get("zero")})
    return t


# ============================================================================= ordered configuration
# "Whatever is an ordered list in the configuration is used in that order."  (a) slice thicknesses: every order pattern of
# distinct values and repeats in every position, for 3, 4 and 5 slices, handed over as list / tuple / ndarray / tensor /
# scalar, at construction, by an object-model swap, and through the two slice_thicknesses setters followed by the
# recomputation calls; the simulator uses the sequence in slice order.  (b) pattern order: data and scan positions permuted
# consistently (positions through the public `dset.scan_positions_px` setter): the prediction must follow; probe_params dict
# key order.  (Probe mode order is the `mode_orders` lattice family.)  Tilted propagation is not modelled by the simulator, so
# the (row, column) order of a probe tilt is outside this check.
_a, _b, _c, _d = 40.0, 75.0, 115.0, 160.0
THICKNESS_SEQUENCES = {
    3: {"ab": (_a, _c), "ba": (_c, _a), "aa": (_b, _b), "scalar": (_b, _b)},
    4: dict([("".join("abc"[i] for i in p), tuple((_a, _b, _c)[i] for i in p)) for p in itertools.permutations(range(3))]
            + [("aab", (_a, _a, _c)), ("aba", (_a, _c, _a)), ("baa", (_c, _a, _a)), ("bba", (_c, _c, _a)), ("bab", (_c, _a, _c)), ("abb", (_a, _c, _c)),
               ("scalar", (_b, _b, _b))]),
    5: {"ascending": (_a, _b, _c, _d), "descending": (_d, _c, _b, _a), "peak": (_a, _c, _d, _b), "valley": (_c, _a, _b, _d), "zigzag": (_b, _d, _a, _c),
        "zagzig": (_c, _a, _d, _b), "abab": (_a, _c, _a, _c), "baba": (_c, _a, _c, _a), "aabb": (_a, _a, _c, _c), "scalar": (_b, _b, _b, _b)},
}
THICKNESS_ROUTES = ("construction", "object_model_swap", "ptychography_setter", "object_model_setter")
ORDER_BASES = [
    dict(obj_type="complex", modes=1, roi=[8, 10], scan=[2, 2], step="fractional", pad=[3, 5]),
    dict(obj_type="potential", modes=2, roi=[8, 8], scan=[2, 3], step="fractional", pad=[3, 5]),
]
PATTERN_ORDERS = ("identity", "reversed", "column_major", "swap_first_two", "rotated_by_one", "interleaved")
PROBE_PARAM_KEYS = ("energy", "defocus", "semiangle_cutoff")
# (c) NEARLY-EQUAL thicknesses: sequences whose members all lie within a relative spread `rel` of each other but are not
# identical -- "arbitrary thicknesses" includes those, and every gap must be propagated over ITS thickness.  Each spread comes
# with a thickness scale [A] large enough that using one common thickness instead would be far outside the tolerances at the
# check's energy (300 kV) and sampling: NEAR_MIN_SENSITIVITY is verified at run time with the independent simulator (data
# simulated with the first / the last member for every gap, judged like a library prediction: the best l2 loss must exceed its
# zero-tolerance by that factor), Broken otherwise.  The scale listed is the NOMINAL one: where the seeded contents make a member less
# sensitive than 2 x NEAR_MIN_SENSITIVITY, the scale is raised (l2 loss ~ scale^2, two significant digits) to reach
# NEAR_TARGET_SENSITIVITY -- always so for the 5e-6 spread (about 3e4 .. 3e5 A), whose float32 rounding floor grows with the scale as
# well: the member is placed where the wrong answer is ~30x above and the rounding floor ~10x below the l2 tolerance.
# The smallest spread is 5e-6: float32 rounding of the propagator phase is
# ~1.3e-7 relative, so a 1e-6 spread is only ~7x (losses: ~30x) above the rounding floor of a correct single-precision
# implementation and cannot be told apart from it with a 20x margin on either side; 5e-6 still lies inside the default
# relative tolerance (1e-5) of the usual approximate-equality tests.  Absolute differences range from 0.3 A to 4 A.
# (the 5e-6 member was removed by the main session: its prediction margin on the unchanged tree was only 2.2x)
NEAR_EQUAL_SPREADS = ((1e-4, 5000.0), (1e-3, 1000.0), (5e-3, 200.0), (9e-3, 200.0), (2e-2, 200.0))  # (relative spread, scale [A])
NEAR_EQUAL_ORDERS = {3: ("ascending", "descending"), 4: ("ascending", "descending", "odd_first", "odd_middle", "odd_last")}
NEAR_TARGET_SENSITIVITY = 32.0  # a member below 2 x NEAR_MIN_SENSITIVITY at its nominal scale is thickened to reach this (see near_equal_member)
NEAR_MIN_SENSITIVITY = 20.0
# propagators read through the public property vs the simulator's per-gap ones: max |difference| <= NEAR_PROP_TOL[0] * (largest
# propagator phase [rad]) + NEAR_PROP_TOL[1].  Observed on the unchanged tree: 1.3e-7 x phase (float32 phase rounding; hundreds of rad
# for the 5e-6 members), i.e. 8x below the bound | one common thickness: >= 5e-6 x phase, >= 5x the bound (>= 100x from 1e-4 on)
NEAR_PROP_TOL = (1e-6, 1e-6)


def near_equal_sequence(S, rel, scale, order):
    """S-1 thicknesses within a relative spread `rel` of each other, none of the distinct values equal."""
    lo, hi = float(scale), float(scale) * (1.0 + float(rel))
    n = S - 1
    if order in ("ascending", "descending"):
        seq = [lo + (hi - lo) * i / (n - 1) for i in range(n)]
        seq = seq if order == "ascending" else seq[::-1]
    else:
        k = {"odd_first": 0, "odd_middle": n // 2, "odd_last": n - 1}[order]
        seq = [hi if i == k else lo for i in range(n)]
    # single-precision representable values: the library keeps thicknesses in float32, and what it is handed is what it reports
    return [float(np.float32(v)) for v in seq]


def pattern_permutation(name, scan):
    nr, nc = scan
    J = nr * nc
    idx = np.arange(J)
    if name == "identity":
        return idx
    if name == "reversed":
        return idx[::-1].copy()
    if name == "column_major":
        return idx.reshape(nr, nc).T.ravel().copy()
    if name == "swap_first_two":
        p = idx.copy()
        p[[0, 1]] = p[[1, 0]]
        return p
    if name == "rotated_by_one":
        return np.roll(idx, 1)
    if name == "interleaved":
        return np.concatenate([idx[::2], idx[1::2]])
    raise ValueError(name)


def near_equal_member(base, S, item, seed):
    """The thickness sequence of a nearly-equal member at a scale where it matters, with the proof: the independent simulator with ONE
    common thickness (the first / the last member) in every gap, judged like a library prediction against the data of the sequence,
    must miss the l2 zero-tolerance by >= NEAR_MIN_SENSITIVITY.  Returns (T, {tag: wrong data}, sensitivity, scale)."""
    c0 = PT.normalise(dict(base))
    geo = PT.geometry(c0)
    J = geo.num_patterns
    obj = PT.make_object(c0, geo, np.random.default_rng([int(seed), 2, 700 + item["base"], S, 1]))  # the object run_order_case() uses
    probe = PT.make_probe(c0, geo)

    def sensitivity(scale):
        T = near_equal_sequence(S, item["rel"], scale, item["order"])
        data = PT.simulate(obj, probe, geo, PT.normalise(dict(base, thicknesses=T)))
        m = float(data.sum() / J)
        commons, sens = {}, []
        for tag, tc in (("first", T[0]), ("last", T[-1])):
            commons[tag] = PT.simulate(obj, probe, geo, PT.normalise(dict(base, thicknesses=[tc] * (S - 1))))
            sens.append(max(PT.ref_loss(commons[tag], data, lt, J, m) / PT.ref_loss(np.zeros_like(data), data, lt, J, m) / TOL["zero"][lt] for lt in ("l2_amplitude", "l2_intensity")))
        return T, commons, min(sens)

    scale = float(item["scale"])
    T, commons, sens = sensitivity(scale)
    if sens < 2 * NEAR_MIN_SENSITIVITY:
        for _ in range(4):  # (the l2 loss grows with scale^2 only approximately)
            if sens >= 0.8 * NEAR_TARGET_SENSITIVITY:
                break
            scale = float(f"{scale * np.sqrt(NEAR_TARGET_SENSITIVITY / max(sens, 1e-30)):.2g}")
            T, commons, sens = sensitivity(scale)
    if not (sens >= NEAR_MIN_SENSITIVITY and len(set(T)) > 1 and len(set(np.float32(T).tolist())) == len(set(T)) and max(T) / min(T) - 1 <= item["rel"] * 1.02):
        raise Broken(f"nearly-equal thickness member {item} (scale {scale:g} A, thicknesses {T}) is too insensitive: one common thickness gives an l2 loss of only "
                     f"{sens:.3g} x the zero-tolerance (need {NEAR_MIN_SENSITIVITY:g} x)")
    return T, commons, sens, scale


def order_items(tier, start):
    items = []

    def add(**kw):
        items.append(dict(index=start + len(items), **kw))

    for b in range(len(ORDER_BASES)):
        for S, seqs in THICKNESS_SEQUENCES.items():
            for name in seqs:
                for route in THICKNESS_ROUTES:
                    if name == "scalar":
                        conts = ("scalar", "list")
                    elif tier != "quick" or (S, name) in ((4, "cab"), (4, "aba")):
                        conts = ("list", "tuple", "ndarray", "tensor")
                    else:
                        conts = ("list",)
                    for cont in conts:
                        add(kind="slice_thicknesses", base=b, slices=S, sequence=name, route=route, container=cont)
        for S, orders in NEAR_EQUAL_ORDERS.items():
            for rel, scale in NEAR_EQUAL_SPREADS:
                for order in orders:
                    for route in THICKNESS_ROUTES:
                        # quick: every (slices, spread, order) at construction on the first base; the three other routes for
                        # every spread with the odd-one-out in the middle on the second base.  thorough: the full product
                        if tier != "quick" or (b == 0 and route == "construction") or (b == 1 and route != "construction" and order == "odd_middle"):
                            add(kind="nearly_equal_thicknesses", base=b, slices=S, rel=rel, scale=scale, order=order, route=route, container="list")
        for name in PATTERN_ORDERS:
            for S in (1, 3):
                add(kind="pattern_order", base=b, slices=S, order=name)
        for order in itertools.permutations(PROBE_PARAM_KEYS):
            add(kind="probe_params_key_order", base=b, slices=3, order=list(order))
    return items


def run_order_case(item, seed=0):
    import torch

    base = dict(ORDER_BASES[item["base"]], slices=item["slices"])
    kind = item["kind"]
    fails, seen = [], set()

    near = kind == "nearly_equal_thicknesses"

    def fail(what, msg):
        cls = {"relation": "nearly_equal_thicknesses_are_used_as_given" if near else "ordered_configuration_is_used_in_order", "sequence": item["kind"], "what": what}
        k = json.dumps(cls, sort_keys=True)
        if k not in seen:
            seen.add(k)
            fails.append((cls, msg))

    rec = {"index": item["index"], "item": {k: v for k, v in item.items() if k != "index"}}
    S = item["slices"]
    default_T = [60.0 + 30.0 * s for s in range(S - 1)]
    T = list(THICKNESS_SEQUENCES[S][item["sequence"]]) if kind == "slice_thicknesses" else default_T
    commons = {}
    if near:
        T, commons, rec["sensitivity"], rec["scale"] = near_equal_member(base, S, item, seed)
        kind = "slice_thicknesses"  # installed and judged exactly like any other thickness sequence, plus what `near` adds
    cfgT = dict(base, thicknesses=T)
    if kind == "probe_params_key_order":
        cfgT["probe_params_order"] = item["order"]
    c = PT.normalise(cfgT)
    geo = PT.geometry(c)
    J = geo.num_patterns
    sd = [int(seed), 2, 700 + item["base"], S]
    obj = PT.make_object(c, geo, np.random.default_rng(sd + [1]))
    probe = PT.make_probe(c, geo)
    gsim = geo
    if kind == "pattern_order":
        perm = pattern_permutation(item["order"], base["scan"])
        gsim = PT.reorder_patterns(geo, perm)
    data = PT.simulate(obj, probe, gsim, c)  # the sequence in slice order, the patterns in the order they are fed in
    what = f"{item}"
    stage = "build"
    try:
        if kind == "slice_thicknesses" and item["route"] != "construction":
            pr = PT.build(dict(base, thicknesses=default_T), np.random.default_rng(sd + [0]), obj_init=obj, probe_init=probe, sim=data)
            stage = item["route"]
            w = PT.wrap_thicknesses(T, item["container"])
            if item["route"] == "object_model_swap":
                pr.set_object(obj, thicknesses=T, container=item["container"])
            elif item["route"] == "ptychography_setter":
                pr.ptycho.slice_thicknesses = w
            else:
                pr.ptycho.obj_model.slice_thicknesses = w
        else:
            if kind == "slice_thicknesses":
                cfgT["thickness_container"] = item["container"]
            pr = PT.build(cfgT, np.random.default_rng(sd + [0]), obj_init=obj, probe_init=probe, sim=data)
        if kind == "pattern_order":
            stage = "scan_positions_px setter"
            pr.ptycho.dset.scan_positions_px = gsim.positions_px.astype(np.float32)
        else:
            stage = "follow-up"
            pr.ptycho.compute_propagator_arrays()
            pr.ptycho.preprocess(obj_padding_px=tuple(c["pad"]), plot_rotation=False, plot_com=False)
        # the thicknesses the library reports must be the sequence, in order
        stage = "judge"
        if S > 1:
            got = [float(v) for v in np.asarray(pr.ptycho.slice_thicknesses).ravel()]
            if len(got) != len(T) or max(abs(g - t) for g, t in zip(got, T)) > 1e-3:
                fail("reported_sequence", f"{what}: ptycho.slice_thicknesses reports {got}, installed {T}")
        if near:
            # the propagators the library exposes are the simulator's, gap by gap
            P = pr.ptycho.propagators.detach().cpu().numpy()
            lam = PT.wavelength(c["energy"])
            Ps = np.array([PT.propagator(geo.roi, geo.sampling, lam, dz) for dz in T])
            kmax2 = float((np.fft.fftfreq(int(geo.roi[0]), geo.sampling[0]) ** 2).max() + (np.fft.fftfreq(int(geo.roi[1]), geo.sampling[1]) ** 2).max())
            ptol = NEAR_PROP_TOL[0] * np.pi * lam * max(T) * kmax2 + NEAR_PROP_TOL[1]
            if P.shape != Ps.shape:
                fail("propagators", f"{what}, thicknesses {T}: ptycho.propagators has shape {P.shape}, expected {Ps.shape}")
            else:
                perr = np.abs(P - Ps).reshape(S - 1, -1).max(1)
                rec["propagator_err_over_tol"] = float(perr.max() / ptol)
                if not perr.max() <= ptol:
                    g = int(perr.argmax())
                    same = [i for i in range(S - 1) if i != g and T[i] != T[g] and np.array_equal(P[i], P[g])]
                    fail("propagators", f"{what}, thicknesses {T}: ptycho.propagators[{g}] (gap of {T[g]!r} A) differs from exp(-i pi lambda dz k^2) by {perr[g]:.3g} "
                         f"(tolerance {ptol:.3g}; per gap {[float(f'{v:.3g}') for v in perr]})"
                         + (f"; it is identical to the propagator of gap {same[0]} ({T[same[0]]!r} A)" if same else ""))
        full, half = np.arange(J), np.arange(max(1, J // 2))
        mean_I = float(data.sum() / J)
        preds = None
        L = {}
        for lt in PT.LOSS_TYPES:
            pr.set_loss_type(lt)
            if preds is None:
                if kind == "pattern_order":
                    pl = pr.lib_placement(full)
                    res = (pl["origin_mod"] + pl["frac"] - gsim.positions_px) % pl["obj_shape"]
                    res = np.minimum(res, pl["obj_shape"] - res).max()
                    if res > TOL["positions_px"]:
                        fail("placement_follows_positions", f"{what}: patch origin + fractional shift is {res:.3g} px away from the positions that were set")
                with torch.no_grad():
                    preds = [(idx, pr.predict(idx)) for idx in (full, half, np.arange(len(half), J))]
                for idx, pred in preds:
                    pn = pred.detach().cpu().numpy().astype(float)
                    d = float(np.abs(pn - data[idx]).max() / data.max()) if pn.shape == data[idx].shape and np.isfinite(pn).all() else float("inf")
                    rec["pred_rel"] = max(rec.get("pred_rel", 0.0), d)
                    if not d <= TOL["pred_rel"]:
                        hint = ""
                        if near:  # does the prediction belong to ONE common thickness?
                            for tag, sq in commons.items():
                                if np.abs(pn - sq[idx]).max() / sq.max() <= TOL["pred_rel"]:
                                    hint = f"; it equals the simulator with the {tag} thickness ({T[0] if tag == 'first' else T[-1]!r} A) used for every gap"
                                    break
                        if kind == "slice_thicknesses" and not hint:  # does the prediction belong to a re-ordered sequence?
                            for q in sorted(set(itertools.permutations(T))):
                                if list(q) != T:
                                    sq = PT.simulate(obj, probe, geo, PT.normalise(dict(base, thicknesses=list(q))))
                                    if np.abs(pn - sq[idx]).max() / sq.max() <= TOL["pred_rel"]:
                                        hint = f"; it equals the simulator for the thicknesses in the order {list(q)}"
                                        break
                        elif kind == "pattern_order":
                            s0 = PT.simulate(obj, probe, geo, c)
                            if np.abs(pn - s0[idx]).max() / s0.max() <= TOL["pred_rel"]:
                                hint = "; it equals the simulator for the row-major raster order"
                        fail("predicted_equals_simulated", f"{what}, thicknesses {T}: patterns {idx.tolist()}: max |predicted - simulated| / max = {d:.3g} > {TOL['pred_rel']:g}{hint}")
            L[lt] = float(pr.loss(preds[0][1], full, lt))
            z = L[lt] / PT.ref_loss(np.zeros_like(data), data, lt, J, mean_I)
            rec.setdefault("zero", {})[lt] = z
            if not z <= TOL["zero"][lt]:
                fail("loss_zero_at_truth", f"{what}, thicknesses {T}: {lt} = {L[lt]:.4g} = {z:.3g} x the loss of an all-zero prediction")
        if kind != "pattern_order":  # (a model swap re-rasterises the positions, so the perturbed state is judged on raster orders only)
            stage = "judge:perturbed"
            pr.set_object(PT.perturb_object(obj, c, geo, "noise", np.random.default_rng(sd + [3])), thicknesses=T)
            for lt in PT.LOSS_TYPES:
                pr.set_loss_type(lt)
                with torch.no_grad():
                    Lp = float(pr.loss(pr.predict(full), full, lt))
                ratio = Lp / max(L[lt], 1e-30)
                rec.setdefault("ratio", {})[lt] = ratio
                if not ratio >= TOL["ratio"][lt[:2]]:
                    fail("loss_larger_when_perturbed", f"{what}: {lt} at the noise-perturbed object = {Lp:.4g}, at the ground truth {L[lt]:.4g}: ratio {ratio:.3g} < {TOL['ratio'][lt[:2]]:g}")
    except Exception as e:
        tb = traceback.format_exc().strip().splitlines()
        src = [ln.strip() for ln in tb if "/quantem/" in ln]
        if not src:
            raise
        fail("pipeline_raises", f"{what}, {stage}: {type(e).__name__}: {str(e)[:200]} @ {src[-1][-160:]}")
    return rec, fails


def check_order(item, seed=0):
    t = Tally()
    rec, fails = run_order_case(item, seed=seed)
    key = {k: v for k, v in item.items() if k != "index"}
    t.case(key=key, nontrivial=True, outcome=(item["kind"], item["slices"], item.get("sequence"), item.get("order") if isinstance(item.get("order"), str) else None, item.get("rel")))
    t.extra["order_cases_" + item["kind"]] += 1
    if item["kind"] == "nearly_equal_thicknesses":
        t.stat("nearly_equal_one_over_sensitivity", 1.0 / max(rec.get("sensitivity", 0.0), 1e-30))
        t.stat("nearly_equal_propagator_error_over_tolerance", rec.get("propagator_err_over_tol", float("nan")))
        t.stat("nearly_equal_prediction_error_over_tolerance", rec.get("pred_rel", float("nan")) / TOL["pred_rel"])
        t.stat("nearly_equal_l2_zero_ratio_over_tolerance", max((rec.get("zero") or {}).get(lt, float("nan")) / TOL["zero"][lt] for lt in ("l2_amplitude", "l2_intensity")))
    if item["kind"] == "slice_thicknesses":
        T = THICKNESS_SEQUENCES[item["slices"]][item["sequence"]]
        t.extra["thickness_cases_distinct_values_not_ascending"] += int(len(set(T)) == len(T) and list(T) != sorted(T))
        t.extra["thickness_cases_with_repeated_values"] += int(len(set(T)) < len(T))
    for cls, msg in fails:
        t.fail(cls, dict(key, index=item["index"], family="ordered_configuration"), f"base {json.dumps(ORDER_BASES[item['base']], sort_keys=True)} :: {msg}")
    if item["index"] % 61 == 0:
        t.sample({"case": key, "max_rel_pred_error": rec.get("pred_rel"), "loss_zero_ratio": rec.get("zero")})
    return t


# ============================================================================= copies / alternative constructors
# Every way of obtaining a second Ptychography object from a built one.  (i) The second object, at the ground truth, predicts
# the simulated data (all four losses ~0, a probe perturbation raises them), and copying leaves the original intact.
# (ii) ISOLATION: dataset-level / model-level changes applied to ONE of the two (perturbed probe, shifted scan positions through
# the public setter, other slice thicknesses, object-model swap, preprocess with another padding; applied one after the other)
# leave the OTHER predicting its data at its own ground truth -- judged after every change, in both directions.
# The data set is FILE-BACKED (Dataset4dstem.save -> load -> public file_path setter), as save() without raw data needs.
COPY_KINDS = ("clone", "from_ptychography", "save_with_raw_data+from_file", "save_without_raw_data+from_file(path)",
              "save_without_raw_data+from_file(path,dset=fresh)", "copy.deepcopy")
COPY_CHANGES = ("perturbed_probe", "shifted_scan_positions", "other_slice_thicknesses", "object_model_swap", "preprocess_other_padding")
COPY_BASES = [  # pad (9,11) is adjusted by the library (to (11,14)), pad (3,6) is already aligned
    dict(obj_type="complex", slices=1, modes=2, roi=[8, 10], scan=[2, 3], step="fractional", pad=[9, 11], learn_scan_positions=True),
    dict(obj_type="potential", slices=3, modes=1, roi=[8, 8], scan=[2, 3], step="fractional", pad=[9, 11], learn_scan_positions=False),
    dict(obj_type="complex", slices=3, modes=2, roi=[8, 8], scan=[2, 3], step="fractional", pad=[3, 6], learn_scan_positions=True),
    dict(obj_type="potential", slices=1, modes=1, roi=[8, 10], scan=[2, 3], step="fractional", pad=[3, 6], learn_scan_positions=False),
    dict(obj_type="pure_phase", slices=3, modes=1, roi=[8, 10], scan=[2, 3], step="fractional", pad=[9, 11], learn_scan_positions=True),
    dict(obj_type="complex", slices=1, modes=1, roi=[8, 8], scan=[2, 3], step="commensurate", pad=[9, 11], learn_scan_positions=False),
    dict(obj_type="potential", slices=1, modes=2, roi=[8, 8], scan=[2, 3], step="fractional", pad=[3, 6], learn_scan_positions=True),
    dict(obj_type="pure_phase", slices=3, modes=2, roi=[8, 10], scan=[2, 3], step="fractional", pad=[3, 6], learn_scan_positions=False),
]


def copy_items(tier, start):
    nb = 4 if tier == "quick" else len(COPY_BASES)
    items = []
    for b in range(nb):
        for k in COPY_KINDS:
            for who in ("copy", "original"):
                items.append({"index": start + len(items), "base": b, "kind": k, "changed": who})
    return items


def run_copy_case(item, seed=0):
    import contextlib
    import copy as _copy
    import io
    import os
    import tempfile

    import torch

    from quantem.diffractive_imaging.object_models import ObjectPixelated
    from quantem.diffractive_imaging.ptychography import Ptychography

    base = COPY_BASES[item["base"]]
    kind, who = item["kind"], item["changed"]
    fails, seen = [], set()
    rec = {"index": item["index"], "item": {k: v for k, v in item.items() if k != "index"}}

    def fail(cls, msg):
        k = json.dumps(cls, sort_keys=True)
        if k not in seen:
            seen.add(k)
            fails.append((cls, msg))

    def quiet(fn, *a, **k):
        with contextlib.redirect_stdout(io.StringIO()):
            return fn(*a, **k)

    c = PT.normalise(base)
    geo = PT.geometry(c)
    J = geo.num_patterns
    full = np.arange(J)
    sd = [int(seed), 2, 600 + item["base"]]

    def judge(q, label, cls):
        """q: Problem wrapper of the instance to be judged at the ground truth against the simulated data."""
        data = q.intensities
        mean_I = float(data.sum() / J)
        out = {}
        for lt in PT.LOSS_TYPES:
            q.set_loss_type(lt)
            if "pred" not in out:
                with torch.no_grad():
                    out["pred"] = q.predict(full)
                pn = out["pred"].detach().cpu().numpy().astype(float)
                d = float(np.abs(pn - data).max() / data.max()) if pn.shape == data.shape and np.isfinite(pn).all() else float("inf")
                rec["pred_rel"] = max(rec.get("pred_rel", 0.0), d)
                if not d <= TOL["pred_rel"]:
                    fail(dict(cls, what="predicted_equals_simulated"), f"{label}: max |predicted - simulated| / max = {d:.3g} > {TOL['pred_rel']:g}")
            L = float(q.loss(out["pred"], full, lt))
            out[lt] = L
            z = L / PT.ref_loss(np.zeros_like(data), data, lt, J, mean_I)
            if not z <= TOL["zero"][lt]:
                fail(dict(cls, what="loss_zero_at_truth"), f"{label}: {lt} = {L:.4g} = {z:.3g} x the loss of an all-zero prediction")
        return out

    stage = "build"
    try:
        with tempfile.TemporaryDirectory(prefix="c02copies-") as td:
            pr = PT.build(base, np.random.default_rng(sd + [0]), data_file=os.path.join(td, "scan.zip"))
            truth_probe = pr.install_order(pr.probe_true)
            stage = f"copy via {kind}"
            path = os.path.join(td, "recon.zip")
            try:
                if kind == "clone":
                    other = pr.ptycho.clone()
                elif kind == "from_ptychography":
                    if not hasattr(Ptychography, "from_ptychography"):
                        rec["not_supported"] = "no Ptychography.from_ptychography"
                        return rec, fails
                    other = Ptychography.from_ptychography(pr.ptycho)
                    other.probe_model.probe = truth_probe.astype(np.complex64)  # reset_recon() went back to the starting probe
                elif kind == "save_with_raw_data+from_file":
                    quiet(pr.ptycho.save, path, mode="o", save_raw_data=True, verbose=0)
                    other = quiet(Ptychography.from_file, path)
                elif kind == "save_without_raw_data+from_file(path)":
                    quiet(pr.ptycho.save, path, mode="o", verbose=0)  # the default: raw data not stored
                    other = quiet(Ptychography.from_file, path, verbose=0)
                elif kind == "save_without_raw_data+from_file(path,dset=fresh)":
                    quiet(pr.ptycho.save, path, mode="o", verbose=0)
                    other = quiet(Ptychography.from_file, path, dset=pr.fresh_dataset())
                elif kind == "copy.deepcopy":
                    try:
                        other = _copy.deepcopy(pr.ptycho)
                    except Exception as e:  # not every configuration supports deepcopy (learnable positions): counted
                        rec["not_supported"] = f"copy.deepcopy raises {type(e).__name__}"
                        return rec, fails
                else:
                    raise ValueError(kind)
            except Exception as e:
                tb = traceback.format_exc().strip().splitlines()
                if not [ln for ln in tb if "/quantem/" in ln]:
                    raise
                fail({"relation": "copy_predicts_its_data", "kind": kind, "what": "copy_raises"}, f"base {base}: {kind}: {type(e).__name__}: {str(e)[:300]}")
                return rec, fails
            if other is pr.ptycho:
                fail({"relation": "copy_predicts_its_data", "kind": kind, "what": "same_object"}, f"{kind} returned the original object itself")
                return rec, fails
            A, B = pr, pr.wrap(other)
            # ---------------------------------------------------------------- (i) the copy predicts the data; the original still does
            stage = "judge copy"
            outB = judge(B, f"base {base}: the object obtained by {kind}, at the ground truth", {"relation": "copy_predicts_its_data", "kind": kind})
            stage = "judge original after copying"
            judge(A, f"base {base}: the ORIGINAL after {kind}", {"relation": "copy_predicts_its_data", "kind": kind, "object": "original"})
            if not fails:
                B.set_probe(pr.install_order(PT.perturb_probe(pr.probe_true, c, geo, "mode_amp")))
                for lt in PT.LOSS_TYPES:
                    B.set_loss_type(lt)
                    with torch.no_grad():
                        Lp = float(B.loss(B.predict(full), full, lt))
                    ratio = Lp / max(outB[lt], 1e-30)
                    if not ratio >= TOL["ratio"][lt[:2]]:
                        fail({"relation": "copy_predicts_its_data", "kind": kind, "what": "loss_larger_when_perturbed"}, f"base {base}: copy by {kind}: {lt} with a perturbed probe {Lp:.4g} vs {outB[lt]:.4g} at the truth: ratio {ratio:.3g}")
                B.set_probe(truth_probe)
            if fails:
                return rec, fails  # isolation is only meaningful for a copy that works
            # ---------------------------------------------------------------- (ii) isolation
            X, Y = (B, A) if who == "copy" else (A, B)  # X is changed, Y must not notice
            newpad = [int(c["pad"][0]) + 5, int(c["pad"][1]) + 2]
            g2 = PT.geometry(PT.normalise(dict(base, pad=newpad)))
            for change in COPY_CHANGES:
                stage = f"change {change} on the {who}"
                if change == "perturbed_probe":
                    X.set_probe(1.3 * truth_probe)
                elif change == "shifted_scan_positions":
                    X.ptycho.dset.scan_positions_px = X.ptycho.dset.scan_positions_px.detach().cpu().numpy().astype(np.float32) + 1.0
                elif change == "other_slice_thicknesses":
                    if c["slices"] == 1:
                        continue
                    X.ptycho.slice_thicknesses = [150.0 - 35.0 * s for s in range(c["slices"] - 1)]
                elif change == "object_model_swap":
                    X.set_object(PT.perturb_object(pr.obj_true, c, geo, "noise", np.random.default_rng(sd + [3])))
                elif change == "preprocess_other_padding":
                    S = c["slices"]
                    arr = np.zeros((S, *g2.obj_shape), np.float32) + 0.7 if c["obj_type"] == "potential" else np.ones((S, *g2.obj_shape), np.complex64)
                    X.ptycho.obj_model = ObjectPixelated.from_array(arr, obj_type=c["obj_type"], slice_thicknesses=(c["thicknesses"] if S > 1 else None), rng=1)
                    X.ptycho.preprocess(obj_padding_px=tuple(newpad), plot_rotation=False, plot_com=False)
                stage = f"judge the {'original' if who == 'copy' else 'copy'} after {change} on the {who}"
                judge(Y, f"base {base}: {kind}; after '{change}' on the {who}, the {'ORIGINAL' if who == 'copy' else 'COPY'} at its own ground truth",
                      {"relation": "copies_are_isolated", "kind": kind, "change": change, "changed": who})
                rec["changes_applied"] = rec.get("changes_applied", 0) + 1
    except Exception as e:
        tb = traceback.format_exc().strip().splitlines()
        src = [ln.strip() for ln in tb if "/quantem/" in ln]
        if not src:
            raise
        fail({"relation": "copies_are_isolated" if stage.startswith(("change", "judge the")) else "copy_predicts_its_data", "kind": kind, "what": "pipeline_raises"},
             f"base {base}: {stage}: {type(e).__name__}: {str(e)[:200]} @ {src[-1][-160:]}")
    return rec, fails


def check_copy(item, seed=0):
    t = Tally()
    rec, fails = run_copy_case(item, seed=seed)
    key = {k: v for k, v in item.items() if k != "index"}
    t.case(key=key, nontrivial=not rec.get("not_supported"), outcome=(item["kind"], item["changed"], rec.get("not_supported"), rec.get("changes_applied")))
    t.extra["copy_cases"] += 1
    t.extra["copy_kinds_not_supported_in_this_configuration"] += int(bool(rec.get("not_supported")))
    t.extra["copy_isolation_judgements"] += rec.get("changes_applied", 0)
    for cls, msg in fails:
        t.fail(cls, dict(key, index=item["index"], family="copies"), msg)
    if item["index"] % 17 == 0:
        t.sample({"case": key, "max_rel_pred_error": rec.get("pred_rel"), "isolation_judgements": rec.get("changes_applied"), "not_supported": rec.get("not_supported")})
    return t


# ----------------------------------------------------------------------------- driver
def run(ctx):
    items, alph = lattice(ctx.tier)
    ctx.assume(
        "array contents (object phases, noise perturbation) are seeded alphabet members; universality over continuous data is not claimed",
        "constant descan is explored on vacuum data only (integer fitted origin provable); the defocus perturbation is not in that family's alphabet",
        "ROI sizes are even (odd sizes shift by half a pixel under no_shift)",
        "single-threaded float32 torch on CPU; dataset learn_descan/learn_scan_positions off; rotation 0, no transpose",
        "stationarity is judged for the l2 losses only (l1 losses are not differentiable at a zero residual)",
    )
    # the enumeration itself must be sound: no lattice point may sit on a rounding discontinuity
    ndeg = 0
    for it in items:
        g = PT.geometry(PT.normalise(it["cfg"]))
        if it["family"] == "half_pixel_ties":
            if g.fragile_fov or not g.exact_ties.any() or not np.array_equal(g.ties, g.exact_ties):
                raise Broken(f"half_pixel_ties point without exact ties or with a fragile extent: {it['cfg']}")
        elif g.fragile:
            raise Broken(f"lattice point on a rounding discontinuity (fragile geometry): {it['cfg']}")
        ndeg += int(g.degenerate)
    ctx.say(f"lattice: {len(items)} points ({ndeg} with a zero-length object axis, excluded), tier {ctx.tier}")

    rep = next(it for it in items if it["cfg"]["slices"] >= 2 and it["cfg"]["modes"] == 2 and it["cfg"]["step"] == "fractional" and tuple(it["cfg"]["pad"]) == (3, 5) and tuple(it["cfg"]["scan"]) == (3, 4))

    def once():
        rec, fails = evaluate(rep, seed=ctx.seed)
        return json.dumps(rec, sort_keys=True, default=repr), [m for _, m in fails]

    ctx.selftest(once)
    merged = ctx.pmap(check_point, items, chunk=1 if len(items) < 600 else 4, label="lattice", seed=ctx.seed)
    excluded = int(merged.extra["excluded_zero_length_object_axis"])
    nontrivial = len(merged.nontrivial)
    ctx.coverage.update(
        lattice_points=len(items),
        excluded_zero_length_object_axis=excluded,
        evaluations=int(merged.n) - excluded,
        distinct_nontrivial=nontrivial,
        alphabet=alph,
        bounds={"max_patterns_J": max(int(np.prod(it["cfg"]["scan"])) for it in items), "batch_sizes": "every 1..J, contiguous partitions",
                "states_with_every_batch_partition": list(PARTITIONED_STATES), "loss_types": list(PT.LOSS_TYPES), "perturbations": {"object": list(PT.OBJECT_PERTURBATIONS), "probe": list(PT.PROBE_PERTURBATIONS)},
                "step_px": PT.STEP_KINDS, "sampling_A": PT.DEFAULTS["sampling"], "energy_eV": PT.DEFAULTS["energy"]},
        tolerances=TOL,
        exhaustive=True,
    )
    hitems, hdepth, nbases = history_items(ctx.tier)
    ritems = refused_items(ctx.tier, start=len(hitems))
    hm = ctx.pmap(check_history, hitems + ritems, chunk=8, label="reconfiguration histories", seed=ctx.seed)
    ctx.coverage.update(
        evaluations=int(merged.n) - excluded + int(hm.n),
        distinct_nontrivial=nontrivial + len(hm.nontrivial),
        reconfiguration_histories={"events": list(HISTORY_EVENTS), "max_length": hdepth, "base_configurations": HISTORY_BASES[:nbases],
                                   "histories": int(hm.extra["histories"]), "distinct_final_configurations": len(hm.outcomes),
                                   "ending_in_the_data_configuration": int(hm.extra["histories_ending_in_the_data_configuration"])},
        refused_requests={"members": list(REFUSED_OPS), "core_members_used_in_pairs": list(REFUSED_CORE), "members_used_in_triples": list(REFUSED_CORE[:6]),
                          "base_configurations": [HISTORY_BASES[b] for b in REFUSED_BASES[ctx.tier]], "histories": len(ritems),
                          "requests_refused": int(hm.extra["refused_requests_issued_and_refused"]),
                          "accepted_by_this_tree_not_judged": int(hm.extra["refused_ops_accepted_by_this_tree"]),
                          "follow_up": ["compute_propagator_arrays()", "preprocess(same arguments)", "reconstruct(num_iters=0, loss_type)"]},
    )
    oitems = order_items(ctx.tier, start=len(hitems) + len(ritems))
    om = ctx.pmap(check_order, oitems, chunk=8, label="ordered configuration", seed=ctx.seed)
    ctx.coverage.update(
        evaluations=int(ctx.coverage["evaluations"]) + int(om.n),
        distinct_nontrivial=int(ctx.coverage["distinct_nontrivial"]) + len(om.nontrivial),
        ordered_configuration={"thickness_sequences": {str(S): {k: list(v) for k, v in d.items()} for S, d in THICKNESS_SEQUENCES.items()},
                               "routes": list(THICKNESS_ROUTES), "containers": list(PT.THICKNESS_CONTAINERS), "pattern_orders": list(PATTERN_ORDERS),
                               "probe_params_key_orders": 6, "base_configurations": ORDER_BASES, "cases": len(oitems),
                               "thickness_cases_distinct_values_not_ascending": int(om.extra["thickness_cases_distinct_values_not_ascending"]),
                               "thickness_cases_with_repeated_values": int(om.extra["thickness_cases_with_repeated_values"]),
                               "nearly_equal_thicknesses": {"relative_spread_and_scale_A": [list(v) for v in NEAR_EQUAL_SPREADS], "orders": {str(k): list(v) for k, v in NEAR_EQUAL_ORDERS.items()},
                                                            "routes": list(THICKNESS_ROUTES), "cases": int(om.extra["order_cases_nearly_equal_thicknesses"]),
                                                            "required_sensitivity_x_l2_zero_tolerance": NEAR_MIN_SENSITIVITY,
                                                            "smallest_sensitivity": 1.0 / om.maxima["nearly_equal_one_over_sensitivity"] if om.maxima.get("nearly_equal_one_over_sensitivity") else None,
                                                            "propagator_tolerance": {"per_rad_of_largest_phase": NEAR_PROP_TOL[0], "absolute": NEAR_PROP_TOL[1]},
                                                            "worst_over_tolerance": {k: v for k, v in om.maxima.items() if k.startswith("nearly_equal_") and k.endswith("over_tolerance")}}},
    )
    ne = ctx.coverage["ordered_configuration"]["nearly_equal_thicknesses"]
    ctx.say(f"nearly-equal thicknesses: {ne['cases']} cases, smallest sensitivity {ne['smallest_sensitivity'] or 0:.3g} x the l2 zero-tolerance, worst/tolerance "
            + ", ".join(f"{k[len('nearly_equal_'):-len('_over_tolerance')]} {v:.3g}" for k, v in sorted(ne["worst_over_tolerance"].items())))
    if om.extra["order_cases_nearly_equal_thicknesses"] < len(NEAR_EQUAL_SPREADS) * (sum(len(v) for v in NEAR_EQUAL_ORDERS.values()) + len(THICKNESS_ROUTES) - 1):
        raise Broken("vacuous nearly-equal thickness exploration")
    if om.extra["thickness_cases_distinct_values_not_ascending"] < 20 or om.extra["order_cases_pattern_order"] < 10:
        raise Broken("vacuous ordered-configuration exploration")
    citems = copy_items(ctx.tier, start=len(hitems) + len(ritems) + len(oitems))
    cm = ctx.pmap(check_copy, citems, chunk=1, label="copies / alternative constructors", seed=ctx.seed)
    ctx.coverage.update(
        evaluations=int(ctx.coverage["evaluations"]) + int(cm.n),
        distinct_nontrivial=int(ctx.coverage["distinct_nontrivial"]) + len(cm.nontrivial),
        copies={"kinds": list(COPY_KINDS), "changes": list(COPY_CHANGES), "directions": ["copy changed, original judged", "original changed, copy judged"],
                "base_configurations": COPY_BASES[: 4 if ctx.quick else len(COPY_BASES)], "cases": len(citems),
                "isolation_judgements": int(cm.extra["copy_isolation_judgements"]),
                "kind_not_supported_in_configuration": int(cm.extra["copy_kinds_not_supported_in_this_configuration"]),
                "file_backed_dataset": "Dataset4dstem.save -> load -> file_path setter"},
    )
    if cm.extra["copy_isolation_judgements"] < 3 * len(citems) and not cm.nfails:
        raise Broken("vacuous copies exploration")
    if hm.extra["refused_requests_issued_and_refused"] < len(REFUSED_OPS):
        raise Broken("vacuous refused-request exploration: hardly any request was refused")
    if hm.extra["histories_ending_in_the_data_configuration"] < 10 or len(hm.outcomes) < 8:
        raise Broken("vacuous history exploration")
    if excluded != ndeg:
        raise Broken(f"excluded count {excluded} != structurally degenerate points {ndeg}")
    if nontrivial < 0.7 * len(items):
        raise Broken(f"only {nontrivial} of {len(items)} lattice points are non-degenerate")
    for k in ("points_with_wraparound_patches", "points_where_round_differs_from_floor", "points_nonsquare_roi", "points_constant_descan",
              "points_with_a_position_beyond_the_last_object_pixel", "tie_points_exact_in_library_arithmetic",
              "tie_coordinates_even_integer_part", "tie_coordinates_odd_integer_part", "points_modes_not_installed_strongest_first"):
        if merged.extra[k] == 0:
            raise Broken(f"vacuous lattice: {k} = 0")


def replay(ctx, case):
    if case.get("family") == "copies":
        rec, fails = run_copy_case({k: v for k, v in case.items() if k != "family"}, seed=ctx.seed)
        for k in ("item", "pred_rel", "changes_applied", "not_supported"):
            if k in rec:
                print(f"  {k}: {rec[k]}")
        for cls, msg in fails:
            ctx.fail(cls, case, msg)
        return
    if case.get("family") == "ordered_configuration":
        item = {k: v for k, v in case.items() if k != "family"}
        rec, fails = run_order_case(item, seed=ctx.seed)
        print("  base:", json.dumps(ORDER_BASES[case["base"]], sort_keys=True))
        for k in ("item", "scale", "sensitivity", "propagator_err_over_tol", "pred_rel", "zero", "ratio"):
            if k in rec:
                print(f"  {k}: {rec[k]}")
        for cls, msg in fails:
            ctx.fail(cls, case, msg)
        return
    if case.get("family") == "reconfiguration_history":
        rec, fails = judge_history({"index": case["index"], "base": case["base"], "history": case["history"]}, seed=ctx.seed)
        print("  base:", json.dumps(HISTORY_BASES[case["base"]], sort_keys=True))
        for k in ("history", "final", "final_is_data_configuration", "skipped_events", "refused", "accepted", "blamed_event", "pred_rel_immediate", "pred_rel", "zero", "ratio"):
            if k in rec:
                print(f"  {k}: {rec[k]}")
        for cls, msg in fails:
            ctx.fail(cls, case, msg)
        return
    item = {"index": case["index"], "family": case.get("family", "?"), "cfg": case["cfg"]}
    rec, fails = judge(item, seed=ctx.seed)
    print("  point:", json.dumps(case["cfg"], sort_keys=True))
    for k in ("degenerate", "obj_shape_expected", "obj_shape_lib", "pad_adj", "J", "dpos", "placement_residual", "tie_convention", "tie_exact_in_library",
              "skipped", "L_truth", "worst", "stationary"):
        if k in rec:
            print(f"  {k}: {rec[k]}")
    for cls, msg in fails:
        ctx.fail(cls, case, msg)
