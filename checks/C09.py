"""C09 — mini-batch scheduling: exact partition, batch invariance, seeded determinism.

Shape S (schedules). The only schedule-like nondeterminism on this path is how the set of diffraction
patterns is cut into batches and in what order they are visited. The harness owns it completely:
every batch size, every validation ratio of a grid, both split modes, and — through a
numpy.random.Generator subclass whose permutation() returns a prescribed order, passed in through the
public rng= argument — EVERY shuffle order for small pattern counts.

 (a) SimpleBatcher / generate_batches / subdivide_batches: exact set algebra for every
     (n, batch size, validation ratio, split mode, shuffle) and every permutation for n <= 5 (6 thorough).
 (b) On a tiny real ptychography problem (built by checks/_ptycho.py): for J = 4 patterns all 24 shuffle
     orders x every divisor batch size x all four loss types — mean of per-batch losses and gradients
     (object and probe) == full-batch loss and gradient, and the loss recorded by the real reconstruct()
     loop (learning rate 0) == full-batch loss; J = 12: every divisor x a family of orders.
 (c) Determinism: equal seeds -> bit-identical loss histories; reconstruct(reset=True) repeats the
     history after EVERY history of continue/reset calls up to depth 2 (3 thorough); different seeds differ
     (vacuity guard for the shuffle actually mattering).
"""
from __future__ import annotations

import copy
import itertools
import os
import math
import warnings

import numpy as np

from mc.harness import Broken, Tally

LEVEL = "exploration"
TECHNIQUE = "exhaustive schedule enumeration: every batch size x validation ratio x split mode and, through an owned numpy Generator, every shuffle order (all permutations for small n), on the real batcher and the real reconstruction loop"
CLAIM = (
    "Every (pattern count n <= 40/120, batch size 1..n+2 and None, validation ratio on a 0.05/0.01 grid, grid/random split, shuffle on/off) "
    "and every permutation for n <= 5/6 is executed on the real SimpleBatcher: each training index is yielded exactly once per epoch, "
    "training and validation are disjoint and cover all patterns, len() and val_len() equal the number of batches yielded. On a real tiny "
    "ptychography problem, for every one of the 24 visiting orders of 4 patterns (and a family of orders for 12) and every divisor batch "
    "size, the mean of per-batch losses and gradients equals the full-batch values for all four loss types, also through the real "
    "reconstruct() loop, also with a grid or random validation split (epoch loss == loss over the training set, validation loss == loss over the validation set); equal seeds give bit-identical loss histories, a reset run repeats the fresh history after EVERY history of continue/reset calls up to depth 2/3 (with and without validation), different seeds differ."
    ' Further enumerated dimensions: the seed in every documented spelling (int, numpy Generator incl. MT19937 / Philox, torch Generator, magnitudes beyond 2**64) with and without reset=True in the first run, one Generator object held by two reconstructions and the caller (every interleaving of their continued runs), calls that are no reconstruction steps (to, save, device=) inserted at every position of a continued run, and two epochs in flight on one batcher (nested loops, zip).'
    " Progress and settings dimensions: 12 epochs on one batcher, one 12-epoch call with learning rate 0, resets after runs that cross ten iterations, and runs whose settings change across a reset (learnable dataset on / off, schedulers whose constants depend on the iteration horizon; keyword arguments re-passed, omitted so that the stored ones are reused, or all named explicitly and compared with the same call on a fresh object)."
)
NOTE = (
    "Trusted: the Generator subclass really is what the library draws its orders from (checked: the yielded order equals the prescribed "
    "one in every case); float32 forward model, tolerance 2e-5 relative (observed 3e-7); the tiny problems of checks/_ptycho.py; "
    "n above the bound and more than 12 patterns in the reconstruction part are not explored."
)
RULE = (
    "Cartesian product n x batch size x validation ratio x split mode x shuffle (+ all permutations for small n); reconstruction part: "
    "order x divisor batch size x loss type. Non-trivial = the batch size actually splits the training set (more than one batch) or a "
    "validation set exists; distinct = distinct descriptors."
)

TOL = 2e-5  # relative; float32 forward model. Observed worst 3e-7 (loss) / 6e-7 (gradients); smallest mutant effect 1e-1


class OwnedGenerator(np.random.Generator):
    """A numpy Generator whose permutation() returns prescribed orders (cycling through `orders`)."""

    def __init__(self, orders):
        super().__init__(np.random.PCG64(0))
        self._orders = [list(o) for o in orders]
        self.calls = []

    def permutation(self, x, axis=0):
        x = np.asarray(x) if not isinstance(x, (int, np.integer)) else np.arange(int(x))
        cands = [o for o in self._orders if len(o) == len(x)]
        if not cands:
            raise Broken(f"owned generator asked for a permutation of length {len(x)}, none prescribed")
        k = sum(1 for c in self.calls if c == len(x))
        order = cands[k % len(cands)]
        self.calls.append(len(x))
        return x[np.asarray(order, dtype=int)] if len(x) else x

    # the other spellings of "draw an order" that numpy offers: the same prescribed orders, applied in place / to a copy
    def shuffle(self, x, axis=0):
        x[...] = self.permutation(np.array(x))

    def permuted(self, x, axis=None, out=None):
        res = self.permutation(np.array(x))
        if out is not None:
            out[...] = res
            return out
        return res


def _batcher():
    from quantem.diffractive_imaging.ptycho_utils import SimpleBatcher

    return SimpleBatcher


def check_batcher(t, n, bs, ratio, mode, shuffle, rng, prescribed=None, epochs=2):
    """Run the real SimpleBatcher for `epochs` epochs and check the set algebra."""
    SB = _batcher()
    case = {"part": "batcher", "n": n, "batch_size": bs, "val_ratio": ratio, "val_mode": mode, "shuffle": shuffle, "orders": prescribed}
    b = SB(n, bs, shuffle=shuffle, rng=rng, val_ratio=ratio, val_mode=mode)
    train = np.asarray(b.train_indices).tolist()
    val = np.asarray(b.val_indices).tolist()
    eff = n if bs is None else bs
    fails = []
    if sorted(train + val) != list(range(n)):
        fails.append(("train_val_cover_all", f"train {train} + val {val} is not a partition of range({n})"))
    if set(train) & set(val):
        fails.append(("train_val_disjoint", f"train {train} and val {val} overlap"))
    nb = None
    for ep in range(epochs):
        batches = [np.asarray(x).tolist() for x in b]
        flat = [i for x in batches for i in x]
        nb = len(batches)
        if sorted(flat) != sorted(train) or len(set(flat)) != len(flat):
            fails.append(("each_training_index_exactly_once", f"epoch {ep}: yielded {batches}, training set {train}"))
        if len(b) != len(batches):
            fails.append(("len_equals_batches_yielded", f"len(batcher) = {len(b)} but {len(batches)} batches were yielded (n_train={len(train)}, batch_size={eff})"))
        if any(len(x) > eff for x in batches) or any(len(x) != eff for x in batches[:-1]) or any(len(x) == 0 for x in batches):
            fails.append(("batch_sizes", f"epoch {ep}: batch lengths {[len(x) for x in batches]} for batch_size {eff}"))
        if prescribed is not None and shuffle and len(train) > 0:
            want = [train[i] for i in prescribed["epoch"][ep % len(prescribed["epoch"])]]
            if flat != want:
                raise Broken(f"the library did not draw its order from the owned Generator: yielded {flat}, prescribed {want}")
        if not shuffle and flat != train:
            fails.append(("no_shuffle_keeps_order", f"shuffle=False but order {flat} != {train}"))
    # two epochs in flight on ONE batcher object (a nested loop, zip(b, b), an epoch started from a callback): each
    # epoch on its own must still visit every training index exactly once. Batches are copied when they are yielded.
    if len(train) > 0:
        for pause in sorted({1, max(1, (nb or 1) // 2), nb or 1}):
            outer, it = [], iter(b)
            inner = None
            for k, x in enumerate(it, 1):
                outer.append(np.array(x).tolist())
                if k == pause:
                    inner = [np.array(y).tolist() for y in b]
                    if pause % 2 == 0:
                        inner2 = [np.array(y).tolist() for y in b.iter_val()]
            of, inf = [i for x in outer for i in x], [i for x in (inner or []) for i in x]
            if sorted(of) != sorted(train) or (inner is not None and sorted(inf) != sorted(train)):
                fails.append(("each_training_index_exactly_once_with_overlapping_epochs", f"an epoch started after batch {pause} of a running epoch: outer epoch yielded {outer}, inner epoch {inner}, training set {train}"))
                break
        pairs = [(np.array(x).tolist(), np.array(y).tolist()) for x, y in zip(b, b)]
        za, zb = [i for x, _ in pairs for i in x], [i for _, y in pairs for i in y]
        if sorted(za) != sorted(train) or sorted(zb) != sorted(train):
            fails.append(("each_training_index_exactly_once_with_overlapping_epochs", f"zip(b, b): first epoch {[x for x, _ in pairs]}, second epoch {[y for _, y in pairs]}, training set {train}"))
    vb = [np.asarray(x).tolist() for x in b.iter_val()]
    vflat = [i for x in vb for i in x]
    if sorted(vflat) != sorted(val) or len(set(vflat)) != len(vflat):
        fails.append(("each_validation_index_exactly_once", f"validation batches {vb}, validation set {val}"))
    if b.val_len() != len(vb):
        fails.append(("val_len_equals_batches_yielded", f"val_len() = {b.val_len()} but {len(vb)} validation batches were yielded"))
    if bool(b.has_validation) != (len(val) > 0):
        fails.append(("has_validation", f"has_validation={b.has_validation} with validation set {val}"))
    nontrivial = (nb is not None and nb > 1) or len(val) > 0
    t.case(key=[n, bs, ratio, mode, shuffle, prescribed], nontrivial=nontrivial, outcome=[len(train), len(val), nb, len(vb)])
    for rel, msg in fails:
        t.fail({"relation": rel, "part": "batcher", "val_mode": mode if len(val) else "none"}, case, f"SimpleBatcher(n={n}, batch_size={bs}, val_ratio={ratio}, val_mode={mode}, shuffle={shuffle}): {msg}")


def w_batcher(item, seed=0, ratios=()):
    n = item
    t = Tally()
    for bs in list(range(1, n + 3)) + [None]:
        for ratio in ratios:
            for mode in ("grid", "random"):
                if ratio == 0 and mode == "random":
                    continue
                for shuffle in (False, True):
                    # progress-dependent behaviour: 12 epochs on one batcher for the extreme and two middle batch sizes
                    ep = 12 if bs in (1, 3, 7, n, None) else 2
                    check_batcher(t, n, bs, ratio, mode, shuffle, rng=np.random.default_rng([seed, 9, n]), epochs=ep)
    # generate_batches / subdivide_batches
    from quantem.core.utils.utils import generate_batches, subdivide_batches

    for mb in range(1, n + 3):
        r = list(generate_batches(n, max_batch=mb))
        cover = [i for s, e in r for i in range(s, e)]
        sizes = subdivide_batches(n, max_batch=mb)
        t.case(key=["gen", n, mb], nontrivial=len(r) > 1, outcome=[len(r)])
        if cover != list(range(n)) or any(e - s > mb or e <= s for s, e in r) or sum(sizes) != n or [e - s for s, e in r] != list(sizes) or len(r) != math.ceil(n / mb):
            t.fail({"relation": "generate_batches_partition", "part": "generate_batches"}, {"part": "generate_batches", "n": n, "max_batch": mb}, f"generate_batches({n}, max_batch={mb}) = {r}, subdivide = {sizes}")
    for nbt in range(1, n + 1):
        r = list(generate_batches(n, num_batches=nbt, start_index=3))
        cover = [i for s, e in r for i in range(s, e)]
        t.case(key=["gennb", n, nbt], nontrivial=nbt > 1, outcome=[len(r)])
        if cover != list(range(3, n + 3)) or len(r) != nbt or max(e - s for s, e in r) - min(e - s for s, e in r) > 1:
            t.fail({"relation": "generate_batches_partition", "part": "generate_batches"}, {"part": "generate_batches", "n": n, "num_batches": nbt}, f"generate_batches({n}, num_batches={nbt}, start_index=3) = {r}")
    return t


def w_perms(item, seed=0):
    """Every shuffle order for a small n: the schedule dimension in full."""
    n, bs = item
    t = Tally()
    for perm in itertools.permutations(range(n)):
        g = OwnedGenerator([perm])
        check_batcher(t, n, bs, 0.0, "grid", True, rng=g, prescribed={"epoch": [list(perm)]})
    # with a validation split: every split permutation x every epoch order of the remaining training set
    if n <= 4:
        for ratio in (0.25, 0.5):
            n_val = int(round(n * ratio))
            if n_val == 0:
                continue
            for split in itertools.permutations(range(n)):
                for perm in itertools.permutations(range(n - n_val)):
                    orders = [split, perm] if n - n_val != n else [split]
                    g = OwnedGenerator(orders)
                    check_batcher(t, n, bs, ratio, "random", True, rng=g, prescribed={"epoch": [list(perm)], "split": list(split)}, epochs=1)
    t.sample({"part": "all_permutations", "n": n, "batch_size": bs, "orders": math.factorial(n)}, cap=1)
    return t


# ----------------------------------------------------------------------------- reconstruction part
def tiny_cfg(J, obj_type="complex", modes=1, slices=1):
    scan = {4: [2, 2], 6: [2, 3], 12: [3, 4]}[J]
    return {"obj_type": obj_type, "slices": slices, "modes": modes, "roi": [8, 8], "scan": scan, "step": "fractional", "pad": [8, 8]}


def build_problem(cfg, seed, key, as_initial=False):
    """as_initial: install the perturbed probe through a fresh probe model, so that it is also the state a reset
    returns to (the plain probe setter only changes the current probe; reset restores the model's initial one)."""
    from checks import _ptycho

    rng = np.random.default_rng([seed, 9, 77] + list(key))
    P = _ptycho.build(cfg, rng)
    # start away from the ground truth so that losses and gradients are far from zero
    P.set_object(_ptycho.perturb_object(P.obj_true, P.cfg, P.geo, "noise", np.random.default_rng([seed, 9, 78] + list(key))))
    pp = _ptycho.perturb_probe(P.probe_true, P.cfg, P.geo, "defocus")
    if as_initial:
        P.set_probe_model(pp)
    else:
        P.set_probe(pp)
    return P


ZERO_LR = {"object": {"type": "sgd", "lr": 0.0}, "probe": {"type": "sgd", "lr": 0.0}}


def relerr(a, b):
    a, b = np.asarray(a, float), np.asarray(b, float)
    s = max(float(np.abs(b).max()) if b.size else 0.0, 1e-30)
    return float(np.abs(a - b).max()) / s if b.size else 0.0


def orders_for(J, quick):
    if J <= 4:
        return [list(p) for p in itertools.permutations(range(J))]
    ident = list(range(J))
    fam = [ident, ident[::-1], ident[1::2] + ident[0::2], ident[J // 2 :] + ident[: J // 2]]
    rng = np.random.default_rng(J)
    fam += [rng.permutation(J).tolist() for _ in range(2 if quick else 8)]
    return fam


def w_invariance(item, seed=0, quick=True):
    J, obj_type, modes, slices, lt = item
    SB = _batcher()
    t = Tally()
    with warnings.catch_warnings():
        warnings.simplefilter("ignore")
        P = build_problem(tiny_cfg(J, obj_type, modes, slices), seed, [J, modes, slices])
        P.set_loss_type(lt)
        full = P.loss_and_grads(None, lt)
        if not (full[0] > 0 and np.abs(full[1]).max() > 0):
            raise Broken("tiny problem has zero loss/gradient at the perturbed start: invariance would be vacuous")
        divisors = [b for b in range(1, J + 1) if J % b == 0]
        for order in orders_for(J, quick):
            for b in divisors:
                case = {"part": "invariance", "J": J, "obj_type": obj_type, "modes": modes, "slices": slices, "loss_type": lt, "order": order, "batch_size": b}
                g = OwnedGenerator([order])
                batches = [np.asarray(x) for x in SB(J, b, shuffle=True, rng=g)]
                if [int(i) for x in batches for i in x] != order:
                    raise Broken("owned Generator did not determine the visiting order")
                res = [P.loss_and_grads(x, lt) for x in batches]
                mean_loss = float(np.mean([r[0] for r in res]))
                mean_go = np.mean([r[1] for r in res], axis=0)
                mean_gp = np.mean([r[2] for r in res], axis=0)
                e = [abs(mean_loss - full[0]) / abs(full[0]), relerr(mean_go, full[1]), relerr(mean_gp, full[2])]
                t.stat("invariance_loss_rel_err", e[0])
                t.stat("invariance_grad_rel_err", max(e[1], e[2]))
                t.case(key=case, nontrivial=len(batches) > 1, outcome=[round(mean_loss / full[0], 4), len(batches)])
                for name, ev in zip(("loss", "object_gradient", "probe_gradient"), e):
                    if not ev <= TOL:
                        t.fail({"relation": f"mean_of_batch_{name}_equals_full_batch", "part": "invariance", "loss_type": lt}, case, f"J={J} batch_size={b} order={order} {lt}: mean per-batch {name} differs from the full-batch value by {ev:.3g} (relative)")
        # the real reconstruct() loop with learning rate 0 must record the same loss for every divisor batch size / order
        for order in orders_for(J, True)[: (6 if quick else 24)]:
            for b in divisors:
                case = {"part": "loop", "J": J, "obj_type": obj_type, "modes": modes, "slices": slices, "loss_type": lt, "order": order, "batch_size": b}
                P.ptycho.rng = OwnedGenerator([order])
                n0 = P.ptycho.num_iters
                P.ptycho.reconstruct(num_iters=1, batch_size=b, optimizer_params=ZERO_LR, loss_type=lt)
                rec = float(P.ptycho.iter_losses[-1])
                ev = abs(rec - full[0]) / abs(full[0])
                t.stat("loop_loss_rel_err", ev)
                t.case(key=case, nontrivial=b < J, outcome=[round(rec / full[0], 4)])
                if P.ptycho.num_iters != n0 + 1 or not ev <= TOL:
                    t.fail({"relation": "epoch_loss_equals_full_batch_loss", "part": "loop", "loss_type": lt}, case, f"reconstruct(num_iters=1, batch_size={b}, lr=0) recorded loss {rec:.8g}, full-batch loss {full[0]:.8g} (rel {ev:.3g}), J={J} order={order} {lt}")
        # progress-dependent behaviour: ONE call running 12 epochs (lr = 0): every recorded epoch loss is the full-batch loss
        for order in orders_for(J, True)[:2]:
            for b in divisors:
                case = {"part": "loop_long", "J": J, "obj_type": obj_type, "modes": modes, "slices": slices, "loss_type": lt, "order": order, "batch_size": b}
                P.ptycho.rng = OwnedGenerator([order])
                n0 = P.ptycho.num_iters
                P.ptycho.reconstruct(num_iters=12, batch_size=b, optimizer_params=ZERO_LR, loss_type=lt)
                recs = [float(x) for x in P.ptycho.iter_losses[-12:]]
                ev = max(abs(r - full[0]) / abs(full[0]) for r in recs)
                t.stat("loop_loss_rel_err", ev)
                t.case(key=case, nontrivial=b < J, outcome=[round(recs[-1] / full[0], 4)])
                if P.ptycho.num_iters != n0 + 12 or not ev <= TOL:
                    t.fail({"relation": "epoch_loss_equals_full_batch_loss", "part": "loop_long", "loss_type": lt}, case, f"reconstruct(num_iters=12, batch_size={b}, lr=0) recorded losses {recs}, full-batch loss {full[0]:.8g} (rel {ev:.3g}), num_iters {n0} -> {P.ptycho.num_iters}, J={J} order={order} {lt}")
        # the same loop WITH a validation split: the epoch loss is the loss over the TRAINING set (batch sizes dividing its
        # size), the recorded validation loss is the loss over the validation set; every order of split and epoch is owned
        if J >= 12:
            for vmode, vratio in (("grid", 0.25), ("random", 0.25)):
                split_orders = [list(range(J))] if vmode == "grid" else [list(range(J)), list(range(J))[::-1], list(range(1, J, 2)) + list(range(0, J, 2))]
                for split in split_orders:
                    ref_b = SB(J, 1, shuffle=False, rng=OwnedGenerator([split]), val_ratio=vratio, val_mode=vmode)
                    train = np.asarray(ref_b.train_indices)
                    val = np.asarray(ref_b.val_indices)
                    ntr = len(train)
                    full_tr = P.loss_and_grads(train, lt)[0]
                    full_val = P.loss_and_grads(val, lt)[0]
                    for b in [d for d in range(1, ntr + 1) if ntr % d == 0]:
                        eorder = list(range(ntr))[::-1] if b % 2 else list(range(ntr))
                        case = {"part": "loop_val", "J": J, "obj_type": obj_type, "modes": modes, "slices": slices, "loss_type": lt, "val_mode": vmode, "val_ratio": vratio, "split": split, "order": eorder, "batch_size": b}
                        P.ptycho.val_ratio = vratio
                        P.ptycho.val_mode = vmode
                        P.ptycho.rng = OwnedGenerator([split, eorder] if vmode == "random" else [eorder])
                        try:
                            P.ptycho.reconstruct(num_iters=1, batch_size=b, optimizer_params=ZERO_LR, loss_type=lt)
                            rec = float(P.ptycho.iter_losses[-1])
                            vrec = float(P.ptycho.val_iter_losses[-1]) if len(P.ptycho.val_iter_losses) else float("nan")
                        finally:
                            P.ptycho.val_ratio = 0.0
                            P.ptycho.val_mode = "grid"
                        ev = abs(rec - full_tr) / abs(full_tr)
                        t.stat("loop_val_loss_rel_err", ev)
                        t.case(key=case, nontrivial=True, outcome=[round(rec / full_tr, 4), ntr, len(val)])
                        if not ev <= TOL:
                            t.fail({"relation": "epoch_loss_equals_training_set_loss", "part": "loop_val", "loss_type": lt, "val_mode": vmode}, case, f"validation split {vmode}/{vratio} (train {ntr}, val {len(val)}), batch_size={b}, lr=0: recorded epoch loss {rec:.8g}, loss over the training set {full_tr:.8g} (rel {ev:.3g})")
                        # validation batches of size b over len(val) patterns: only compared when b divides len(val)
                        if len(val) % b == 0:
                            evv = abs(vrec - full_val) / abs(full_val)
                            if not evv <= TOL:
                                t.fail({"relation": "validation_loss_equals_validation_set_loss", "part": "loop_val", "loss_type": lt, "val_mode": vmode}, case, f"validation split {vmode}/{vratio}, batch_size={b}: recorded validation loss {vrec:.8g}, loss over the validation set {full_val:.8g} (rel {evv:.3g})")
    return t


ADAM = {"object": {"type": "adam", "lr": 2e-2}, "probe": {"type": "adam", "lr": 2e-2}}


def run_history(J, obj_type, modes, seed, pseed, batch_size, iters=3, reset_again=False, val=None):
    with warnings.catch_warnings():
        warnings.simplefilter("ignore")
        P = build_problem(tiny_cfg(J, obj_type, modes, 1), seed, [J, modes, 1])
        if val:
            P.ptycho.val_ratio, P.ptycho.val_mode = val[0], val[1]
        P.ptycho.rng = int(pseed)
        P.ptycho.reconstruct(num_iters=iters, reset=True, batch_size=batch_size, optimizer_params=ADAM)
        h1 = np.array(P.ptycho.iter_losses, dtype=np.float64).tobytes()
        h2 = None
        if reset_again:
            P.ptycho.reconstruct(num_iters=iters, reset=True, batch_size=batch_size, optimizer_params=ADAM)
            h2 = np.array(P.ptycho.iter_losses, dtype=np.float64).tobytes()
        return h1, h2, [float(x) for x in P.ptycho.iter_losses]


RESET_OPS = ["cont1", "cont2", "reset"]
SEED_SPELLINGS = ["int", "np_generator", "torch_generator", "np_generator_mt19937", "np_generator_philox"]
# seeds of large magnitude (>= 2**32, >= 2**64, > 2**100): what is remembered for a reset must be the whole seed
BIG_SEEDS = [2**32 + 7, 2**64, 2**100 + 3]


def spell_seed(spelling, pseed):
    """The same seed in every spelling the rng setter documents: an int, a numpy Generator seeded with it, a torch
    Generator seeded with it (a fresh object per run: a Generator is consumed by the run that uses it)."""
    if spelling == "int":
        return int(pseed)
    if spelling == "np_generator":
        return np.random.default_rng(int(pseed))
    if spelling == "torch_generator":
        import torch

        return torch.Generator().manual_seed(int(pseed) % 2**63)
    if spelling == "np_generator_mt19937":
        return np.random.Generator(np.random.MT19937(int(pseed)))
    if spelling == "np_generator_philox":
        return np.random.Generator(np.random.Philox(int(pseed)))
    raise Broken(f"unknown seed spelling {spelling}")


def w_reset_histories(item, seed=0, depth=3):
    """Every history of {continue 1 iteration, continue 2 iterations, reset-and-run 3 iterations} up to `depth`
    operations after an initial seeded run: whenever a reset run occurs, its loss history must be bit-identical to a
    fresh run from the same seed — whatever happened before (a stale generator, optimizer or scheduler survives a
    reset only along particular histories)."""
    J, obj_type, modes, bs, pseed = item[:5]
    val = tuple(item[5]) if len(item) > 5 and item[5] else None
    # how the seed is spelled (int / numpy Generator / torch Generator) and whether the FIRST run already passes reset=True
    spelling = item[6] if len(item) > 6 else "int"
    first_reset = bool(item[7]) if len(item) > 7 else True
    t = Tally()
    iters = 3

    def first_run():
        P = build_problem(tiny_cfg(J, obj_type, modes, 1), seed, [J, modes, 1])
        if not first_reset:
            # bring the object to the state a reset returns to BEFORE the seed is given (the harness' probe/object
            # setters change the current state only), so that the first, reset-less run starts where a reset run starts
            P.ptycho.reconstruct(num_iters=0, reset=True, batch_size=bs, optimizer_params=copy.deepcopy(ADAM))
        if val:
            P.ptycho.val_ratio, P.ptycho.val_mode = val[0], val[1]
        P.ptycho.rng = spell_seed(spelling, pseed)
        if first_reset:
            P.ptycho.reconstruct(num_iters=iters, reset=True, batch_size=bs, optimizer_params=copy.deepcopy(ADAM))
        else:
            P.ptycho.reconstruct(num_iters=iters, batch_size=bs, optimizer_params=copy.deepcopy(ADAM))
        return P

    with warnings.catch_warnings():
        warnings.simplefilter("ignore")
        P0 = first_run()
    fresh = np.array(P0.ptycho.iter_losses, dtype=np.float64).tobytes()
    lf = [float(x) for x in P0.ptycho.iter_losses]
    hists = [h for d in range(1, depth + 1) for h in itertools.product(RESET_OPS, repeat=d)]
    # progress-dependent behaviour: a continued run that crosses ten iterations before the reset
    hists += [("cont11", "reset"), ("cont11", "cont1", "reset"), ("reset", "cont11", "reset")]
    for hist in hists:
        if True:
            if hist[-1] != "reset":
                continue  # only histories that end in the observed reset run
            case = {"part": "reset_history", "J": J, "obj_type": obj_type, "modes": modes, "batch_size": bs, "ptycho_seed": pseed, "history": list(hist), "val": list(val) if val else None, "seed_spelling": spelling, "first_reset": first_reset}
            with warnings.catch_warnings():
                warnings.simplefilter("ignore")
                P = first_run()
                ok_first = np.array(P.ptycho.iter_losses, dtype=np.float64).tobytes() == fresh
                for op in hist:
                    if op == "cont1":
                        P.ptycho.reconstruct(num_iters=1, batch_size=bs)
                    elif op == "cont2":
                        P.ptycho.reconstruct(num_iters=2, batch_size=bs)
                    elif op == "cont11":
                        P.ptycho.reconstruct(num_iters=11, batch_size=bs)
                    else:
                        P.ptycho.reconstruct(num_iters=iters, reset=True, batch_size=bs, optimizer_params=copy.deepcopy(ADAM))
                got = np.array(P.ptycho.iter_losses, dtype=np.float64)
            t.case(key=case, nontrivial=any(h != "reset" for h in hist), outcome=[round(float(x), 7) for x in got])
            if not ok_first:
                t.fail({"relation": "same_seed_same_loss_history", "part": "reset_history", "seed_spelling": spelling}, case, f"fresh run from seed {pseed} differs from the reference fresh run")
            if got.tobytes() != fresh:
                t.fail({"relation": "reset_repeats_loss_history", "part": "reset_history", "after": "continued_run" if any(h != "reset" for h in hist) else "reset_only", "validation": val[1] if val else "none", "seed_spelling": spelling, "first_run_passes_reset": first_reset}, case, f"seed given as {spelling}, first run {'with' if first_reset else 'without'} reset=True, history {list(hist)}: the final reset run gave {got.tolist()}, a fresh run from the same seed gives {lf}")
    return t


# ----------------------------------------------------------------------------- settings that change across a reset
RS_OPT = {
    "adam": lambda: copy.deepcopy(ADAM),
    # learnable scan positions with a rate that moves positions across pixel-rounding boundaries within a few iterations
    "adam+dataset": lambda: dict(copy.deepcopy(ADAM), dataset={"type": "sgd", "lr": 3.0}),
    "adam+dataset_off": lambda: dict(copy.deepcopy(ADAM), dataset={"type": "none"}),
    "sgd_obj_only": lambda: {"object": {"type": "sgd", "lr": 0.3}},
    # fully explicit: every optimizable part named (settings are sticky: a part that is not named keeps its optimizer)
    "sgd_obj_explicit": lambda: {"object": {"type": "sgd", "lr": 0.3}, "probe": {"type": "none"}, "dataset": {"type": "none"}},
}
RS_EXPLICIT_OPT = ["adam+dataset", "adam+dataset_off", "sgd_obj_explicit"]
RS_EXPLICIT_SCHED = {"none": lambda: {"object": {"type": "none"}}, "exp_factor": lambda: {"object": {"type": "exp", "factor": 0.01}}, "linear_horizon": lambda: {"object": {"type": "linear", "start_factor": 0.2}}}
RS_SCHED = {
    "none": lambda: None,
    "exp_gamma": lambda: {"object": {"type": "exp", "gamma": 0.7}},
    # schedulers whose constants depend on the iteration HORIZON of the call that creates them
    "exp_factor": lambda: {"object": {"type": "exp", "factor": 0.01}},
    "linear_horizon": lambda: {"object": {"type": "linear", "start_factor": 0.2}},
    "cyclic": lambda: {"object": {"type": "cyclic", "step_size_up": 2}},
}


def _rs_problem(J, obj_type, modes, seed):
    cfg = dict(tiny_cfg(J, obj_type, modes, 1), learn_scan_positions=True, learn_descan=False)
    return build_problem(cfg, seed, [J, modes, 1, 5])


def _rs_run(P, bs, iters, okind, skind, pseed=None, passing="all"):
    kw = {}
    if passing in ("all", "optimizer_only", "explicit"):
        kw["optimizer_params"] = RS_OPT[okind]()
    if passing == "all" and RS_SCHED[skind]() is not None:
        kw["scheduler_params"] = RS_SCHED[skind]()
    if passing == "explicit":
        kw["scheduler_params"] = RS_EXPLICIT_SCHED[skind]()
    if pseed is not None:
        P.ptycho.rng = int(pseed)
    P.ptycho.reconstruct(num_iters=iters, reset=True, batch_size=bs, **kw)
    lrs = {k: [float(x) for x in v] for k, v in sorted(P.ptycho.iter_lrs.items())}
    return np.array(P.ptycho.iter_losses, dtype=np.float64), lrs, P.dset.scan_positions_px.detach().cpu().numpy().astype(np.float64).copy()


def w_reset_settings(item, seed=0):
    """'The same run after a reset': a run configured by (optimizers, schedulers) is repeated on the same object after
    reset=True (i) passing the same keyword arguments again, (ii) passing none (the stored ones are reused), and (iii)
    a run with OTHER settings after the reset must equal that run on a fresh object. Settings alphabet: with / without a
    learnable dataset, schedulers with and without constants that depend on the iteration horizon."""
    J, obj_type, modes, bs, pseed, oa, sa = item
    t = Tally()
    iters = 4
    with warnings.catch_warnings():
        warnings.simplefilter("ignore")
        P = _rs_problem(J, obj_type, modes, seed)
        pos0 = P.dset.scan_positions_px.detach().cpu().numpy().astype(np.float64).copy()
        first, lr1, pos1 = _rs_run(P, bs, iters, oa, sa, pseed)
        moved = int(np.sum(np.round(pos1) != np.round(pos0)))
        t.extra["positions_crossing_a_rounding_boundary"] += moved
        for passing in ("all", "none"):
            case = {"part": "reset_settings", "J": J, "obj_type": obj_type, "modes": modes, "batch_size": bs, "ptycho_seed": pseed, "first": [oa, sa], "second": [oa, sa], "passing": passing}
            got, lr2, _ = _rs_run(P, bs, iters, oa, sa, None, passing)
            t.case(key=case, nontrivial=True, outcome=[round(float(x), 7) for x in got])
            if got.tobytes() != first.tobytes() or lr2 != lr1:
                t.fail({"relation": "reset_repeats_loss_history", "part": "reset_settings", "passing": passing, "optimizers": oa, "scheduler": sa}, case, f"run with optimizers={oa} scheduler={sa}, then reconstruct(reset=True) passing {'the same keyword arguments' if passing == 'all' else 'no optimizer / scheduler arguments (stored ones reused)'}: losses {got.tolist()} vs first run {first.tolist()}; lrs {lr2} vs {lr1}")
        # (iii) other settings after the reset == those settings on a fresh object
        # (the second call names EVERY part explicitly: settings are sticky, an omitted part keeps what it had)
        for ob in RS_EXPLICIT_OPT:
            for sb in RS_EXPLICIT_SCHED:
                case = {"part": "reset_settings", "J": J, "obj_type": obj_type, "modes": modes, "batch_size": bs, "ptycho_seed": pseed, "first": [oa, sa], "second": [ob, sb], "passing": "explicit"}
                Q = _rs_problem(J, obj_type, modes, seed)
                fresh, lrf, posf = _rs_run(Q, bs, iters, ob, sb, pseed, "explicit")
                R = _rs_problem(J, obj_type, modes, seed)
                _rs_run(R, bs, iters, oa, sa, pseed)
                got, lrg, posg = _rs_run(R, bs, iters, ob, sb, pseed, "explicit")
                t.case(key=case, nontrivial=True, outcome=[round(float(x), 7) for x in got])
                if got.tobytes() != fresh.tobytes() or not np.array_equal(posg, posf):
                    t.fail({"relation": "run_after_reset_equals_run_on_fresh_object", "part": "reset_settings", "first_optimizers": oa, "second_optimizers": ob, "first_scheduler": sa, "second_scheduler": sb}, case, f"first run optimizers={oa} scheduler={sa}; then reset=True with optimizers={ob} scheduler={sb}: losses {got.tolist()}, the same call on a fresh object gives {fresh.tolist()} (positions differ by {float(np.abs(posg - posf).max()):.3g})")
    return t



def _interleavings(a, b):
    if not a or not b:
        yield list(a) + list(b)
        return
    for rest in _interleavings(a[1:], b):
        yield [a[0]] + rest
    for rest in _interleavings(a, b[1:]):
        yield [b[0]] + rest


def w_shared_generator(item, seed=0):
    """ONE numpy Generator object handed to two reconstruction objects (and kept by the caller): after each object was
    started with reset=True, its loss history must be the history of the same calls on an object that is alone with
    its generator — for every interleaving of the two objects' continued runs, with and without the caller drawing from
    the generator in between ("two runs started from the same seed ... produce identical loss histories")."""
    J, obj_type, modes, bs, pseed = item[:5]
    t = Tally()
    iters = 2

    def fresh():
        return build_problem(tiny_cfg(J, obj_type, modes, 1), seed, [J, modes, 1])

    def first(P):
        P.ptycho.reconstruct(num_iters=iters, reset=True, batch_size=bs, optimizer_params=copy.deepcopy(ADAM))

    ops = {"c1": 1, "c2": 2}
    with warnings.catch_warnings():
        warnings.simplefilter("ignore")
        S = fresh()
        S.ptycho.rng = np.random.default_rng(int(pseed))
        first(S)
        for o in ("c1", "c2"):
            S.ptycho.reconstruct(num_iters=ops[o], batch_size=bs)
        solo = np.array(S.ptycho.iter_losses, dtype=np.float64)
        for order in _interleavings([("A", "c1"), ("A", "c2")], [("B", "c1"), ("B", "c2")]):
            for draws in (False, True):
                for first_order in ("AB", "BA"):
                    case = {"part": "shared_generator", "J": J, "obj_type": obj_type, "modes": modes, "batch_size": bs, "ptycho_seed": pseed, "order": [list(x) for x in order], "caller_draws": draws, "first": first_order}
                    g = np.random.default_rng(int(pseed))
                    objs = {"A": fresh(), "B": fresh()}
                    for k in first_order:
                        objs[k].ptycho.rng = g
                    for k in first_order:
                        first(objs[k])
                        if draws:
                            g.random(3)
                    for who, o in order:
                        objs[who].ptycho.reconstruct(num_iters=ops[o], batch_size=bs)
                        if draws:
                            g.permutation(5)
                    t.case(key=case, nontrivial=True, outcome=[round(float(x), 7) for x in objs["A"].ptycho.iter_losses])
                    for who in ("A", "B"):
                        got = np.array(objs[who].ptycho.iter_losses, dtype=np.float64)
                        if got.tobytes() != solo.tobytes():
                            t.fail({"relation": "history_independent_of_other_holders_of_the_generator", "part": "shared_generator", "caller_draws": draws}, case, f"object {who} sharing its Generator object with another reconstruction (order {order}, caller draws {draws}): losses {got.tolist()}, alone with the same seed and calls {solo.tolist()}")
                            break
    return t


NEUTRAL_OPS = ["to_cpu", "save_zip", "save_dir", "device_kw", "get_props", "deepcopy_rng_free"]


def w_neutral_ops(item, seed=0, scratch="/tmp"):
    """Calls that are no reconstruction steps — moving to the (same) device, saving a checkpoint, reading the public
    properties — inserted at every position of a continued mini-batch run: the loss history must be the history of the
    same run without them ("two runs started from the same seed produce identical loss histories"; a checkpoint written
    on the way is not a different run)."""
    import shutil

    J, obj_type, modes, bs, pseed = item[:5]
    t = Tally()
    steps = [2, 1, 2]  # reconstruct(2, reset=True), then continue 1, then continue 2
    sub = os.path.join(scratch, f"c09-{os.getpid()}")
    os.makedirs(sub, exist_ok=True)

    def run(neutral=None, pos=None):
        P = build_problem(tiny_cfg(J, obj_type, modes, 1), seed, [J, modes, 1])
        P.ptycho.rng = int(pseed)
        for k, n in enumerate(steps):
            if k == 0:
                P.ptycho.reconstruct(num_iters=n, reset=True, batch_size=bs, optimizer_params=copy.deepcopy(ADAM))
            else:
                P.ptycho.reconstruct(num_iters=n, batch_size=bs)
            if neutral is not None and pos == k:
                pt = P.ptycho
                if neutral == "to_cpu":
                    pt.to("cpu")
                elif neutral in ("save_zip", "save_dir"):
                    target = os.path.join(sub, "ckpt.zip" if neutral == "save_zip" else "ckpt")
                    pt.save(target, mode="o", store="zip" if neutral == "save_zip" else "dir", verbose=0)
                    shutil.rmtree(target, ignore_errors=True) if os.path.isdir(target) else os.remove(target)
                elif neutral == "device_kw":
                    pt.reconstruct(num_iters=0, device="cpu", batch_size=bs)
                elif neutral == "get_props":
                    _ = (np.array(pt.obj), np.array(pt.probe), list(pt.iter_losses), dict(pt.iter_lrs), pt.constraints)
                elif neutral == "deepcopy_rng_free":
                    _ = copy.deepcopy(list(pt.iter_losses))
        return np.array(P.ptycho.iter_losses, dtype=np.float64)

    try:
        with warnings.catch_warnings():
            warnings.simplefilter("ignore")
            ref = run()
            for neutral in NEUTRAL_OPS:
                for pos in range(len(steps) - 1):  # after step pos, i.e. before a continued run
                    case = {"part": "neutral_op", "J": J, "obj_type": obj_type, "modes": modes, "batch_size": bs, "ptycho_seed": pseed, "op": neutral, "after_step": pos}
                    try:
                        got = run(neutral, pos)
                    except Exception as ex:  # noqa: BLE001
                        t.fail({"relation": "neutral_call_accepted", "part": "neutral_op", "op": neutral}, case, f"{neutral} after step {pos} raised {type(ex).__name__}: {str(ex)[:200]}")
                        continue
                    t.case(key=case, nontrivial=True, outcome=[round(float(x), 7) for x in got])
                    if got.tobytes() != ref.tobytes():
                        t.fail({"relation": "loss_history_unchanged_by_a_call_that_is_no_reconstruction_step", "part": "neutral_op", "op": neutral}, case, f"{neutral} after step {pos} (steps {steps}, batch_size {bs}): losses {got.tolist()}, without it {ref.tolist()}")
    finally:
        shutil.rmtree(sub, ignore_errors=True)
    return t


def w_determinism(item, seed=0):
    J, obj_type, modes, bs, pseed = item
    t = Tally()
    case = {"part": "determinism", "J": J, "obj_type": obj_type, "modes": modes, "batch_size": bs, "ptycho_seed": pseed}
    a1, a2, la = run_history(J, obj_type, modes, seed, pseed, bs, reset_again=True)
    b1, _, lb = run_history(J, obj_type, modes, seed, pseed, bs)
    c1, _, lc = run_history(J, obj_type, modes, seed, pseed + 1, bs)
    t.case(key=case, nontrivial=bs < J, outcome=[round(x, 6) for x in la])
    if a1 != b1:
        t.fail({"relation": "same_seed_same_loss_history", "part": "determinism"}, case, f"two runs from seed {pseed} differ: {la} vs {lb}")
    if a2 != a1:
        t.fail({"relation": "reset_repeats_loss_history", "part": "determinism"}, case, f"reconstruct(reset=True) on the same object did not repeat the history: first {la}")
    if bs < J:
        t.extra["different_seed_differs"] += int(c1 != a1)
        t.extra["different_seed_cases"] += 1
    return t


def run(ctx):
    q = ctx.quick
    ctx.assume(
        "the library draws every visiting order from the Generator passed as rng= (verified in every case: yielded order == prescribed order)",
        "validation ratios outside [0,1) are treated as 0 by the library and are outside the quantifier",
        "gradient/loss invariance is claimed for divisor batch sizes only; float32 forward model, relative tolerance 2e-5",
        "full-batch updates are outside this check (C05); determinism is checked with mini-batches so that the shuffle order matters",
    )
    def once():
        # the harness' own determinism: builder + forward chain + owned Generator (NOT the library's seeded shuffle,
        # which is the property under test and must surface as a VIOLATION, not as a broken harness)
        t = Tally()
        check_batcher(t, 5, 2, 0.0, "grid", True, rng=OwnedGenerator([[4, 2, 0, 1, 3]]), prescribed={"epoch": [[4, 2, 0, 1, 3]]})
        with warnings.catch_warnings():
            warnings.simplefilter("ignore")
            P = build_problem(tiny_cfg(4), ctx.seed, [4, 1, 1])
            P.set_loss_type("l2_amplitude")
            l, go, gp = P.loss_and_grads([0, 2], "l2_amplitude")
        return (sorted(t.outcomes), t.nfails, l, go.tobytes(), gp.tobytes())

    ctx.selftest(once)
    nmax = 40 if q else 120
    step = 0.05 if q else 0.01
    ratios = [round(k * step, 4) for k in range(0, int(round(1 / step)))] + [1 / 3, 0.999]
    ctx.coverage["bounds"] = {"n_max": nmax, "ratio_step": step, "ratios": len(ratios), "all_permutations_up_to_n": 5 if q else 6}
    ctx.pmap(w_batcher, list(range(1, nmax + 1)), chunk=1, label="batcher lattice", seed=ctx.seed, ratios=ratios)
    pn = 5 if q else 6
    ctx.pmap(w_perms, [(n, bs) for n in range(1, pn + 1) for bs in list(range(1, n + 2)) + [None]], chunk=1, label="all shuffle orders", seed=ctx.seed)
    inv = []
    for J in ([4, 12] if q else [4, 6, 12]):
        for obj_type, modes, slices in ([("complex", 1, 1), ("potential", 2, 2)] if q else [("complex", 1, 1), ("pure_phase", 2, 1), ("potential", 2, 2), ("complex", 3, 3)]):
            for lt in ("l2_amplitude", "l1_amplitude", "l2_intensity", "l1_intensity"):
                inv.append((J, obj_type, modes, slices, lt))
    ctx.pmap(w_invariance, inv, chunk=1, label="loss/gradient batch invariance", seed=ctx.seed, quick=q)
    det = [(J, ot, m, bs, ps) for J in (4, 12) for ot, m in (("complex", 1), ("potential", 2)) for bs in ([1, 2] if J == 4 else [3, 5]) for ps in ([0, 11] if q else [0, 11, 12, 13])]
    m = ctx.pmap(w_determinism, det, chunk=1, label="seeded determinism", seed=ctx.seed)
    rh = [(4, "complex", 1, 2, 11), (12, "potential", 2, 5, 11)] if q else [(J, ot, mm, bs, 11) for J, bs in ((4, 1), (4, 2), (12, 5)) for ot, mm in (("complex", 1), ("potential", 2))]
    # with a validation split (random and grid): the split itself is state that a reset must redraw identically
    rh += [(12, "complex", 1, 2, 11, (0.25, "random")), (12, "complex", 1, 4, 11, (0.25, "grid"))] if q else [(12, ot, mm, bs, 11, v) for ot, mm in (("complex", 1), ("potential", 2)) for bs in (2, 4) for v in ((0.25, "random"), (0.25, "grid"), (0.5, "random"))]
    # the seed in each documented spelling, and a first run that does NOT pass reset=True ("the same run after a reset")
    base = [(4, "complex", 1, 2, 5, None), (12, "complex", 1, 4, 11, (0.25, "random"))] if q else [(4, "complex", 1, 2, 5, None), (4, "complex", 1, 1, 11, None), (12, "potential", 2, 5, 5, None), (12, "complex", 1, 4, 11, (0.25, "random")), (12, "complex", 1, 2, 5, (0.25, "grid"))]
    rh += [b + (sp, fr) for b in base for sp in SEED_SPELLINGS for fr in (True, False) if not (sp == "int" and fr)]
    big = [(4, "complex", 1, 2, bsd, None) for bsd in BIG_SEEDS] + ([] if q else [(12, "complex", 1, 4, bsd, (0.25, "random")) for bsd in BIG_SEEDS])
    rh += [b + (sp, fr) for b in big for sp in ("int", "np_generator") for fr in (True, False)]
    # the legal FALSY seed 0 (and -0 / False spellings are not seeds): every spelling, with and without a first reset, with a
    # shuffled mini-batch order and with a random validation split
    zero = [(4, "complex", 1, 2, 0, None), (12, "complex", 1, 4, 0, (0.25, "random"))]
    rh += [b + (sp, fr) for b in zero for sp in SEED_SPELLINGS for fr in (True, False)]
    ctx.pmap(w_neutral_ops, [(4, "complex", 1, 2, 5), (12, "complex", 1, 5, 11)] if q else [(4, "complex", 1, 2, 5), (4, "potential", 2, 1, 11), (12, "complex", 1, 5, 11), (12, "potential", 2, 3, 5)], chunk=1, label="calls that are no reconstruction steps", seed=ctx.seed, scratch=ctx.scratch)
    ctx.pmap(w_shared_generator, [(4, "complex", 1, 2, 5), (12, "complex", 1, 5, 11)] if q else [(4, "complex", 1, 2, 5), (4, "potential", 2, 1, 11), (12, "complex", 1, 5, 11), (12, "potential", 2, 3, 5)], chunk=1, label="one Generator object, several holders", seed=ctx.seed)
    ctx.pmap(w_reset_histories, rh, chunk=1, label="reset after every history", seed=ctx.seed, depth=2 if q else 3)
    rs_base = [(12, "complex", 1, 4, 11)] if q else [(12, "complex", 1, 4, 11), (4, "potential", 2, 2, 5)]
    rs = [b + (o, sc) for b in rs_base for o in RS_OPT for sc in RS_SCHED if o != "sgd_obj_explicit"]
    mrs = ctx.pmap(w_reset_settings, rs, chunk=1, label="settings that change across a reset", seed=ctx.seed)
    if mrs.extra["positions_crossing_a_rounding_boundary"] == 0:
        raise Broken("learnable scan positions never crossed a pixel-rounding boundary: the dataset dimension of the reset part is vacuous")
    ctx.coverage["bounds"]["reset_settings"] = {"optimizers": list(RS_OPT), "schedulers": list(RS_SCHED), "passing": ["all", "none"], "iterations": 4}
    if m.extra["different_seed_cases"] and m.extra["different_seed_differs"] == 0:
        raise Broken("different seeds never changed the loss history: the shuffle does not matter, determinism check is vacuous")
    ctx.coverage["different_seed_differs"] = f"{int(m.extra['different_seed_differs'])}/{int(m.extra['different_seed_cases'])}"


def _replay_reset_settings(ctx, case):
    t = w_reset_settings((case["J"], case["obj_type"], case["modes"], case["batch_size"], case["ptycho_seed"], case["first"][0], case["first"][1]), seed=ctx.seed)
    t.fails = [f for f in t.fails if f["case"].get("second") == case["second"] and f["case"].get("passing") == case["passing"]]
    return t


def replay(ctx, case):
    if case.get("part") == "reset_settings":
        t = _replay_reset_settings(ctx, case)
        for f in t.fails:
            print("  ", f["msg"])
            ctx.fail(f["cls"], f["case"], f["msg"])
        return
    t = Tally()
    part = case.get("part")
    if part == "batcher":
        pres = case.get("orders")
        rng = np.random.default_rng([ctx.seed, 9, case["n"]])
        if pres:
            rng = OwnedGenerator(([pres["split"]] if "split" in pres else []) + pres["epoch"])
        check_batcher(t, case["n"], case["batch_size"], case["val_ratio"], case["val_mode"], case["shuffle"], rng=rng, prescribed=pres, epochs=1 if pres and "split" in pres else 2)
    elif part == "generate_batches":
        t = w_batcher(case["n"], seed=ctx.seed, ratios=[0.0])
    elif part in ("invariance", "loop", "loop_val"):
        t = w_invariance((case["J"], case["obj_type"], case["modes"], case["slices"], case["loss_type"]), seed=ctx.seed, quick=True)
    elif part == "reset_history":
        t = w_reset_histories((case["J"], case["obj_type"], case["modes"], case["batch_size"], case["ptycho_seed"], case.get("val"), case.get("seed_spelling", "int"), case.get("first_reset", True)), seed=ctx.seed, depth=len(case["history"]))
    elif part == "neutral_op":
        t = w_neutral_ops((case["J"], case["obj_type"], case["modes"], case["batch_size"], case["ptycho_seed"]), seed=ctx.seed, scratch=ctx.scratch)
    elif part == "shared_generator":
        t = w_shared_generator((case["J"], case["obj_type"], case["modes"], case["batch_size"], case["ptycho_seed"]), seed=ctx.seed)
    elif part == "determinism":
        t = w_determinism((case["J"], case["obj_type"], case["modes"], case["batch_size"], case["ptycho_seed"]), seed=ctx.seed)
    for f in t.fails:
        print("  ", f["msg"])
        ctx.fail(f["cls"], f["case"], f["msg"])
