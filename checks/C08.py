"""C08 — failed saves leave no loadable partial object; write-once never overwrites.

Shape F (fault positions), level fault_enumeration. Two fault families, both enumerated completely:

(i)  seam-free: for each object graph and EVERY attribute / container-element position at every
     nesting level, the value at that position is replaced by an object whose pickling raises, so that
     `AutoSerialize.save` fails by itself exactly there (no interception at all);
(ii) injected: one reference save per (graph, store) is recorded as a numbered list E of third-party
     write effects (zarr group/array creation, zarr attribute writes, zarr array assignment, zipfile
     write/writestr/close — whatever of these exists in the installed zarr/zipfile, found by
     introspection); then for EVERY k < |E| x exception x store x mode x pre-state one save is executed
     with the exception raised exactly at effect k (before the effect happens).

Oracle after every execution (property statement, nothing more):
  * save raised and the target is absent, or `load(target)` raises, or it loads to an object structurally
    equal to the complete earlier save (or to the complete new object) — never to anything else;
  * mode "w" on an existing target: save refuses (raises) and the target's recursive content hash is unchanged;
  * the recursive content hash of every other entry of the parent directory and of the private temp
    directory (tempfile.tempdir points at a per-case directory) is the same before and after save();
  * no-fault control: save succeeds and load equals the object.

All interception lives here (harness side) and is undone after every execution; quantem is not touched.
If the recorder sees no effects (third-party API changed) only family (i) runs and the evidence says so.
"""
from __future__ import annotations

import contextlib
import hashlib
import io
import os
import pathlib
import pickle
import shutil
import stat
import tempfile
import threading
import warnings

import numpy as np
import torch

from mc.harness import Broken, Tally

from quantem.core.io.serialize import AutoSerialize, load

LEVEL = "fault_enumeration"
TECHNIQUE = "exhaustive fault-position enumeration on the real save(): every write effect k x exception x store x mode x pre-state, plus an unserialisable value at every attribute position"
CLAIM = (
    "For small object graphs that between them make every kind of write (attributes only; arrays; tensors/bytes; nested "
    "AutoSerialize objects; containers with arrays; thorough adds a combined graph) every failing save is executed on the "
    "real code: (i) an unpicklable value at every attribute/element position of every nesting level, (ii) an exception "
    "(OSError, KeyboardInterrupt; thorough adds RuntimeError) injected at every numbered third-party write effect of a "
    "recorded reference save (zarr group/array/attribute writes, zip writes and close), each for both stores, both modes, "
    "4 pre-states of the target and every spelling of the target (with or without the '.zip' suffix that save() appends itself, "
    "str or pathlib.Path) and for a 25-name alphabet of awkward target names with neighbours at every look-alike name; a "
    "successful save creates or replaces exactly its effective target and load() returns the object. After every failure the target is absent, unreadable by load(), or loads to the "
    "complete earlier (or complete new) object; mode 'w' never changes an existing target (recursive content hash); no "
    "sibling path and no temp-dir entry is changed or leaked. Fault enumeration is the right level because the property "
    "quantifies over the fault positions of one finite write sequence."
)
NOTE = (
    "Trusted: the structural-equality helper and the recursive content hash in checks/C08.py; the interception points "
    "(zarr.group, zarr.Group.create_array/require_group/create_group, zarr Attributes.__setitem__/put, zarr.Array.__setitem__, "
    "zipfile.ZipFile.write/writestr/close) cover the serializer's writes; faults are Python exceptions raised before the "
    "effect (process death and torn writes are outside the property; symlinked targets are judged by what HEAD does, see assumptions); five (quick) or six (thorough) small object graphs."
)
RULE = (
    "Cartesian product graph x fault position (every recorded write effect k, resp. every attribute/element position) x "
    "exception class x store {zip,dir} x mode {w,o} x pre-state {absent, earlier complete save of another object, plain "
    "file, directory} x target spelling {'.zip' path | extension-less path with store='zip' (effective target path+'.zip', the "
    "un-suffixed path being an absent / directory-store / plain-file sibling); str | pathlib.Path} and, on a stated sub-lattice of the fault dimensions, x target name {stems ending in '.', 'z', 'i', 'p'; "
    "doubled and upper-case suffix; space; non-ASCII; several dots; relative path; trailing slash; store='auto'} with unrelated "
    "complete saves at every name the target name could be confused with; x edge pre-states {empty directory, zero-byte file, "
    "directory with an empty sub-directory, dangling symlink, symlink to an empty directory}; x global mode {default, warnings as "
    "errors, working directory elsewhere, torch.no_grad()}; x 12 exception types; re-entrant saves (an attribute that, while being "
    "pickled, runs a nested save / failing save / refused write-once save / load, or parks its thread while another thread saves) "
    "with the outer save failing at every effect from that point on; plus the no-fault controls. A case is non-trivial when the fault actually fired inside save() "
    "(mode 'w' on an existing target is refused before any write and counts as trivial)."
)

STORES = ["zip", "dir"]
MODES = ["w", "o"]
PRES = ["absent", "old", "file", "directory"]
class C08BaseExc(BaseException):
    """A BaseException subclass that is not an Exception."""


class C08OSErrorSub(OSError):
    """An OSError subclass unknown to the library."""


INJ_EXC = {"OSError": OSError, "RuntimeError": RuntimeError, "KeyboardInterrupt": KeyboardInterrupt}
# EXCEPTION-TYPE dimension: the same oracle for whatever is raised at a write (the library itself raises some of these
# types for its own purposes, e.g. FileExistsError for the write-once refusal)
EXC_TYPES = {
    "FileExistsError": FileExistsError,
    "FileNotFoundError": FileNotFoundError,
    "PermissionError": PermissionError,
    "IsADirectoryError": IsADirectoryError,
    "SystemExit": SystemExit,
    "MemoryError": MemoryError,
    "RecursionError": RecursionError,
    "GeneratorExit": GeneratorExit,
    "C08BaseExc": C08BaseExc,
    "C08OSErrorSub": C08OSErrorSub,
}
INJ_EXC.update(EXC_TYPES)
POISON_EXC = {"PicklingError": pickle.PicklingError, "KeyboardInterrupt": KeyboardInterrupt, "FileExistsError": FileExistsError, "SystemExit": SystemExit, "C08OSErrorSub": C08OSErrorSub}
# RE-ENTRANT saves: what the hook attribute of graph "hooked" does when the pickling fallback reaches it
HOOK_ACTIONS = ["nested_ok", "nested_fail_caught", "nested_load", "park_B_ok", "park_B_fail"]  # the outer save can go on afterwards
HOOK_ACTIONS_FATAL = ["nested_fail_propagates", "nested_w_existing"]  # the exception of the nested save leaves the outer save
GRAPHS = ["attrs", "arrays", "tensors", "nested", "containers", "mixed_all"]
# Target spelling: how the same target is named in the call. zip: the path given ends in ".zip", or an extension-less
# path P is given with store="zip" (the library appends ".zip": the EFFECTIVE target is P.zip and P itself is a sibling
# holding nothing / an unrelated complete directory-store object / a plain file); both stores: str or pathlib.Path.
# The first entry of each list is the baseline spelling.
SPELLINGS = {
    "zip": ["suffixed-str-dirstore", "suffixed-Path-dirstore", "bare-str-absent", "bare-str-dirstore", "bare-str-file", "bare-Path-dirstore"],
    "dir": ["str", "Path"],
}

# Target NAMES: what the last path component looks like and how the path is written. `store_arg` is what is passed as
# store=, `kind` is the store the documentation promises for it ('.zip' extension => zip archive, anything else => a
# directory), `effective` is the one path a successful save may create or replace. `may_refuse`: the library refuses
# directory targets that have an extension; that is accepted, but then the refusal is judged like any failed save.
# Every case gets NEIGHBOURS (unrelated complete saves) at every name a sloppy normalisation of the name could collide
# with: un-suffixed name, doubled suffix, trailing '.', 'z', 'i', 'p' characters stripped (+ ".zip"), last extension dropped.
NAMES = {
    # --- zip archives, store="zip"
    "z-tip": {"kind": "zip", "store_arg": "zip", "given": "tip.zip", "effective": "tip.zip"},
    "z-roi": {"kind": "zip", "store_arg": "zip", "given": "roi.zip", "effective": "roi.zip"},
    "z-tmp": {"kind": "zip", "store_arg": "zip", "given": "tmp.zip", "effective": "tmp.zip"},
    "z-dot": {"kind": "zip", "store_arg": "zip", "given": "x..zip", "effective": "x..zip"},
    "z-double": {"kind": "zip", "store_arg": "zip", "given": "a.zip.zip", "effective": "a.zip.zip"},
    "z-upper": {"kind": "zip", "store_arg": "zip", "given": "o.ZIP", "effective": "o.ZIP.zip"},
    "z-space": {"kind": "zip", "store_arg": "zip", "given": "my data.zip", "effective": "my data.zip"},
    "z-nonascii": {"kind": "zip", "store_arg": "zip", "given": "mesure_\u00e9.zip", "effective": "mesure_\u00e9.zip"},
    "z-dots": {"kind": "zip", "store_arg": "zip", "given": "v1.2.zip", "effective": "v1.2.zip"},
    "z-bare-tip": {"kind": "zip", "store_arg": "zip", "given": "tip", "effective": "tip.zip"},
    "z-bare-dots": {"kind": "zip", "store_arg": "zip", "given": "v1.2", "effective": "v1.2.zip"},
    "z-relative": {"kind": "zip", "store_arg": "zip", "given": "roi.zip", "effective": "roi.zip", "rel": True},
    "z-auto": {"kind": "zip", "store_arg": "auto", "given": "tip.zip", "effective": "tip.zip"},
    # --- directory stores
    "d-tip": {"kind": "dir", "store_arg": "dir", "given": "tip", "effective": "tip"},
    "d-roi": {"kind": "dir", "store_arg": "dir", "given": "roi", "effective": "roi"},
    "d-tmp": {"kind": "dir", "store_arg": "dir", "given": "tmp", "effective": "tmp"},
    "d-space": {"kind": "dir", "store_arg": "dir", "given": "my data", "effective": "my data"},
    "d-nonascii": {"kind": "dir", "store_arg": "dir", "given": "mesure_\u00e9", "effective": "mesure_\u00e9"},
    # "roi/" does not name a plain FILE called roi (POSIX: ENOTDIR, os.path.exists is False), so with that pre-state
    # the library cannot remove it in mode 'o' and the save fails (HEAD: FileExistsError from makedirs, nothing changed);
    # accepted as a refusal and judged like any failed save
    "d-slash": {"kind": "dir", "store_arg": "dir", "given": "roi/", "effective": "roi", "may_refuse_pre": ["file"]},
    "d-relative": {"kind": "dir", "store_arg": "dir", "given": "roi", "effective": "roi", "rel": True},
    "d-auto": {"kind": "dir", "store_arg": "auto", "given": "tip", "effective": "tip"},
    "d-dots": {"kind": "dir", "store_arg": "dir", "given": "v1.2", "effective": "v1.2", "may_refuse": True},
    "d-upper": {"kind": "dir", "store_arg": "dir", "given": "o.ZIP", "effective": "o.ZIP", "may_refuse": True},
    "d-auto-upper": {"kind": "dir", "store_arg": "auto", "given": "o.ZIP", "effective": "o.ZIP", "may_refuse": True},
    "d-enddot": {"kind": "dir", "store_arg": "dir", "given": "x.", "effective": "x.", "may_refuse": True},
}
PTYPES = ["str", "Path"]

# Edge PRE-STATES of the target (besides absent / old / file / directory): existing paths with (almost) no content, and
# symlinks. In mode 'w' an existing target of any kind makes save() refuse and stays byte-identical. A dangling
# symlink is an existing path: refused in mode 'w' (link untouched), replaced by the store in mode 'o'; nothing may ever
# appear at the name it points to, and after the link is gone a failing mode-'o' save is judged like pre-state absent.
# A symlink to an (empty) directory is refused in mode 'w' and cannot be removed in mode 'o' (rmtree refuses symlinks;
# the property is silent, this is what the library does): both are failed saves that change nothing.
EDGE_PRES = ["emptydir", "emptyfile", "dir_emptysub", "symlink_dangling", "symlink_emptydir"]
# GLOBAL MODES of the process while save() runs (the default mode is the rest of the lattice)
GMODES = ["warnings_error", "cwd_elsewhere", "no_grad"]


def neighbour_names(effective, given):
    """Names a wrong normalisation of the target name could hit instead of (or besides) the effective target."""
    out = set()
    for n in {effective, given.rstrip("/")}:
        base = n[:-4] if n.lower().endswith(".zip") else n
        out |= {
            base,  # un-suffixed
            n + ".zip",  # doubled suffix
            base + ".zip",
            base.rstrip(".zip") + ".zip",  # trailing '.', 'z', 'i', 'p' characters stripped
            n.rstrip(".zip") + ".zip",
            base.rstrip(".zip"),
            os.path.splitext(base)[0],  # last extension dropped
            os.path.splitext(base)[0] + ".zip",
            n.lower(),
        }
    out -= {effective, "", ".", "..", ".zip"}
    return sorted(out)


# ----------------------------------------------------------------------------- test classes (module level: load() imports them)
class C08Top(AutoSerialize):
    pass


class C08Inner(AutoSerialize):
    pass


class C08Deep(AutoSerialize):
    pass


class C08Old(AutoSerialize):
    pass


class C08Poison:
    """A value the serializer cannot handle: it reaches the pickling fallback and pickling raises."""

    fired = 0

    def __init__(self, exc_name):
        self.exc_name = exc_name

    def __reduce_ex__(self, protocol):
        C08Poison.fired += 1
        raise POISON_EXC[self.exc_name](f"C08 poison value cannot be pickled ({self.exc_name})")

    def __reduce__(self):
        return self.__reduce_ex__(2)


class C08Nested(AutoSerialize):
    pass


_HOOK_ENV = {}


class C08Hook:
    """Reaches the pickling fallback; while being pickled it runs another save / load (re-entrancy), then pickles as the
    string "hooked"."""

    def __init__(self, action):
        self.action = action

    def __reduce_ex__(self, protocol):
        env = _HOOK_ENV
        env["runs"] = env.get("runs", 0) + 1
        if env["runs"] == 1:
            r = env.get("rec")
            if r is not None:
                env["hook_at"] = r.n
            try:
                _hook_action(self.action, env)
            finally:
                if r is not None:
                    env["hook_end"] = r.n
        return (str, ("hooked",))

    def __reduce__(self):
        return self.__reduce_ex__(2)


def build_nested(seed, failing=False):
    r = _rng(seed, 77)
    o = C08Nested()
    o.n_a = 5
    o.n_arr = r.normal(size=3)
    o.n_s = "nested"
    if failing:
        o.n_zz = C08Poison("PicklingError")  # last attribute: the nested save fails part-way
    return o


def _hook_action(action, env):
    nt, store, seed = env["nested_target"], env["store"], env["seed"]
    if action == "nested_ok":
        env["nested"] = "started"
        build_nested(seed).save(nt, mode="w", store=store)
        env["nested"] = "ok"
    elif action in ("nested_fail_caught", "nested_fail_propagates"):
        env["nested"] = "started"
        try:
            build_nested(seed, failing=True).save(nt, mode="w", store=store)
            env["nested"] = "ok"
        except pickle.PicklingError:
            env["nested"] = "raised"
            if action == "nested_fail_propagates":
                raise
    elif action == "nested_w_existing":
        env["nested"] = "existing"
        build_nested(seed).save(nt, mode="w", store=store)  # refused: FileExistsError leaves the outer save
    elif action == "nested_load":
        load(env["other"])
        env["nested"] = "loaded"
    elif action.startswith("park"):
        env["ev_parked"].set()
        if not env["ev_go"].wait(60):
            raise RuntimeError("C08 harness: thread A was never resumed")
    else:
        raise ValueError(action)


def build_hooked(seed, action, resolved=False):
    r = _rng(seed, 55)
    t = C08Top()
    t.a = 1
    t.arr = r.normal(size=3)
    t.hook = "hooked" if resolved else C08Hook(action)
    t.b = "after"
    t.arr2 = r.integers(1, 9, size=4)
    t.last = 2
    return t


def _rng(seed, *key):
    return np.random.default_rng([int(seed), 8] + [int(k) for k in key])


def build_graph(name, seed):
    """Fresh object graph. Values are restricted to types that round-trip exactly (C01 is a different property)."""
    gi = GRAPHS.index(name)
    r = _rng(seed, gi)
    t = C08Top()
    if name == "attrs":
        t.a = int(r.integers(-50, 50))
        t.b = float(np.round(r.normal(), 6))
        t.c = "text"
        t.d = True
        t.e = None
    elif name == "arrays":
        t.x = r.normal(size=(2, 3))
        t.y = r.integers(-9, 9, size=4)
        t.z = np.zeros((0, 3))
        t.w = (r.normal(size=3) + 1j * r.normal(size=3)).astype(np.complex64)
    elif name == "tensors":
        t.t = torch.from_numpy(r.normal(size=3).astype(np.float32))
        t.raw = bytes(r.integers(0, 256, size=9, dtype=np.uint8).tolist())
        t.g = torch.from_numpy(r.normal(size=(2, 2))).requires_grad_(True)
        t.c = complex(1.5, -2.0)
    elif name == "nested":
        d = C08Deep()
        d.q = 1.5
        d.m = r.normal(size=2)
        i = C08Inner()
        i.a = 1
        i.arr = r.integers(0, 5, size=3)
        i.deep = d
        t.x = 3
        t.inner = i
        t.after = "z"
    elif name == "containers":
        t.lst = [r.normal(size=2), "s", 3]
        t.tup = (1, 2, 3)
        t.dct = {"k": r.normal(size=3), "n": 4, "sub": [1.5, "x"]}
        t.nums = [1.0, 2.0]
    elif name == "mixed_all":
        i = C08Inner()
        i.a = 1
        i.arr = r.integers(0, 5, size=3)
        j = C08Deep()
        j.q = "in a list"
        t.x = 3
        t.arr = r.normal(size=4)
        t.inner = i
        t.lst = [r.normal(size=2), "s", j]
        t.t = torch.from_numpy(r.normal(size=2).astype(np.float32))
        t.raw = b"xyz\x00"
        t.d = {"a": r.integers(0, 9, size=2), "b": (1.5, "y")}
        t.last = 9
    else:
        raise ValueError(name)
    return t


def build_old(seed):
    r = _rng(seed, 99)
    o = C08Old()
    o.old_a = 1
    o.old_arr = r.normal(size=5)
    o.old_list = ["x", 2.5]
    return o


# ----------------------------------------------------------------------------- positions (family i)
def _is_as(v):
    return isinstance(v, AutoSerialize)


def positions(node, prefix=()):
    """Every attribute / element position at every nesting level, in the order save() visits them."""
    out = []
    if _is_as(node):
        for name, v in vars(node).items():
            p = prefix + (("a", name),)
            out.append(p)
            out += positions(v, p)
    elif isinstance(node, (list, tuple)):
        for i, v in enumerate(node):
            p = prefix + (("i", i),)
            out.append(p)
            out += positions(v, p)
    elif isinstance(node, dict):
        for k, v in node.items():
            p = prefix + (("k", k),)
            out.append(p)
            out += positions(v, p)
    return out


def replace_at(node, path, new):
    if not path:
        return new
    kind, key = path[0]
    rest = path[1:]
    if kind == "a":
        setattr(node, key, replace_at(getattr(node, key), rest, new))
        return node
    if kind == "i":
        key = int(key)
        if isinstance(node, tuple):
            return tuple(replace_at(v, rest, new) if j == key else v for j, v in enumerate(node))
        node[key] = replace_at(node[key], rest, new)
        return node
    if kind == "k":
        node[key] = replace_at(node[key], rest, new)
        return node
    raise ValueError(path)


def path_str(path):
    s = "obj"
    for kind, key in path:
        s += f".{key}" if kind == "a" else f"[{key!r}]"
    return s


# ----------------------------------------------------------------------------- structural equality (own helper)
def struct_diff(got, exp, where="obj"):
    """None when `got` is structurally equal to `exp`, else a one-line description of the first difference."""
    if _is_as(got) or _is_as(exp):
        if type(got) is not type(exp):
            return f"{where}: class {type(got).__name__} != {type(exp).__name__}"
        kg, ke = set(vars(got)), set(vars(exp))
        if kg != ke:
            return f"{where}: attribute names differ, missing {sorted(ke - kg)} extra {sorted(kg - ke)}"
        for k in sorted(ke):
            d = struct_diff(getattr(got, k), getattr(exp, k), f"{where}.{k}")
            if d:
                return d
        return None
    if isinstance(exp, torch.Tensor) or isinstance(got, torch.Tensor):
        if not (isinstance(exp, torch.Tensor) and isinstance(got, torch.Tensor)):
            return f"{where}: type {type(got).__name__} != {type(exp).__name__}"
        if got.dtype != exp.dtype or tuple(got.shape) != tuple(exp.shape) or got.requires_grad != exp.requires_grad:
            return f"{where}: tensor meta {got.dtype}{tuple(got.shape)} grad={got.requires_grad} != {exp.dtype}{tuple(exp.shape)} grad={exp.requires_grad}"
        return None if torch.equal(got.detach(), exp.detach()) else f"{where}: tensor values differ"
    if isinstance(exp, np.ndarray) or isinstance(got, np.ndarray):
        if not (isinstance(exp, np.ndarray) and isinstance(got, np.ndarray)):
            return f"{where}: type {type(got).__name__} != {type(exp).__name__}"
        if got.dtype != exp.dtype or got.shape != exp.shape:
            return f"{where}: array meta {got.dtype}{got.shape} != {exp.dtype}{exp.shape}"
        return None if np.array_equal(got, exp) else f"{where}: array values differ"
    if type(got) is not type(exp):
        return f"{where}: type {type(got).__name__} != {type(exp).__name__}"
    if isinstance(exp, dict):
        kg, ke = set(got), set(exp)
        if kg != ke:
            return f"{where}: dict keys differ, missing {sorted(map(str, ke - kg))} extra {sorted(map(str, kg - ke))}"
        for k in sorted(ke, key=str):
            d = struct_diff(got[k], exp[k], f"{where}[{k!r}]")
            if d:
                return d
        return None
    if isinstance(exp, (list, tuple)):
        if len(got) != len(exp):
            return f"{where}: length {len(got)} != {len(exp)}"
        for i, (a, b) in enumerate(zip(got, exp)):
            d = struct_diff(a, b, f"{where}[{i}]")
            if d:
                return d
        return None
    return None if got == exp else f"{where}: {got!r} != {exp!r}"


# ----------------------------------------------------------------------------- recursive content hash
def tree_hash(path):
    """Type + permission bits + names + bytes of everything below `path` (no timestamps)."""
    if not os.path.lexists(path):
        return "absent"
    h = hashlib.blake2b(digest_size=12)

    def rec(p, rel):
        st = os.lstat(p)
        perm = stat.S_IMODE(st.st_mode)
        if stat.S_ISLNK(st.st_mode):
            h.update(f"L|{rel}|{os.readlink(p)}\n".encode())
        elif stat.S_ISDIR(st.st_mode):
            h.update(f"D|{rel}|{perm:o}\n".encode())
            for name in sorted(os.listdir(p)):
                rec(os.path.join(p, name), f"{rel}/{name}")
        else:
            with open(p, "rb") as f:
                data = f.read()
            h.update(f"F|{rel}|{perm:o}|{len(data)}|".encode())
            h.update(hashlib.blake2b(data, digest_size=12).digest())

    rec(path, "")
    return h.hexdigest()


def snapshot_dir(parent, exclude):
    if not os.path.isdir(parent):
        return {"<parent directory>": "absent"}
    exclude = {exclude} if isinstance(exclude, str) else set(exclude)
    return {n: tree_hash(os.path.join(parent, n)) for n in sorted(os.listdir(parent)) if n not in exclude}


def snapshot_delta(before, after):
    out = []
    for n in sorted(set(before) | set(after)):
        if n not in after:
            out.append(f"removed {n!r}")
        elif n not in before:
            out.append(f"created {n!r}")
        elif before[n] != after[n]:
            out.append(f"changed {n!r}")
    return ", ".join(out)


# ----------------------------------------------------------------------------- interception (third-party seams only)
def _resolve(dotted):
    import importlib

    parts = dotted.split(".")
    for cut in range(len(parts), 0, -1):
        try:
            obj = importlib.import_module(".".join(parts[:cut]))
        except Exception:
            continue
        try:
            for p in parts[cut:]:
                obj = getattr(obj, p)
        except AttributeError:
            return None
        return obj
    return None


def _zip_ours(rec, self, *a, **k):
    """Only archives below this execution's directory count (a ZipFile of an earlier execution that is finalised
    late by the garbage collector must not shift the numbering)."""
    fn = getattr(self, "filename", None)
    return not (rec.root and isinstance(fn, str) and not os.path.abspath(fn).startswith(rec.root + os.sep))


def _zip_open_ours(rec, self, *a, **k):
    # close() on an already closed archive (e.g. from __del__) writes nothing and is not an effect
    return getattr(self, "fp", None) is not None and _zip_ours(rec, self)


SEAM_CANDIDATES = [
    # (owner, attribute, tag, guard)
    ("zarr", "group", "zarr.group", None),
    ("zarr.Group", "create_array", "Group.create_array", None),
    ("zarr.Group", "require_group", "Group.require_group", None),
    ("zarr.Group", "create_group", "Group.create_group", None),
    ("zarr.core.attributes.Attributes", "__setitem__", "attrs.__setitem__", None),
    ("zarr.core.attributes.Attributes", "put", "attrs.put", None),
    ("zarr.Array", "__setitem__", "Array.__setitem__", None),
    ("zipfile.ZipFile", "write", "ZipFile.write", _zip_ours),
    ("zipfile.ZipFile", "writestr", "ZipFile.writestr", _zip_ours),
    ("zipfile.ZipFile", "close", "ZipFile.close", _zip_open_ours),
]


def find_seams():
    """The candidates that exist in the installed libraries: list of (owner object, attr, tag, guard, original)."""
    found = []
    for owner_name, attr, tag, guard in SEAM_CANDIDATES:
        owner = _resolve(owner_name)
        if owner is None:
            continue
        d = vars(owner)
        if attr not in d or not callable(getattr(owner, attr, None)):
            continue
        found.append((owner, attr, tag, guard, d[attr]))
    return found


class Recorder:
    def __init__(self, k=None, exc=None, root=None):
        self.root = root
        self.k = k
        self.exc = exc
        self.n = 0
        self.log = []
        self.fired = None
        self.depth = 0
        self.tid = threading.get_ident()

    def wrap(self, orig, tag, guard):
        rec = self

        def wrapper(*a, **kw):
            if rec.depth or threading.get_ident() != rec.tid or (guard is not None and not guard(rec, *a, **kw)):
                return orig(*a, **kw)
            idx = rec.n
            rec.n += 1
            rec.log.append(tag)
            if rec.k is not None and idx == rec.k:
                rec.fired = tag
                raise rec.exc(f"C08 injected fault at write effect {idx} ({tag})")
            rec.depth += 1
            try:
                return orig(*a, **kw)
            finally:
                rec.depth -= 1

        wrapper.__name__ = getattr(orig, "__name__", "wrapper")
        return wrapper


@contextlib.contextmanager
def intercepted(rec):
    seams = find_seams()
    try:
        for owner, attr, tag, guard, orig in seams:
            setattr(owner, attr, rec.wrap(orig, tag, guard))
        yield rec
    finally:
        for owner, attr, tag, guard, orig in seams:
            setattr(owner, attr, orig)


# ----------------------------------------------------------------------------- one execution
_STATE = {"n": 0, "tpl": {}}


def _quiet_save(obj, path, gmode=None, elsewhere=None, **kw):
    """save() with stdout swallowed, under the requested global mode of the process."""
    with contextlib.redirect_stdout(io.StringIO()), warnings.catch_warnings():
        warnings.simplefilter("error" if gmode == "warnings_error" else "ignore")  # -W error / PYTHONWARNINGS=error
        if gmode == "no_grad":
            with torch.no_grad():
                obj.save(path, **kw)
        elif gmode == "cwd_elsewhere":
            cwd = os.getcwd()
            os.chdir(elsewhere)
            try:
                obj.save(path, **kw)
            finally:
                os.chdir(cwd)
        else:
            obj.save(path, **kw)


def _quiet_load(path):
    with contextlib.redirect_stdout(io.StringIO()), warnings.catch_warnings():
        warnings.simplefilter("ignore")
        return load(path)


def _worker_base(scratch):
    base = os.path.join(scratch, f"c08-p{os.getpid()}")
    os.makedirs(base, exist_ok=True)
    return base


def _template(scratch, seed, store):
    """A complete earlier save of the OLD object, written once per process and copied into each case."""
    key = (os.getpid(), int(seed), store)
    p = _STATE["tpl"].get(key)
    if p is None or not os.path.lexists(p):
        d = os.path.join(_worker_base(scratch), f"tpl-{seed}")
        os.makedirs(d, exist_ok=True)
        p = os.path.join(d, "old.zip" if store == "zip" else "old")
        if os.path.isdir(p):
            shutil.rmtree(p)
        elif os.path.lexists(p):
            os.remove(p)
        _quiet_save(build_old(seed), p, mode="w", store=store)
        _STATE["tpl"][key] = p
    return p


def _copy(src, dst):
    if os.path.isdir(src):
        shutil.copytree(src, dst)
    else:
        shutil.copyfile(src, dst)


def _write(path, data):
    with open(path, "wb") as f:
        f.write(data)


def _cls(relation, case):
    return {
        "relation": relation,
        "family": case["family"],
        "store": case["store"],
        "mode": case["mode"],
        "pre": case["pre"],
        "exc": case.get("exc") or "none",
        "spelling": spelling_of(case),
        "global_mode": case.get("gmode") or "default",
        "reentrant": case.get("hook") or "none",
    }


def may_refuse_case(case):
    """Cases in which a failing save without any injected fault is legitimate (it is then judged like any failed save)."""
    if case.get("hook") in HOOK_ACTIONS_FATAL:
        return True  # the nested save's exception propagates out of the outer save by construction
    if case.get("gmode") == "warnings_error":
        return True  # a save that fails because a warning became an error is one more failing save
    if case["pre"] == "symlink_emptydir":
        return True  # see EDGE_PRES
    if "name" not in case:
        return False
    e = NAMES[case["name"]]
    return bool(e.get("may_refuse")) or (case["pre"] in e.get("may_refuse_pre", ()) and case.get("ptype", "str") == "str")


def spelling_of(case):
    if "name" in case:
        return f"name:{case['name']}-{case.get('ptype', 'str')}"
    return case.get("spell") or SPELLINGS[case["store"]][0]


def run_case(case, seed, scratch, verbose=False):
    """Execute one point. Returns (record, fails) with fails = [(cls, msg)]."""
    fam, gname, store, mode, pre = case["family"], case["graph"], case["store"], case["mode"], case["pre"]
    _STATE["n"] += 1
    cdir = os.path.join(_worker_base(scratch), f"case{_STATE['n']}")
    parent = os.path.join(cdir, "parent")
    tmpd = os.path.join(cdir, "tmp")
    os.makedirs(parent)
    os.makedirs(tmpd)
    spell = spelling_of(case)
    entry = NAMES[case["name"]] if "name" in case else None
    neighbours, may_refuse, relative, store_arg = [], may_refuse_case(case), False, store
    gmode = case.get("gmode")
    extras = []  # names that belong to the target (the directory a symlinked target points to)
    link_dest = []  # where a dangling symlink at the target points to
    hook = case.get("hook")
    nname = ("nested.zip" if store == "zip" else "nested") if hook else None
    watch_excl = [nname] if hook else []  # the nested save's own target: judged separately
    elsewhere = os.path.join(cdir, "cwd")
    os.makedirs(elsewhere)
    if entry is not None:
        # target-name alphabet: `store` is the kind of store the documentation promises for this name
        tname = entry["effective"]
        target = os.path.join(parent, tname)
        ptype, stem = case.get("ptype", "str"), None
        relative = bool(entry.get("rel"))
        given = entry["given"] if relative else os.path.join(parent, entry["given"])
        neighbours = neighbour_names(tname, entry["given"])
        store_arg = entry["store_arg"]
    else:
        tname = "o.zip" if store == "zip" else "o"
        target = os.path.join(parent, tname)  # the EFFECTIVE target: every oracle is about this path
        if store == "zip":
            ext, ptype, stem = spell.split("-")
            given = target if ext == "suffixed" else os.path.join(parent, "o")
        else:
            ext, ptype, stem = "bare", spell, None
            given = target
    arg = pathlib.Path(given) if ptype == "Path" else given
    saved_cwd = os.getcwd()
    fails = []
    rec = {"fired": False}
    saved_tempdir = tempfile.tempdir
    saved_env = os.environ.get("TMPDIR")
    try:
        tpl_zip = _template(scratch, seed, "zip")
        tpl_dir = _template(scratch, seed, "dir")
        # ---- siblings: the same-stem path of the other store kind, look-alike names, a file, a directory, a hidden file
        if entry is not None:
            # unrelated complete saves at every name the target name could be confused with
            for nb in neighbours:
                _copy(tpl_zip if nb.endswith(".zip") else tpl_dir, os.path.join(parent, nb))
        elif store == "zip":
            # the un-suffixed path next to the archive is NOT the target, whatever spelling is used
            if stem == "dirstore":
                _copy(tpl_dir, os.path.join(parent, "o"))
            elif stem == "file":
                _write(os.path.join(parent, "o"), b"plain file at the extension-less path\n")
            elif stem != "absent":
                raise ValueError(spell)
        else:
            _copy(tpl_zip, os.path.join(parent, "o.zip"))
        _write(os.path.join(parent, tname + ".tmp"), b"sibling tmp look-alike")
        os.makedirs(os.path.join(parent, tname + ".bak"))
        _write(os.path.join(parent, tname + ".bak", "keep.bin"), b"\x00\x01\x02")
        _write(os.path.join(parent, "notes.txt"), b"sibling file")
        os.makedirs(os.path.join(parent, "sub", "deeper"))
        _write(os.path.join(parent, "sub", "deeper", "data.bin"), bytes(range(32)))
        _write(os.path.join(parent, ".hidden"), b"h")
        _copy(tpl_zip if store == "zip" else tpl_dir, os.path.join(parent, "other.zip" if store == "zip" else "other"))
        # ---- pre-state of the target
        if pre == "old":
            _copy(tpl_zip if store == "zip" else tpl_dir, target)
        elif pre == "file":
            _write(target, b"plain file, not an archive\n" * 3)
        elif pre == "directory":
            os.makedirs(os.path.join(target, "inside"))
            _write(os.path.join(target, "inside", "f.txt"), b"plain directory, not a store")
            _write(os.path.join(target, "top.txt"), b"t")
        elif pre == "emptydir":
            os.makedirs(target)
        elif pre == "emptyfile":
            _write(target, b"")
        elif pre == "dir_emptysub":
            os.makedirs(os.path.join(target, "empty"))
        elif pre == "symlink_dangling":
            # the destination is NOT part of the target: nothing may ever appear there (it is watched as a sibling name)
            link_dest = ["ghost.zip" if store == "zip" else "ghost"]
            os.symlink(link_dest[0], target)
        elif pre == "symlink_emptydir":
            extras = ["realdir"]
            os.makedirs(os.path.join(parent, "realdir"))
            os.symlink("realdir", target)
        elif pre != "absent":
            raise ValueError(pre)
        link0 = os.readlink(target) if os.path.islink(target) else None

        def target_hash():
            return "+".join(tree_hash(os.path.join(parent, n)) for n in [tname] + extras)

        def siblings():
            d = snapshot_dir(parent, [tname] + extras + watch_excl)
            d["<other working directory>"] = tree_hash(elsewhere)
            return d

        # ---- the object to save
        def expected_new():
            return build_hooked(seed, hook, resolved=True) if hook else build_graph(gname, seed)

        obj = build_hooked(seed, hook) if hook else build_graph(gname, seed)
        if hook:
            ntarget = os.path.join(parent, nname)
            if hook == "nested_w_existing":
                _copy(tpl_zip if store == "zip" else tpl_dir, ntarget)
            _HOOK_ENV.clear()
            _HOOK_ENV.update(nested_target=ntarget, store=store, seed=seed, other=os.path.join(parent, "other.zip" if store == "zip" else "other"))
            nt0 = tree_hash(ntarget)
        poison_before = C08Poison.fired
        if fam == "seamfree":
            path = tuple((k, v) for k, v in case["path"])
            obj = replace_at(obj, path, C08Poison(case["exc"]))
        tempfile.tempdir = tmpd
        os.environ["TMPDIR"] = tmpd
        if relative:
            os.chdir(parent)  # restored in the finally block below
        h_target0 = target_hash()
        sib0 = siblings()
        tmp0 = tree_hash(tmpd)
        # ---- save
        raised = None
        r = None
        if fam in ("injected", "record") or hook:
            r = Recorder(case.get("k"), INJ_EXC[case["exc"]] if case.get("exc") else None, root=os.path.abspath(cdir))
            if hook:
                _HOOK_ENV["rec"] = r
            if hook and hook.startswith("park"):
                # pinned interleaving: thread A (the outer save, the one that is recorded / faulted) parks inside the hook,
                # the main thread runs save B completely, then A resumes
                ev_parked, ev_go, res = threading.Event(), threading.Event(), {}
                _HOOK_ENV.update(ev_parked=ev_parked, ev_go=ev_go)

                def run_a():
                    r.tid = threading.get_ident()
                    try:
                        _quiet_save(obj, arg, gmode=gmode, elsewhere=elsewhere, mode=mode, store=store_arg)
                    except BaseException as e:
                        res["raised"] = type(e).__name__

                with intercepted(r):
                    th = threading.Thread(target=run_a, daemon=True)
                    th.start()
                    while not ev_parked.wait(0.02) and th.is_alive():
                        pass
                    try:
                        if ev_parked.is_set():
                            _HOOK_ENV["nested"] = "started"
                            try:
                                _quiet_save(build_nested(seed, failing=hook == "park_B_fail"), ntarget, mode="w", store=store)
                                _HOOK_ENV["nested"] = "ok"
                            except pickle.PicklingError:
                                _HOOK_ENV["nested"] = "raised"
                    finally:
                        ev_go.set()
                        th.join(120)
                    if th.is_alive():
                        raise RuntimeError("C08 harness: thread A did not finish")
                raised = res.get("raised")
            else:
                with intercepted(r):  # seams are restored on exit, whatever happens (workers are long-lived)
                    try:
                        _quiet_save(obj, arg, gmode=gmode, elsewhere=elsewhere, mode=mode, store=store_arg)
                    except BaseException as e:  # the behaviour under test (incl. KeyboardInterrupt)
                        raised = type(e).__name__
            if hook:
                rec["hook_at"], rec["hook_end"], rec["nested"], rec["hook_runs"] = _HOOK_ENV.get("hook_at"), _HOOK_ENV.get("hook_end"), _HOOK_ENV.get("nested"), _HOOK_ENV.get("runs", 0)
            rec["fired"] = r.fired is not None
            rec["effects_seen"] = r.n
            rec["log"] = list(r.log)
            rec["effect"] = r.fired
        else:
            try:
                _quiet_save(obj, arg, gmode=gmode, elsewhere=elsewhere, mode=mode, store=store_arg)
            except BaseException as e:
                raised = type(e).__name__
            rec["fired"] = C08Poison.fired > poison_before
        h_target1 = target_hash()
        sib1 = siblings()
        target_gone = not any(os.path.lexists(os.path.join(parent, n)) for n in [tname] + extras)
        tmp1 = tree_hash(tmpd)
        rec["raised"] = raised
        # ---- judge: other paths
        if sib0 != sib1:
            fails.append((_cls("no_other_path_altered", case), f"{describe(case)}: save() {'raised ' + raised if raised else 'returned'} and paths other than the target changed in the parent directory: {snapshot_delta(sib0, sib1)}; expected every sibling byte-identical"))
        if tmp0 != tmp1:
            left = sorted(os.listdir(tmpd)) if os.path.isdir(tmpd) else "<temp dir removed>"
            fails.append((_cls("no_temp_entry_leaked", case), f"{describe(case)}: save() {'raised ' + raised if raised else 'returned'} and the private temp directory is not as before: left behind {left}; expected it unchanged (empty)"))
        # ---- judge: the target
        expect_refusal = mode == "w" and pre != "absent"
        if mode == "w" and link0 is not None and (not os.path.islink(target) or os.readlink(target) != link0):
            fails.append((_cls("write_once_existing_path_not_destroyed", case), f"{describe(case)}: mode 'w' and the target path exists as a symlink -> {link0!r}; save() {'raised ' + raised if raised else 'returned'} and afterwards the link is {'gone' if not os.path.lexists(target) else 'replaced'}; expected the existing path to survive a write-once save"))
        if expect_refusal:
            state = "unchanged" if h_target1 == h_target0 else "MODIFIED"
            if h_target1 != h_target0:
                fails.append((_cls("write_once_target_unmodified", case), f"{describe(case)}: mode 'w' on an existing target ({pre}); save() {'raised ' + raised if raised else 'returned'} and the target's content hash changed {h_target0} -> {h_target1}; expected byte-identical"))
            if raised is None:
                fails.append((_cls("write_once_refuses", case), f"{describe(case)}: mode 'w' on an existing target ({pre}): save() returned normally; expected a refusal (exception)"))
        elif raised is None:
            # save claims success: it created or replaced exactly its effective target, and the complete new object is there
            if sib0 != sib1 or target_gone or (h_target1 == h_target0 and fam != "seamfree"):
                what = [snapshot_delta(sib0, sib1)] if sib0 != sib1 else []
                what.append(f"effective target {tname!r} " + ("absent" if target_gone else "unchanged" if h_target1 == h_target0 else "written"))
                fails.append((_cls("successful_save_writes_exactly_its_target", case), f"{describe(case)}: save() returned normally; listing of the parent directory before/after: {'; '.join(what)}; expected exactly one created or replaced entry, {tname!r}"))
            if fam == "seamfree":
                state = "returned_with_poison"
            else:
                try:
                    got = _quiet_load(target)
                    d = struct_diff(got, expected_new())
                    state = "loads_complete_new" if d is None else "WRONG_AFTER_SUCCESS"
                    if d is not None:
                        fails.append((_cls("successful_save_round_trips", case), f"{describe(case)}: save() returned normally but load(target) differs from the saved object: {d}"))
                except Exception as e:
                    state = "UNREADABLE_AFTER_SUCCESS"
                    fails.append((_cls("successful_save_round_trips", case), f"{describe(case)}: save() returned normally but load(target) raised {type(e).__name__}: {str(e)[:200]}"))
        else:
            if fam in ("control", "record") and not may_refuse:
                fails.append((_cls("no_fault_save_succeeds", case), f"{describe(case)}: nothing was injected and the target is {'absent' if pre == 'absent' else 'to be overwritten (mode o)'}, but save() raised {raised}; expected success"))
            if not os.path.lexists(target):
                state = "absent"
            else:
                try:
                    got = _quiet_load(target)
                except Exception as e:
                    got = None
                    state = f"unreadable:{type(e).__name__}"
                if got is not None:
                    new = expected_new()
                    d_old = struct_diff(got, build_old(seed))
                    d_new = struct_diff(got, new)
                    if d_old is None and pre == "old":
                        state = "loads_old_complete"
                    elif d_new is None:
                        state = "loads_new_complete"
                    else:
                        state = "LOADS_PARTIAL"
                        have = sorted(vars(got)) if hasattr(got, "__dict__") else repr(got)
                        fails.append(
                            (
                                _cls("no_partial_object_loadable", case),
                                f"{describe(case)}: save() raised {raised}; afterwards the target exists and load() returns a {type(got).__name__} with attributes {have} "
                                f"(complete object has {sorted(vars(new))}; first difference: {d_new}); expected target absent, unreadable, or equal to a complete save",
                            )
                        )
        if raised is not None:
            # nothing partial may be loadable where a symlinked target points to either
            for n in extras + link_dest:
                pth = os.path.join(parent, n)
                if not os.path.lexists(pth):
                    continue
                try:
                    got = _quiet_load(pth)
                except Exception:
                    continue
                new = expected_new()
                d_new = struct_diff(got, new)
                if d_new is not None and struct_diff(got, build_old(seed)) is not None:
                    state += "+PARTIAL_AT_LINK_DESTINATION"
                    have = sorted(vars(got)) if hasattr(got, "__dict__") else repr(got)
                    fails.append((_cls("no_partial_object_loadable", case), f"{describe(case)}: save() raised {raised}; the target is a symlink -> {n!r} and afterwards load({n!r}) returns a {type(got).__name__} with attributes {have} (complete object has {sorted(vars(new))}; first difference: {d_new}); expected nothing partial loadable where the save was writing"))
        if hook:
            # the nested / concurrent save's own target obeys the same oracle for ITS outcome
            nt1 = tree_hash(ntarget)
            nres = rec.get("nested")
            if hook == "nested_w_existing":
                if nt1 != nt0:
                    fails.append((_cls("write_once_target_unmodified", case), f"{describe(case)}: the nested write-once save onto the existing sibling {nname!r} changed it ({nt0} -> {nt1}); expected byte-identical"))
            elif hook != "nested_load":
                nstate, ngot = "absent", None
                if os.path.lexists(ntarget):
                    try:
                        ngot = _quiet_load(ntarget)
                        nd = struct_diff(ngot, build_nested(seed))
                        nstate = "complete" if nd is None else "PARTIAL"
                    except Exception as e:
                        nstate = f"unreadable:{type(e).__name__}"
                if nres == "ok" and nstate != "complete":
                    fails.append((_cls("completed_save_of_other_object_survives", case), f"{describe(case)}: the other save to {nname!r} returned normally, the outer save {'raised ' + raised if raised else 'returned'}; afterwards {nname!r} is {nstate}; expected it to load as the complete object it was given"))
                elif nres != "ok" and nstate == "PARTIAL":
                    fails.append((_cls("no_partial_object_loadable", case), f"{describe(case)}: the other save to {nname!r} did not complete ({nres}); afterwards load({nname!r}) returns an object with attributes {sorted(vars(ngot))} (complete: {sorted(vars(build_nested(seed)))}); expected absent, unreadable or complete"))
                state += f"|nested:{nres}:{nstate.split(':')[0]}"
        if may_refuse and raised is not None and fam in ("control", "record"):
            state = "refused:" + state
        rec["state"] = state
        if verbose:
            print(f"  {describe(case)}")
            print(f"    observed: save {'raised ' + raised if raised else 'returned normally'}; fault fired={rec['fired']}{' at ' + rec['effect'] if rec.get('effect') else ''}; target {state}; "
                  f"target hash {h_target0} -> {h_target1}; siblings {'unchanged' if sib0 == sib1 else snapshot_delta(sib0, sib1)}; temp dir {'unchanged' if tmp0 == tmp1 else 'CHANGED'}")
            print("    expected: " + ("refusal, target byte-identical" if expect_refusal else "success and exact round trip" if fam in ("control", "record") else "target absent | unreadable | complete earlier/new object") + "; siblings and temp dir unchanged")
    finally:
        os.chdir(saved_cwd)
        tempfile.tempdir = saved_tempdir
        if saved_env is None:
            os.environ.pop("TMPDIR", None)
        else:
            os.environ["TMPDIR"] = saved_env
        shutil.rmtree(cdir, ignore_errors=True)
    return rec, fails


def describe(case):
    if case["family"] == "injected":
        where = f"{case['exc']} injected at write effect {case['k']} of {case.get('n_effects', '?')}"
    elif case["family"] == "seamfree":
        where = f"value raising {case['exc']} on pickling at {path_str(case['path'])}"
    else:
        where = "no fault"
    sp = spelling_of(case)
    if "name" in case:
        e = NAMES[case["name"]]
        how = (f"path given as {case.get('ptype', 'str')} {e['given']!r} ({'relative to the working directory' if e.get('rel') else 'absolute'}) with store={e['store_arg']!r}; "
               f"effective target {e['effective']!r}; unrelated complete saves at {neighbour_names(e['effective'], e['given'])}")
    elif case["store"] == "zip":
        ext, ptype, stem = sp.split("-")
        how = f"path given as {ptype} " + ("'…/o.zip'" if ext == "suffixed" else "'…/o' (extension-less, library appends .zip; effective target o.zip)") + f", un-suffixed sibling 'o' holds {'nothing' if stem == 'absent' else 'a complete directory-store object' if stem == 'dirstore' else 'a plain file'}"
    else:
        how = f"path given as {sp}"
    hk = {
        "nested_ok": "a complete nested save of another object to the sibling 'nested'",
        "nested_fail_caught": "a nested save that fails part-way (caught by the attribute)",
        "nested_fail_propagates": "a nested save that fails part-way (exception propagates)",
        "nested_w_existing": "a nested write-once save onto the existing sibling 'nested' (FileExistsError propagates)",
        "nested_load": "a nested load of a sibling",
        "park_B_ok": "parking thread A while the main thread runs a complete save B to the sibling 'nested'",
        "park_B_fail": "parking thread A while the main thread runs a failing save B to the sibling 'nested'",
    }.get(case.get("hook"))
    if hk:
        where = f"attribute 'hook' performs {hk} while being pickled; outer save: " + where
    gm = {"warnings_error": " under warnings-as-errors", "cwd_elsewhere": " with the working directory elsewhere", "no_grad": " under torch.no_grad()"}.get(case.get("gmode"), "")
    return f"graph={case['graph']} store={case['store']} mode={case['mode']} pre={case['pre']}{gm} [{how}]: {where}"


def case_key(case):
    return [case["family"], case["graph"], case["store"], case["mode"], case["pre"], case.get("exc"), case.get("k"), case.get("path"), spelling_of(case), case.get("gmode"), case.get("hook")]


def work(case, seed=0, scratch="/tmp"):
    t = Tally()
    rec, fails = run_case(case, seed, scratch)
    refusal_expected = case["mode"] == "w" and case["pre"] != "absent"
    expect_fire = case["family"] in ("injected", "seamfree") and not refusal_expected and not may_refuse_case(case)
    t.case(key=case_key(case), nontrivial=bool(rec["fired"]), outcome=[case["family"], case["store"], spelling_of(case), case.get("gmode"), case.get("hook"), rec.get("nested"), case["mode"], case["pre"], rec["raised"], rec["state"], bool(rec["fired"])])
    t.extra[f"{case['family']}_cases"] += 1
    t.extra[f"state_{rec['state'].split('|')[0].split(':')[0]}"] += 1
    if case.get("hook"):
        t.extra["reentrant_cases"] += 1
        if rec.get("hook_runs"):
            t.extra["reentrant_hook_ran"] += 1
        if rec.get("nested") == "ok":
            t.extra["reentrant_other_save_completed"] += 1
    if case.get("exc") in EXC_TYPES and case["family"] == "injected":
        t.extra["exception_type_cases"] += 1
    if rec["fired"]:
        t.extra[f"{case['family']}_faults_fired"] += 1
    elif expect_fire:
        t.extra["expected_fault_did_not_fire"] += 1
    if case["family"] == "record" and rec.get("effects_seen") != case.get("n_effects"):
        t.extra["effect_count_differs_for_spelling"] += 1
    if "spell" in case:
        t.extra["non_baseline_spelling_cases"] += 1
    if "name" in case:
        t.extra["target_name_cases"] += 1
        if rec["state"].startswith("refused"):
            t.extra["target_name_refusals_of_extension_directories"] += 1
    if case.get("gmode"):
        t.extra[f"global_mode_{case['gmode']}_cases"] += 1
        if rec["fired"]:
            t.extra[f"global_mode_{case['gmode']}_faults_fired"] += 1
    if case["pre"] in EDGE_PRES:
        t.extra["edge_pre_state_cases"] += 1
    if case["family"] in ("injected", "seamfree") and refusal_expected:
        t.extra["write_once_refusals_checked"] += 1
        if rec["fired"]:
            t.extra["fault_fired_in_write_once_refusal"] += 1
    for cls, msg in fails:
        t.fail(cls, case, msg)
    # a few written-out cases for the evidence (one mid-sequence fault per store of the simplest graphs, one nested
    # seam-free position, one write-once refusal)
    want = False
    if case["pre"] == "old" and case["graph"] in ("attrs", "nested"):
        if case["family"] == "injected" and case["exc"] == "OSError":
            want = (case["mode"] == "o" and case["k"] == case["n_effects"] // 2) or (case["mode"] == "w" and case["k"] == 0 and case["graph"] == "attrs")
        elif case["family"] == "seamfree" and case["mode"] == "o":
            want = len(case["path"]) >= 2 and case["graph"] == "nested" and case["path"][-1][1] == "q"
    if "name" in case:
        want = case["family"] == "control" and case["graph"] == "attrs" and case["pre"] == "old" and case["mode"] == "o" and case.get("ptype") == "str" and case["name"] in ("z-tip", "d-dots")
    if "spell" in case:
        want = case["family"] == "injected" and case["graph"] == "arrays" and case["pre"] == "old" and case["spell"] == "bare-str-dirstore" and case["k"] == case["n_effects"] - 1
    if want:
        t.sample({"case": describe(case), "fault_fired": bool(rec["fired"]), "at_effect": rec.get("effect"), "save": f"raised {rec['raised']}" if rec["raised"] else "returned", "target_after": rec["state"]}, cap=1)
    return t


# ----------------------------------------------------------------------------- enumeration
def record_effects(ctx, graph, store):
    case = {"family": "record", "graph": graph, "store": store, "mode": "w", "pre": "absent", "exc": None, "k": None}
    rec, fails = run_case(case, ctx.seed, ctx.scratch)
    for cls, msg in fails:
        ctx.fail(cls, case, msg)
    ctx.case(key=case_key(case), nontrivial=False, outcome=["record", store, rec["raised"], rec["state"]])
    return rec["log"], rec


def run(ctx):
    ctx.assume(
        "faults are Python exceptions raised at a third-party write call before the write happens; process death and torn writes are outside the property",
        "symlinked targets: a dangling link is an existing path (refused in mode 'w', replaced in mode 'o', its destination never created); a link to a directory is refused in both modes (what the library does; the property is silent)",
        "under warnings-as-errors a save may fail without any injected fault (third-party warnings); it is then judged like every other failing save",
        "a target that loads to the COMPLETE new object after save() raised (possible only for a fault at the very last effect) is not a partial object and is accepted",
        "object values are restricted to types that round-trip exactly (round-trip fidelity is property C01)",
    )
    seams = find_seams()
    ctx.say("write seams found: " + ", ".join(tag for _, _, tag, _, _ in seams))

    # determinism self-test on a representative injected and a representative seam-free case
    def once():
        a, fa = run_case({"family": "injected", "graph": "mixed_all", "store": "zip", "mode": "o", "pre": "old", "exc": "OSError", "k": 7}, ctx.seed, ctx.scratch)
        b, fb = run_case({"family": "seamfree", "graph": "nested", "store": "dir", "mode": "w", "pre": "absent", "exc": "PicklingError", "path": [["a", "inner"], ["a", "arr"]]}, ctx.seed, ctx.scratch)
        # failure classes, not messages: a message may name a leaked temp entry, and those names are random
        return (a["fired"], a["raised"], a["state"], a["effects_seen"], [c["relation"] for c, _ in fa], b["fired"], b["raised"], b["state"], [c["relation"] for c, _ in fb])

    ctx.selftest(once)

    # ---- reference executions: numbered effect lists
    graphs = [g for g in GRAPHS if not (ctx.quick and g == "mixed_all")]
    effects = {}
    kinds = {}
    for g in graphs:
        for s in STORES:
            log, rec = record_effects(ctx, g, s)
            log2, _ = record_effects(ctx, g, s)
            if [x for x in log] != [x for x in log2]:
                raise Broken(f"effect list of graph={g} store={s} is not reproducible: {log} vs {log2}")
            effects[(g, s)] = log
            for tag in log:
                kinds[tag] = kinds.get(tag, 0) + 1
    total_effects = sum(len(v) for v in effects.values())
    have_seams = total_effects > 0 and all(len(v) > 0 for v in effects.values())
    if not have_seams:
        ctx.seam_missing.append("zarr/zipfile write seams")
        ctx.say("the recorder saw no third-party write effects: running the seam-free fault family only")
    else:
        ctx.say("effects per (graph, store): " + ", ".join(f"{g}/{s}={len(v)}" for (g, s), v in effects.items()))

    # ---- enumeration. thorough: the full product for the baseline spelling. quick: the same product over every fault
    # position, with three stated reductions: the five single-purpose graphs only (the combined graph, 30 % of all
    # effects and the most expensive executions, is left to thorough); RuntimeError (an Exception subclass like OSError)
    # and the KeyboardInterrupt poison are left to thorough, and KeyboardInterrupt is injected into the two cheapest
    # graphs only (whether a BaseException is cleaned up does not depend on the graph); mode 'w' on an existing target
    # (refused before the first write, so the fault position cannot matter) is run for the first and the last position only.
    # Non-baseline target spellings (SPELLINGS[store][1:]) multiply every family: thorough = every graph and every fault
    # position with OSError / PicklingError; quick = graphs attrs and arrays, fault positions first / middle / middle of
    # the zip assembly / last (seam-free: first / last). Each of them also gets its own recorded no-fault run whose effect count must equal the
    # reference list (so the numbering used for the injection is the right one for that spelling too).
    inj_exc = ["OSError", "KeyboardInterrupt"] if ctx.quick else ["OSError", "RuntimeError", "KeyboardInterrupt"]  # further types: EXC_TYPES sub-lattice below
    poison_exc = ["PicklingError"] if ctx.quick else list(POISON_EXC)
    alt_graphs = [g for g in graphs if g in ("attrs", "arrays")] if ctx.quick else list(graphs)
    ki_graphs = ["attrs", "arrays"] if ctx.quick else list(graphs)

    def keep(m, p, idx, n):
        return not (ctx.quick and m == "w" and p != "absent" and idx not in (0, n - 1))

    def spellings(g, s):
        """(spelling, is_baseline) for this graph and store."""
        out = [(SPELLINGS[s][0], True)]
        if g in alt_graphs:
            out += [(sp, False) for sp in SPELLINGS[s][1:]]
        return out

    def tag_spell(case, sp, base):
        if not base:
            case["spell"] = sp  # the baseline stays implicit: shortest case descriptors for the simplest spelling
        return case

    cases = []
    # no-fault controls
    for g in graphs:
        for s in STORES:
            for sp, base in spellings(g, s):
                for m in MODES:
                    for p in PRES:
                        cases.append(tag_spell({"family": "control", "graph": g, "store": s, "mode": m, "pre": p, "exc": None}, sp, base))
    # family (i): seam-free
    npos = {}
    for g in graphs:
        pos = positions(build_graph(g, ctx.seed))
        npos[g] = len(pos)
        for s in STORES:
            for sp, base in spellings(g, s):
                idxs = range(len(pos)) if (base or not ctx.quick) else sorted({0, len(pos) - 1})
                for pi in idxs:
                    for e in (poison_exc if base else ["PicklingError"]):
                        for m in MODES:
                            for p in PRES:
                                if keep(m, p, pi, len(pos)):
                                    cases.append(tag_spell({"family": "seamfree", "graph": g, "store": s, "mode": m, "pre": p, "exc": e, "path": [list(x) for x in pos[pi]]}, sp, base))
    n_seamfree = sum(1 for c in cases if c["family"] == "seamfree")
    # family (ii): injected
    n_inj = 0
    if have_seams:
        for g in graphs:
            for s in STORES:
                log = effects[(g, s)]
                n = len(log)
                zw = [i for i, tag in enumerate(log) if tag.startswith("ZipFile.write")]
                for sp, base in spellings(g, s):
                    if not base:
                        cases.append(tag_spell({"family": "record", "graph": g, "store": s, "mode": "w", "pre": "absent", "exc": None, "k": None, "n_effects": n}, sp, base))
                    ks = range(n) if (base or not ctx.quick) else sorted({0, n // 2, n - 1} | ({zw[len(zw) // 2]} if zw else set()))
                    for k in ks:
                        for e in (["OSError"] if not base else inj_exc if (not ctx.quick or g in ki_graphs) else [x for x in inj_exc if x != "KeyboardInterrupt"]):
                            for m in MODES:
                                for p in PRES:
                                    if keep(m, p, k, n):
                                        cases.append(tag_spell({"family": "injected", "graph": g, "store": s, "mode": m, "pre": p, "exc": e, "k": k, "n_effects": n}, sp, base))
                                        n_inj += 1
    n_alt = sum(1 for c in cases if "spell" in c)
    # target-NAME alphabet (NAMES x str/Path), crossed with mode x pre-state and a sub-lattice of the fault dimensions:
    # thorough = graphs attrs/arrays/nested, no-fault controls, OSError at the first / middle / middle-of-zip-assembly /
    # last effect and the poison at the first / last position, all 4 pre-states; quick = graphs attrs/arrays, controls for
    # str and Path, OSError at the first / last effect and the poison at the last position for str with pre-states absent/old.
    # Names whose directory target has an extension (refused by the library) get the controls only.
    name_graphs = [g for g in graphs if g in (("attrs", "arrays") if ctx.quick else ("attrs", "arrays", "nested"))]
    for nm, e in NAMES.items():
        kind = e["kind"]
        for pt in PTYPES:
            for g in name_graphs:
                if ctx.quick and pt != "str" and g != name_graphs[0]:
                    continue  # quick: the pathlib.Path controls on the simplest graph only
                for m in MODES:
                    for p in PRES:
                        cases.append({"family": "control", "graph": g, "store": kind, "mode": m, "pre": p, "exc": None, "name": nm, "ptype": pt})
                if e.get("may_refuse") or (ctx.quick and (pt != "str" or g != name_graphs[-1])):
                    continue  # quick: faults for str on graph arrays only
                pres = ["absent", "old"] if ctx.quick else PRES
                pos = positions(build_graph(g, ctx.seed))
                for pi in ([len(pos) - 1] if ctx.quick else sorted({0, len(pos) - 1})):
                    for m in MODES:
                        for p in pres:
                            if keep(m, p, pi, len(pos)):
                                cases.append({"family": "seamfree", "graph": g, "store": kind, "mode": m, "pre": p, "exc": "PicklingError", "path": [list(x) for x in pos[pi]], "name": nm, "ptype": pt})
                if not have_seams:
                    continue
                log = effects[(g, kind)]
                n = len(log)
                zw = [i for i, tag in enumerate(log) if tag.startswith("ZipFile.write")]
                ks = sorted({0, n - 1}) if ctx.quick else sorted({0, n // 2, n - 1} | ({zw[len(zw) // 2]} if zw else set()))
                for k in ks:
                    for m in MODES:
                        for p in pres:
                            if keep(m, p, k, n):
                                cases.append({"family": "injected", "graph": g, "store": kind, "mode": m, "pre": p, "exc": "OSError", "k": k, "n_effects": n, "name": nm, "ptype": pt})
    n_named = sum(1 for c in cases if "name" in c)

    def some_positions(n, log=()):
        zw = [i for i, tag in enumerate(log) if tag.startswith("ZipFile.write")]
        return sorted({0, n // 2, n - 1} | ({zw[len(zw) // 2]} if zw else set()))

    # edge PRE-STATES x both stores x both modes, without and with faults. thorough: every graph, OSError at every effect,
    # poison at the first / last position; quick: graphs attrs/arrays, OSError at first / middle / middle of the zip
    # assembly / last effect, poison at the last position.
    edge_graphs = [g for g in graphs if g in ("attrs", "arrays")] if ctx.quick else list(graphs)
    for g in edge_graphs:
        pos = positions(build_graph(g, ctx.seed))
        for s in STORES:
            log = effects[(g, s)]
            n = len(log)
            for p in EDGE_PRES:
                for m in MODES:
                    cases.append({"family": "control", "graph": g, "store": s, "mode": m, "pre": p, "exc": None})
                    for pi in ([len(pos) - 1] if ctx.quick else sorted({0, len(pos) - 1})):
                        cases.append({"family": "seamfree", "graph": g, "store": s, "mode": m, "pre": p, "exc": "PicklingError", "path": [list(x) for x in pos[pi]]})
                    if have_seams:
                        for k in (some_positions(n, log) if ctx.quick else range(n)):
                            if keep(m, p, k, n):
                                cases.append({"family": "injected", "graph": g, "store": s, "mode": m, "pre": p, "exc": "OSError", "k": k, "n_effects": n})
    n_edge = sum(1 for c in cases if c["pre"] in EDGE_PRES)
    # GLOBAL MODES. warnings-as-errors: every fault position (OSError) and every poison position; working directory
    # elsewhere and torch.no_grad(): first / middle / middle of the zip assembly / last effect and the last poison position;
    # all with the no-fault controls. thorough: every graph and all 4 standard pre-states; quick: graphs attrs/tensors
    # (tensors holds values that take the pickling fallback), pre-states absent/old.
    gm_graphs = [g for g in graphs if g in ("attrs", "tensors")] if ctx.quick else list(graphs)
    gm_pres = ["absent", "old"] if ctx.quick else PRES
    for gm in GMODES:
        every = gm == "warnings_error"
        for g in gm_graphs:
            pos = positions(build_graph(g, ctx.seed))
            for s in STORES:
                log = effects[(g, s)]
                n = len(log)
                for m in MODES:
                    for p in gm_pres:
                        cases.append({"family": "control", "graph": g, "store": s, "mode": m, "pre": p, "exc": None, "gmode": gm})
                        for pi in (range(len(pos)) if every else [len(pos) - 1]):
                            if keep(m, p, pi, len(pos)):
                                cases.append({"family": "seamfree", "graph": g, "store": s, "mode": m, "pre": p, "exc": "PicklingError", "path": [list(x) for x in pos[pi]], "gmode": gm})
                        if have_seams:
                            for k in (range(n) if every else some_positions(n, log)):
                                if keep(m, p, k, n):
                                    cases.append({"family": "injected", "graph": g, "store": s, "mode": m, "pre": p, "exc": "OSError", "k": k, "n_effects": n, "gmode": gm})
    n_gm = sum(1 for c in cases if c.get("gmode"))
    # EXCEPTION TYPES: every type of EXC_TYPES at (quick: first / middle / middle of the zip assembly / last; thorough:
    # every) fault position x both stores x both modes x pre-states absent/old; quick: graph arrays, thorough: the
    # four cheapest graphs. The extra poison types at the first / last attribute position.
    et_graphs = [g for g in graphs if g in (("arrays",) if ctx.quick else ("attrs", "arrays", "nested", "tensors"))]
    n0 = len(cases)
    for g in et_graphs:
        pos = positions(build_graph(g, ctx.seed))
        for s in STORES:
            log = effects[(g, s)]
            n = len(log)
            for m in MODES:
                for p in ("absent", "old"):
                    for e in [x for x in POISON_EXC if x not in ("PicklingError", "KeyboardInterrupt")]:
                        for pi in sorted({0, len(pos) - 1}):
                            if keep(m, p, pi, len(pos)):
                                cases.append({"family": "seamfree", "graph": g, "store": s, "mode": m, "pre": p, "exc": e, "path": [list(x) for x in pos[pi]]})
                    if have_seams:
                        for e in EXC_TYPES:
                            for k in (some_positions(n, log) if ctx.quick else range(n)):
                                if keep(m, p, k, n):
                                    cases.append({"family": "injected", "graph": g, "store": s, "mode": m, "pre": p, "exc": e, "k": k, "n_effects": n})
    n_et = len(cases) - n0
    # RE-ENTRANT and pinned two-thread saves (graph "hooked"): the outer save completes, or fails at EVERY effect from the
    # hook on (effects of the nested save included). Needs the seams only for the injected part.
    n0 = len(cases)
    hook_ref = {}
    for act in HOOK_ACTIONS + HOOK_ACTIONS_FATAL:
        for s in STORES:
            for m, p in (("w", "absent"), ("o", "absent"), ("o", "old"), ("w", "old")):
                cases.append({"family": "control", "graph": "hooked", "store": s, "mode": m, "pre": p, "exc": None, "hook": act})
            if act in HOOK_ACTIONS_FATAL or not have_seams:
                continue
            ref = {"family": "record", "graph": "hooked", "store": s, "mode": "w", "pre": "absent", "exc": None, "k": None, "hook": act}
            r1, f1 = run_case(ref, ctx.seed, ctx.scratch)
            for cls, msg in f1:
                ctx.fail(cls, ref, msg)
            ctx.case(key=case_key(ref), nontrivial=False, outcome=["record", s, act, r1["raised"], r1["state"]])
            if r1.get("hook_at") is None:
                raise Broken(f"re-entrant reference run {act}/{s}: the hook attribute was never pickled")
            hook_ref[f"{act}/{s}"] = {"effects": r1["effects_seen"], "hook_at": r1["hook_at"], "hook_end": r1["hook_end"]}
            for k in range(r1["hook_at"], r1["effects_seen"]):
                for e in (["OSError"] if ctx.quick else ["OSError", "KeyboardInterrupt", "FileExistsError"]):
                    for m, p in ((("w", "absent"), ("o", "old")) if ctx.quick else (("w", "absent"), ("o", "absent"), ("o", "old"))):
                        cases.append({"family": "injected", "graph": "hooked", "store": s, "mode": m, "pre": p, "exc": e, "k": k, "n_effects": r1["effects_seen"], "hook": act})
    n_hook = len(cases) - n0
    n_seamfree = sum(1 for c in cases if c["family"] == "seamfree")
    n_inj = sum(1 for c in cases if c["family"] == "injected")
    n_seamfree = sum(1 for c in cases if c["family"] == "seamfree")
    n_inj = sum(1 for c in cases if c["family"] == "injected")
    ctx.say(f"{len(cases)} executions: {n_seamfree} seam-free, {n_inj} injected, {len(cases) - n_seamfree - n_inj} controls / recorded no-fault runs; {n_alt} of them with a non-baseline target spelling, {n_named} from the target-name alphabet, {n_edge} with an edge pre-state, {n_gm} under a non-default global mode, {n_et} for the exception-type dimension, {n_hook} re-entrant / two-thread")
    merged = ctx.pmap(work, cases, chunk=12, label="faults", seed=ctx.seed, scratch=ctx.scratch)

    fired_sf = int(merged.extra["seamfree_faults_fired"])
    fired_inj = int(merged.extra["injected_faults_fired"])
    ctx.coverage.update(
        exhaustive=True,
        alphabet={
            "graphs": graphs,
            "stores": STORES,
            "modes": MODES,
            "pre_states": PRES,
            "injected_exceptions": inj_exc,
            "keyboardinterrupt_injected_into_graphs": ki_graphs,
            "poison_exceptions": poison_exc,
            "target_spellings": SPELLINGS,
            "target_names": {k: {"given": v["given"], "store": v["store_arg"], "effective_target": v["effective"], "relative": bool(v.get("rel")), "neighbours": neighbour_names(v["effective"], v["given"])} for k, v in NAMES.items()},
            "target_name_path_types": PTYPES,
            "edge_pre_states": EDGE_PRES,
            "exception_types": list(EXC_TYPES) + ["OSError", "KeyboardInterrupt"],
            "extra_poison_exception_types": [x for x in POISON_EXC if x not in ("PicklingError", "KeyboardInterrupt")],
            "reentrant_actions": HOOK_ACTIONS + HOOK_ACTIONS_FATAL,
            "global_modes": GMODES,
        },
        bounds={
            "write_effects_per_graph_store": {f"{g}/{s}": len(v) for (g, s), v in effects.items()},
            "attribute_positions_per_graph": npos,
            "effect_kinds_recorded": kinds,
            "write_once_refusal_positions": "first and last only" if ctx.quick else "all",
            "non_baseline_spellings": {
                "graphs": alt_graphs,
                "fault_positions": "first, middle, middle of the zip assembly, last" if ctx.quick else "all",
                "exceptions": ["OSError", "PicklingError"],
                "executions": n_alt,
            },
            "exception_type_lattice": {"graphs": et_graphs, "pre_states": ["absent", "old"], "fault_positions": "first, middle, middle of the zip assembly, last" if ctx.quick else "all", "executions": n_et},
            "reentrant_lattice": {"reference_runs": hook_ref, "outer_fault_positions": "every effect from the hook on (nested effects included)", "executions": n_hook},
            "edge_pre_state_lattice": {"graphs": edge_graphs, "fault_positions": "first, middle, middle of the zip assembly, last" if ctx.quick else "all", "executions": n_edge},
            "global_mode_lattice": {"graphs": gm_graphs, "pre_states": gm_pres, "fault_positions": {"warnings_error": "all", "cwd_elsewhere": "first, middle, middle of the zip assembly, last", "no_grad": "first, middle, middle of the zip assembly, last"}, "executions": n_gm},
            "target_name_lattice": {
                "graphs": name_graphs,
                "families": "controls (str on both graphs, Path on attrs); OSError at first/last effect and poison at last position (str, graph arrays; pre-states absent, old)" if ctx.quick else "controls; OSError at first/middle/middle of zip assembly/last effect; poison at first/last position; str and Path; all pre-states",
                "executions": n_named,
            },
        },
        seams_found=[tag for _, _, tag, _, _ in seams],
        faults_fired=fired_sf + fired_inj,
    )
    # ---- vacuity guards
    if fired_sf == 0:
        raise Broken("seam-free family: no poison value ever fired (the serializer no longer pickles unknown values?)")
    if have_seams and fired_inj == 0:
        raise Broken("injected family: no fault ever fired")
    if merged.nfails == 0 and not merged.extra["reentrant_hook_ran"]:
        raise Broken("re-entrant family: the hook attribute never ran")
    if have_seams and merged.nfails == 0:
        for gm in GMODES:
            if not merged.extra[f"global_mode_{gm}_faults_fired"]:
                raise Broken(f"global mode {gm}: no fault ever fired (every save fails before its first write under this mode?)")
    if merged.nfails == 0:
        if merged.extra["effect_count_differs_for_spelling"]:
            raise Broken("a non-baseline target spelling produced a different number of write effects than the reference run")
        if merged.extra["expected_fault_did_not_fire"]:
            raise Broken(f"{int(merged.extra['expected_fault_did_not_fire'])} faults that should have fired did not (effect numbering not reproducible?)")
        if merged.extra["fault_fired_in_write_once_refusal"]:
            raise Broken("a fault fired although mode 'w' refused an existing target and nothing failed: oracle inconsistent")


def replay(ctx, case):
    rec, fails = run_case(case, ctx.seed, ctx.scratch, verbose=True)
    for cls, msg in fails:
        ctx.fail(cls, case, msg)
