import numpy as np, warnings, torch, time, itertools, copy
warnings.simplefilter("ignore"); torch.set_num_threads(1)
import quantem.diffractive_imaging.ptychography as PT
PT.gc.collect=lambda *a,**k:0
exec(open("/verif/design_probes/q_p10s.py").read().split("opt={")[0])
# C16 fourier projection idempotence/exactness, single and mixed
for M in (1,2):
    pt=make(M=M,gpts=(2,2),pad=(8,8))
    ov=torch.randn(M,4,8,10,dtype=torch.complex64)
    for kind in ("pos","zeros","allzero"):
        A=torch.rand(4,8,10)+0.1
        if kind=="zeros": A[:, ::2, ::3]=0
        if kind=="allzero": A=torch.zeros(4,8,10)
        P=pt.fourier_projection(A,ov); P2=pt.fourier_projection(A,P)
        amp=torch.sqrt((torch.fft.fft2(P,norm="ortho").abs()**2).sum(0)); amp=torch.fft.fftshift(amp,dim=(-2,-1))
        print("M",M,kind,"|F(P)|-A",float((amp-A).abs().max()),"idempotent",float((P2-P).abs().max()))
# C09 (b): J=4 all 24 orders x divisors
class G(np.random.Generator):
    def __init__(s,perm): super().__init__(np.random.PCG64(0)); s._p=list(perm)
    def permutation(s,x,axis=0): x=np.asarray(x); return x[np.asarray(s._p)]
from quantem.diffractive_imaging.ptycho_utils import SimpleBatcher
pt=make(gpts=(2,2),pad=(8,8)); pt.reconstruct(num_iters=0,optimizer_params={"object":{"type":"sgd","lr":0.1},"probe":{"type":"sgd","lr":0.001}},reset=True)
def lossgrad(order,bs):
    pt.dset._set_targets("l2_amplitude"); b=SimpleBatcher(4,bs,shuffle=True,rng=G(order)); tot=0;g=None;gp=None;seen=[]
    for idx in b:
        seen+=idx.tolist(); pt.zero_grad_all()
        pi,_p,pf,ds_=pt.dset.forward(idx,pt.obj_padding_px); sp=pt.probe_model.forward(pf); op=pt.obj_model.forward(pi)
        _,ov=pt.forward_operator(op,sp,ds_); pred=pt.detector_model.forward(ov); l,_=pt.error_estimate(pred,idx); l.backward()
        tot+=float(l); a=pt.obj_model._obj.grad.clone(); c=pt.probe_model._probe.grad.clone(); g=a if g is None else g+a; gp=c if gp is None else gp+c
    return tot/len(b),g/len(b),gp/len(b),seen
L,Gr,Gp,_=lossgrad((0,1,2,3),4); worst=0;n=0
for order in itertools.permutations(range(4)):
    for bs in (1,2,4):
        l,g,gp,seen=lossgrad(order,bs); n+=1
        assert seen==list(order)
        worst=max(worst,abs(l-L)/L,float((g-Gr).abs().max()/Gr.abs().max()),float((gp-Gp).abs().max()/Gp.abs().max()))
print("C09 J=4: orders x divisors",n,"worst rel dev",worst)
