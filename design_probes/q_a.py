import numpy as np, warnings, torch, math
warnings.simplefilter("ignore"); torch.set_num_threads(1)
import quantem.diffractive_imaging.direct_ptychography as D
D.gc.collect=lambda *a,**k:0
exec(open("/verif/design_probes/p12.py").read().split("dp,vbf,mask=make(abers")[0])
from quantem.diffractive_imaging.complex_probe import evaluate_probe, spatial_frequencies, polar_coordinates, aberration_surface_cartesian_gradients
for soft in (True, False):
    dp0,vbf0,mask0=make()
    dp0.soft_edges=soft
    st=dp0.reconstruct(deconvolution_kernel="prlx",parallax_flip_phase=False).corrected_bf.numpy()
    # aperture weight as the library computes it
    kxa,kya=spatial_frequencies(dp0.gpts,dp0.sampling,rotation_angle=0.0)
    k,phi=polar_coordinates(kxa,kya)
    pr=evaluate_probe(k*dp0.wavelength,phi,dp0.semiangle_cutoff,dp0.angular_sampling,dp0.wavelength,aberration_coefs={})
    W=float(pr[dp0.bf_mask].abs().square().sum())
    v=vbf0-vbf0.mean(axis=(1,2),keepdims=True)
    print("soft",soft,"count",int(dp0.bf_mask.sum()),"W",W,"err vs sum/W",np.abs(st-v.sum(0)/W).max(),"err vs sum/count",np.abs(st-v.sum(0)/int(dp0.bf_mask.sum())).max())
# NOTE evaluate_probe in reconstruct always uses soft_edges default True (not self.soft_edges)
# with defocus: shifted sum
co={"C10":-120.0,"C12":25.0,"phi12":0.4}
for rot in [0.0,0.3]:
    dp1,vbf1,m1=make(abers=co,rot=rot)
    st=dp1.reconstruct(deconvolution_kernel="prlx",parallax_flip_phase=False).corrected_stack.numpy()
    kxa,kya=spatial_frequencies(dp1.gpts,dp1.sampling,rotation_angle=rot); k,phi=polar_coordinates(kxa,kya)
    dx,dy=aberration_surface_cartesian_gradients(k*dp1.wavelength,phi,co)
    g=torch.stack((dx[dp1.bf_mask],dy[dp1.bf_mask]),-1).numpy()/(2*np.pi)   # Angstrom shifts
    pr=evaluate_probe(k*dp1.wavelength,phi,dp1.semiangle_cutoff,dp1.angular_sampling,dp1.wavelength,aberration_coefs=co)
    W=float(pr[dp1.bf_mask].abs().square().sum())
    ss=np.array(dp1.scan_sampling,float)
    v=vbf1-vbf1.mean(axis=(1,2),keepdims=True)
    qx=np.fft.fftfreq(v.shape[1],ss[0])[:,None]; qy=np.fft.fftfreq(v.shape[2],ss[1])[None,:]
    for sign in (+1,-1):
        sh=np.array([np.fft.ifft2(np.fft.fft2(v[i])*np.exp(-2j*np.pi*sign*(qx*g[i,0]+qy*g[i,1]))).real for i in range(len(v))])/W
        print("rot",rot,"sign",sign,"max err per-image stack",np.abs(sh-st).max(), "scale",np.abs(st).max())
