import numpy as np, warnings, torch, time, sys
warnings.simplefilter("ignore")
from quantem.core.datastructures.dataset4dstem import Dataset4dstem
from quantem.diffractive_imaging.dataset_models import PtychographyDatasetRaster
from quantem.diffractive_imaging.detector_models import DetectorPixelated
from quantem.diffractive_imaging.object_models import ObjectPixelated
from quantem.diffractive_imaging.probe_models import ProbePixelated
from quantem.diffractive_imaging.ptychography import Ptychography
from quantem.core.utils.utils import electron_wavelength_angstrom
E=300e3; lam=electron_wavelength_angstrom(E)

def ref_shapes(roi,gpts,step,dq,pad):
    roi=np.array(roi); samp=1/(roi*np.array(dq)); fov=np.array(step)*(np.array(gpts)-1)
    crop=np.floor(fov/samp); crop+=crop%2
    p=np.array(pad).copy()
    for a in (0,1):
        rem=(crop[a]+2*p[a])%8
        if rem: p[a]+=(8-rem)//2
    return samp, (crop+2*p).astype(int), p.astype(int)

def ref_probe(roi, samp, nmodes, seed):
    rng=np.random.default_rng(seed)
    kr=np.fft.fftfreq(roi[0],samp[0])[:,None]; kc=np.fft.fftfreq(roi[1],samp[1])[None,:]
    k=np.sqrt(kr**2+kc**2); kmax=0.6*min(np.abs(kr).max(),np.abs(kc).max())
    modes=[]
    for m in range(nmodes):
        ap=(k<=kmax).astype(float)
        chi=np.pi*lam*k**2*(40+15*m) + 2*np.pi*(kr*0.3*m*samp[0]-kc*0.2*m*samp[1])
        modes.append(np.fft.ifft2(ap*np.exp(-1j*chi)) * (1.0/(1+m)))
    return np.array(modes)

def ref_forward(obj, probe, pos, roi, samp, thick, obj_type):
    # obj: (S,H,W) complex or real potential ; probe (M,r,c) ; pos (J,2)
    S,H,W=obj.shape; roi=np.array(roi)
    T=np.exp(1j*obj) if obj_type=="potential" else obj
    ri=np.fft.fftfreq(roi[0],1/roi[0]).astype(int); ci=np.fft.fftfreq(roi[1],1/roi[1]).astype(int)
    kr=np.fft.fftfreq(roi[0])[:,None]; kc=np.fft.fftfreq(roi[1])[None,:]
    kr2=np.fft.fftfreq(roi[0],samp[0])[:,None]; kc2=np.fft.fftfreq(roi[1],samp[1])[None,:]
    out=[]
    for p in pos:
        r0=np.round(p).astype(int); fr=p-np.round(p)
        rows=(r0[0]+ri)%H; cols=(r0[1]+ci)%W
        ramp=np.exp(-2j*np.pi*(kr*fr[0]+kc*fr[1]))
        I=0
        for m in range(probe.shape[0]):
            psi=np.fft.ifft2(np.fft.fft2(probe[m])*ramp)
            psi=T[0][np.ix_(rows,cols)]*psi
            for s in range(1,S):
                prop=np.exp(-1j*np.pi*lam*thick[s-1]*(kr2**2+kc2**2))
                psi=np.fft.ifft2(np.fft.fft2(psi)*prop)
                psi=T[s][np.ix_(rows,cols)]*psi
            I=I+np.abs(np.fft.fft2(psi,norm="ortho"))**2
        out.append(np.fft.fftshift(I))
    return np.array(out)

def run(roi=(8,10), gpts=(3,4), step=(1.3,0.9), dq=(0.05,0.04), S=1, M=1, obj_type="complex", pad=(0,0), seed=0, loss_type="l2_amplitude", batch=None):
    rng=np.random.default_rng(seed)
    samp,oshape,padadj=ref_shapes(roi,gpts,step,dq,pad)
    thick=[4.0+2*s for s in range(S-1)]
    ph=rng.normal(size=(S,*oshape))*0.5
    obj = ph if obj_type=="potential" else np.exp(1j*ph)
    probe=ref_probe(roi,samp,M,seed)
    rr,cc=np.meshgrid(np.arange(gpts[0])*step[0]/samp[0]+padadj[0], np.arange(gpts[1])*step[1]/samp[1]+padadj[1], indexing="ij")
    pos=np.stack([rr.ravel(),cc.ravel()],-1)
    I=ref_forward(obj,probe,pos,roi,samp,thick,obj_type)
    ds=Dataset4dstem.from_array(I.reshape(*gpts,*roi).astype(np.float32), sampling=(*step,*dq), units=("A","A","A^-1","A^-1"))
    pd=PtychographyDatasetRaster.from_dataset4dstem(ds,verbose=0,learn_descan=False,learn_scan_positions=False)
    pd.preprocess(com_fit_function="no_shift",force_com_rotation=0,force_com_transpose=False,plot_rotation=False,plot_com=False,probe_energy=E)
    om=ObjectPixelated.from_array(obj.astype(np.float32 if obj_type=="potential" else np.complex64), obj_type=obj_type, slice_thicknesses=thick if S>1 else None)
    pm=ProbePixelated.from_array(probe.astype(np.complex64), probe_params={"energy":E,"semiangle_cutoff":20.0,"defocus":0})
    pt=Ptychography.from_models(dset=pd,obj_model=om,probe_model=pm,detector_model=DetectorPixelated(),rng=1,verbose=0)
    pt.preprocess(obj_padding_px=pad, plot_rotation=False, plot_com=False)
    assert tuple(pt.obj_shape_full[1:])==tuple(oshape),(pt.obj_shape_full,oshape)
    pt.probe_model.constraints["orthogonalize_probe"]=False
    pt.obj_model.constraints["positivity"]=False
    # install exact probe scaled so that total intensity = mean intensity
    scale=np.sqrt(pd.mean_diffraction_intensity/ (np.abs(probe)**2).sum())
    pt.probe_model.probe = (probe*scale).astype(np.complex64)
    pd._set_targets(loss_type)
    idx=np.arange(pd.num_gpts)
    def loss_at():
        pi,_p,pf,ds_=pd.forward(idx,pt.obj_padding_px)
        sp=pt.probe_model.forward(pf); op=pt.obj_model.forward(pi)
        _,ov=pt.forward_operator(op,sp,ds_); pred=pt.detector_model.forward(ov)
        l,_=pt.error_estimate(pred,idx,loss_type=loss_type); return float(l), pred.detach().numpy()
    l0,pred=loss_at()
    relI=np.abs(pred-I).max()/I.max()
    with torch.no_grad(): pt.obj_model._obj.data = pt.obj_model._obj.data * (torch.exp(1j*0.05*torch.randn(pt.obj_model._obj.shape)) if obj_type!="potential" else 1) + (0.05*torch.randn(pt.obj_model._obj.shape) if obj_type=="potential" else 0)
    l1,_=loss_at()
    return l0,l1,relI,scale
t0=time.time()
for cfg in [dict(),dict(S=2),dict(M=2),dict(S=3,M=2,obj_type="potential"),dict(obj_type="pure_phase",pad=(3,5)),dict(roi=(10,8),gpts=(4,3),step=(2.1,1.7)), dict(loss_type="l1_intensity",S=2)]:
    try:
        print(cfg, ["%.3e"%v for v in run(**cfg)])
    except Exception as e:
        import traceback; traceback.print_exc(); print(cfg,"EXC",type(e).__name__,e)
print("time",time.time()-t0)
