import numpy as np, torch, warnings, inspect, math
warnings.simplefilter("ignore")
from skimage.transform import iradon
import quantem.tomography.radon.radon as R
src=inspect.getsource(R)
fixed=src.replace("""    if output_size is None:
        output_size = N if circle else int(torch.floor(torch.sqrt(torch.tensor(N**2 / 2.0))))
""","""    if output_size is None:
        output_size = N if circle else int(torch.floor(torch.sqrt(torch.tensor(N**2 / 2.0))))

    if circle:
        # scikit-image pads the sinogram to the image diagonal before filtering
        diagonal = int(math.ceil(math.sqrt(2) * N))
        pad_before = diagonal // 2 - N // 2
        sinograms = F.pad(sinograms, (pad_before, diagonal - N - pad_before))
        N = diagonal
""").replace("import torch\n","import torch, math\n",1)
fixed=fixed.replace("freq = torch.linspace(0, torch.pi, steps=size, device=device)","freq = torch.arange(size, device=device) * (torch.pi / size)")
assert "diagonal" in fixed
ns={}; exec(fixed,ns)
worst=0
for N in list(range(3,41))+[64,65]:
    rng=np.random.default_rng(N); s=rng.random((N,7)); theta=np.array([0.,17.,45.,90.,133.,170.,180.])
    for f in ["ramp","shepp-logan","cosine","hamming","hann",None]:
        ref=iradon(s,theta=theta,filter_name=f,circle=True)
        t=ns["iradon_torch"](torch.tensor(s.T.copy(),dtype=torch.float32),theta=torch.tensor(theta,dtype=torch.float32),filter_name=f).numpy()
        e=float(np.abs(ref-t).max()/np.abs(ref).max()); worst=max(worst,e)
        if e>1e-5: print("N",N,f,e)
print("worst",worst)
