import numpy as np, warnings, torch, time
warnings.simplefilter("ignore")
from skimage.transform import radon, iradon
from skimage.transform.radon_transform import _get_fourier_filter
from quantem.tomography.radon.radon import radon_torch, iradon_torch, get_fourier_filter_torch
print("== radon vs skimage")
rng=np.random.default_rng(0)
for N in [8,9,16,17,32]:
    yy,xx=np.mgrid[:N,:N]; 
    img=np.exp(-((yy-N/2+1)**2+(xx-N/2-1.5)**2)/(N/4)**2)+0.3*np.exp(-((yy-N/3)**2+(xx-2*N/3)**2)/(N/8)**2)
    mask=((yy-N//2)**2+(xx-N//2)**2)<=(N//2)**2; img=img*mask
    theta=np.array([0.,17.,45.,90.,133.,180.])
    t0=time.time()
    s_ref=radon(img,theta=theta,circle=True)  # [N, A]
    s_t=radon_torch(torch.tensor(img,dtype=torch.float32),theta=torch.tensor(theta,dtype=torch.float32)).numpy()  # [A,N]
    err=np.abs(s_t.T-s_ref).max()/np.abs(s_ref).max()
    colsum=np.abs(s_t[0]-img.sum(0)).max()
    # per-angle
    pa=[float(np.abs(s_t[i]-s_ref[:,i]).max()/np.abs(s_ref).max()) for i in range(len(theta))]
    print("N",N,"radon rel err",round(err,5),"per angle",np.round(pa,4),"colsum0",round(colsum,5))
    for f in ["ramp","shepp-logan","cosine","hamming","hann",None]:
        r_ref=iradon(s_ref,theta=theta,filter_name=f,circle=True)
        r_t=iradon_torch(torch.tensor(s_ref.T.copy(),dtype=torch.float32),theta=torch.tensor(theta,dtype=torch.float32),filter_name=f).numpy()
        print("   iradon",f,"rel err",round(float(np.abs(r_t-r_ref).max()/np.abs(r_ref).max()),5))
for size in [64,128]:
    for f in ["ramp","shepp-logan","cosine","hamming","hann",None]:
        a=_get_fourier_filter(size,f)[:,0]; b=get_fourier_filter_torch(size,f)[0].numpy()
        print("filter",size,f,float(np.abs(a-b).max()))
