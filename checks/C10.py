"""C10 — object and probe constraints always yield physically admissible models.

Shape L (configuration lattice). Three lattices, every point executed on the real code through the public API:

A. object constraints: object type x ALL 2^4 combinations of {positivity, fix_potential_baseline, identical_slices,
   apply_fov_mask} x mask {unset, ones, binary, fractional} x slice count x (h,w) x raw-parameter alphabet
   (magnitudes {0,1e-3,.5,1,1+1e-6,3,1e4} x a phase grid incl. +-pi laid out in one tensor, one tensor per magnitude,
   every constant (magnitude, phase) tensor in the thorough tier, seeded tensors).  The raw tensor goes in through
   ObjectPixelated.from_array(...).reset(), the mask through the `mask` setter, the flags through the `constraints`
   setter; the constrained object is read from the `obj` property and the constraint is applied a second time with
   `apply_hard_constraints`.  The tomography ObjectVoxelwise hard constraints run over the same value alphabet.
B. probe orthogonalisation: M = 1..5 modes x pairwise correlation {0,.5,.9,.99} x ROI x intensity profile, read from the
   `probe` property (both after from_array and after the `probe` setter).
C. probe weighting: M = 1..5 x requested weights {default, equal, skewed} x mean intensity {1e-3,1,1e4} x ROI x source
   {array stack, from_params}, through set_initial_probe / initial_probe.
D. histories (model-checking style): every ordered pair (thorough: triple) of "configure one instance with one non-default constraint key"
   events, followed by reading FRESH models of every class with no constraint written; a model must not depend on other models
   (differential oracle against the empty history, admissibility under the start-up defaults, class-level defaults unchanged).
E. pipeline: histories of steps on a real multislice, mixed-state Ptychography instance - every way of handing constraints to the pipeline
   (constraints property, model setters, reconstruct(reset False/True, num_iters 0/1, constraints given or not)); the constraints in force
   and the object / patches / probe handed to the forward model are judged against a dict reference model.
F. factories: every public way of building a probe / object model (ast scan of the anchored files), modes 1..4, admissibility of what the instance hands out.
G. life histories on ONE model instance: in-place optimiser steps, reset, read, to, deepcopy, save+load - after every reset the model hands out
   what it handed out after the first initialisation and the stored initial array never changes.
The object lattice (A) also has a mask-SHAPE dimension: 2-D masks and, for multislice objects, 3-D masks with equal / differing planes.
B2. probe orthogonalisation, CONTENT of the raw mode stack: m = C u with an orthonormal basis u (seeded complex / real patterns on disjoint supports) and a
   lower-triangular coupling matrix C: which pairs overlap {chain, star, first pair, last pair, all} x phase of the overlap {purely real +/-, purely
   imaginary +/-, generic} x size x intensity profile (ties, unsorted), exactly orthogonal stacks, 2..4 (thorough: 5) modes; oracle of part B.
H. setting changes on ONE live ObjectPixelated: every ordered pair of {obj_type setter in every accepted spelling, one constraint flag through the
   constraints setter / add_constraint, mask setter, read, reset} and every ordered triple of {obj_type values, read} (thorough: of the setter events);
   the object / patches must satisfy the clauses of the CURRENT declared type and equal those of a model freshly built with the final settings.
I. setting changes on ONE live ProbePixelated: histories of {orthogonalize_probe on/off by both routes, probe setter with three stacks, read}.
"""
from __future__ import annotations

import itertools
import warnings

import numpy as np

from mc.harness import Broken, Tally

LEVEL = "exploration"
TECHNIQUE = "exhaustive configuration lattice (object type x all 2^4 constraint flags x mask kinds x slices x shapes x raw-parameter alphabet; modes x correlation x ROI; weights x intensities) with algebraic oracles"
CLAIM = (
    "For every point of the lattice the object read from ObjectPixelated.obj satisfies its declared type: |obj| <= 1 (complex), "
    "|obj| == 1 (pure phase), obj >= 0 (potential with positivity), slices exactly identical when identical_slices is requested, and "
    "a second application of apply_hard_constraints leaves |obj| unchanged (complex and pure phase; vacuous for potential objects, whose "
    "transmission exp(iV) has modulus one identically); the tomography ObjectVoxelwise is non-negative under positivity; ProbePixelated.probe returns modes whose Gram matrix is diagonal to "
    "1e-4 of the largest intensity, with the same multiset of mode intensities in descending order, for 1..5 modes with pairwise "
    "correlation up to 0.99; set_initial_probe scales the probe so that sum |FFT_ortho|^2 equals the mean intensity with the requested "
    "mode shares; and for every ordered pair (thorough: triple) of events that give ONE instance one non-default constraint key, fresh object, probe "
    "and tomography models with no constraint written behave bit for bit as if no other instance had ever been configured, are admissible under the "
    "default constraints, and the class-level default mappings are unchanged; and for every single step, ordered pair (thorough: triple) of ways of handing constraints to a "
    "real multislice Ptychography object (constraints property, model setters, reconstruct with reset False/True, 0/1 iterations, constraints given or not) the constraints in force "
    "equal the requested ones and the object, patches and probe handed to the forward model satisfy them; the probe clauses also hold for every raw mode stack of a content alphabet "
    "(coupled pairs chain / star / first / last / all x overlap purely real, purely imaginary, negative, generic x size x intensity profile with ties and unsorted orders, exactly orthogonal stacks, "
    "2..4 modes); and after every ordered pair of public setting changes on ONE live object model (obj_type setter in every accepted spelling, single constraint flags by both routes, mask setter, "
    "read, reset; every ordered triple of obj_type values and reads) the object and the patches satisfy the clauses of the type declared NOW and equal those of a model freshly built with the "
    "final settings and the same raw parameters (likewise orthogonalize_probe / probe-setter histories on one live probe model). Exhaustive lattice exploration is the right level: the property quantifies over constraint dictionaries, masks, types "
    "and magnitudes where the defects live (flag interactions), and every combination of the stated alphabets is executed."
)
NOTE = (
    "Trusted: the raw-parameter alphabet (stated magnitudes x phase grid, seeded tensors) stands for 'any raw tensor'; float32 tolerances "
    "(amplitude 5e-6, idempotence 1e-5 of the value scale, Gram 1e-4, intensities 1e-5). Points with identical_slices and more than one "
    "slice are only required to tie the slices (quantifier). 'Amplitude' is read literally as the modulus of the object handed to the forward "
    "model, so potential objects (exp(iV), modulus one) are exempt from the idempotence clause; value changes there are counted, not failed. apply_fov_mask (and, through the obj property, fix_potential_baseline on a "
    "potential object) with no mask set is a usage error that raises and is not a lattice point. The history part trusts the defaults a fresh model reports at start-up (before any event) as the meaning of 'default' and bounds "
    "histories at two (thorough: three) events of a 42-event alphabet. The pipeline part uses the shared builder checks/_ptycho.py and a reference model in which reset=True "
    "restores the OBJECT defaults before the request of the same call is applied (what reset_recon documents) and leaves probe keys not named in that call unjudged. Two known findings are reported by class, "
    "not hidden: pure_phase with a field-of-view mask below one, and repeated application of a fractional mask. Setting histories: the raw parameters keep the dtype of the type the model was "
    "built with, so complex raw parameters under final type 'potential' are not lattice points; a mask stored under a wave type makes the masked potential constraint raise after a switch to 'potential' "
    "(counted as count_observed_mask_set_under_a_wave_type_raises_after_switch_to_potential, a raise is not an inadmissible object); stacks with an all-zero mode are run and counted only."
)
RULE = (
    "Cartesian product of the alphabets named in coverage.alphabet. An object point is non-trivial when the constraint has to change the raw "
    "tensor (amplitude above one / not one / negative values / differing slices / a mask below one applied); a probe point when M >= 2; a "
    "weight point when the requested shares differ from the shares of the input stack; a history when it has at least one event; a content stack when M >= 2 (the stack-content part raises Broken unless purely imaginary, purely real, partly zero and exactly orthogonal "
    "overlap structures all occur); a setting history by the rule of the object point for its final settings (Broken unless at least 100 histories are judged after a change of obj_type). distinct = distinct point descriptors."
)

MAGS = [0.0, 1e-3, 0.5, 1.0, 1.0 + 1e-6, 3.0, 1e4]
PHASES = [float(p) for p in np.linspace(-np.pi, np.pi, 9)]  # includes -pi, -pi/2, 0, pi/2, pi
FLAGS = ["positivity", "fix_potential_baseline", "identical_slices", "apply_fov_mask"]
OBJ_TYPES = ["complex", "pure_phase", "potential"]
MASKS = [("unset",), ("ones",), ("binary", "frame"), ("binary", "seeded"), ("fractional", "ramp"), ("fractional", "seeded")]
# mask SHAPE dimension (multislice objects only; with one slice a 3-D mask is the 2-D mask): one plane per slice, planes equal or differing
MASKS_3D = [("binary3d", "equal"), ("binary3d", "differing"), ("fractional3d", "equal"), ("fractional3d", "differing")]

# Tolerances (float32 code). Worst observed on the unchanged tree over seeds {0,1,2,7,12345}, both tiers, outside the two known findings:
#   |obj| above one (complex) / away from one (pure phase): 1.2e-7          -> TOL_AMP  = 5e-6  (>= 20x; smallest mutant effect 1e-3)
#   idempotence of |obj|: 2.4e-7                                             -> TOL_IDEM = 1e-5  (smallest effect 2e-4: 1e-3-magnitude tensor)
#   Gram off-diagonal / largest intensity: 2.2e-6 (float32 Gram-Schmidt at correlation 0.99, norm ratio 30; the design probe saw 5e-7
#   on milder stacks, so the design's 1e-5 would leave a margin of only 4.6x)    -> TOL_GRAM = 1e-4  (45x; smallest mutant effect 7.1e-3 = 71x)
#   intensity multiset 4.0e-7, total intensity 3.9e-7, mode shares 6.2e-8    -> TOL_INT  = 1e-5  (>= 25x; smallest mutant effect 1.1e-2)
#   stack-content lattice (B2): Gram off-diagonal 4.2e-6 (four modes, every pair coupled with factor -2, equal intensities)  -> TOL_GRAM is 23x that
#   (coupling sizes above 2, and above 0.75 for five modes, are left out: float32 Gram-Schmidt itself reaches 1.3e-5..2.3e-5 there); C10-r6s1 effect 0.69
TOL_AMP = 5e-6
TOL_IDEM = 1e-5
TOL_GRAM = 1e-4
TOL_INT = 1e-5


def _torch():
    import torch

    return torch


# ----------------------------------------------------------------------------- object lattice
def raw_descs(quick):
    d = [("grid", r) for r in range(3)]
    d += [("mag", i) for i in range(len(MAGS))]
    d += [("seeded", k) for k in range(2 if quick else 4)]
    if quick:
        # constants: every magnitude at the phases 0 and +-pi, and every phase at the magnitudes 1 and 3
        cs = {(i, j) for i in range(len(MAGS)) for j in (0, 4, 8)} | {(i, j) for i in (3, 5) for j in range(len(PHASES))}
        d += [("const", i, j) for i, j in sorted(cs)]
    else:
        d += [("const", i, j) for i in range(len(MAGS)) for j in range(len(PHASES))]
    return d


def make_raw(desc, S, hw, seed):
    """Raw complex parameter tensor (S,h,w), complex128; the potential type uses its real part."""
    h, w = hw
    n = S * h * w
    combos = [(m, p) for m in MAGS for p in PHASES]
    kind = desc[0]
    if kind == "grid":
        start = 17 * desc[1]
        idx = [(start + 5 * (k // (h * w)) + k) % len(combos) for k in range(n)]
        mag = np.array([combos[i][0] for i in idx])
        ph = np.array([combos[i][1] for i in idx])
    elif kind == "mag":
        mag = np.full(n, MAGS[desc[1]])
        ph = np.array([PHASES[(k + 2 * (k // (h * w))) % len(PHASES)] for k in range(n)])
    elif kind == "const":
        mag = np.full(n, MAGS[desc[1]])
        ph = np.full(n, PHASES[desc[2]])
    elif kind == "seeded":
        rng = np.random.default_rng([seed, 10, 1, S, h, w, desc[1]])
        mag = rng.random(n) * (3.0 if desc[1] % 2 == 0 else 1.2)
        ph = rng.uniform(-np.pi, np.pi, n)
    else:
        raise ValueError(desc)
    return (mag * np.exp(1j * ph)).reshape(S, h, w)


def make_mask(desc, hw, seed, S=1):
    h, w = hw
    if desc[0] == "unset":
        return None
    if desc[0] in ("binary3d", "fractional3d"):  # (S,h,w): the mask setter accepts one plane per slice
        base = make_mask((desc[0][:-2], "seeded"), hw, seed)
        if desc[1] == "equal":
            return np.stack([base] * S)
        planes = [np.roll(base, (s, 2 * s), axis=(0, 1)) for s in range(S)]
        if desc[0] == "fractional3d":
            planes = [np.clip(pl * (1.0 - 0.2 * s), 0.0, 1.0) for s, pl in enumerate(planes)]
        return np.stack(planes)
    if desc[0] == "ones":
        return np.ones(hw)
    if desc[0] == "binary":
        if desc[1] == "frame":
            m = np.zeros(hw)
            m[1:-1, 1:-1] = 1.0
            return m
        rng = np.random.default_rng([seed, 10, 2, h, w])
        m = (rng.random(hw) > 0.4).astype(float)
        m.flat[0], m.flat[-1] = 0.0, 1.0
        return m
    if desc[0] == "fractional":
        if desc[1] == "ramp":
            return np.linspace(0.0, 1.0, h * w).reshape(hw)
        rng = np.random.default_rng([seed, 10, 3, h, w])
        m = rng.random(hw)
        m.flat[0], m.flat[1], m.flat[-1] = 0.0, 0.5, 1.0
        return m
    raise ValueError(desc)


def make_model(ot, raw, mask, seed):
    from quantem.diffractive_imaging.object_models import ObjectPixelated

    S = raw.shape[0]
    init = raw.real.astype(np.float32) if ot == "potential" else raw.astype(np.complex64)
    om = ObjectPixelated.from_array(init, slice_thicknesses=2.0 if S > 1 else None, obj_type=ot, rng=int(seed) + 1)
    if mask is not None:
        om.mask = mask.astype(np.float32)
    return om, init


def apply_object(ot, raw, flags, mask, path, seed, model=None):
    """Run the library. Returns ("ok", first, second) as numpy arrays or ("raised", ExceptionName, message).
    `model` = [om, init] lets one worker reuse a model across the 16 flag sets (same raw tensor, same mask): every evaluation starts
    from reset() (a fresh clone of the raw tensor) and sets all four flags; if the library ever changed the raw parameters or the
    stored initial array, the model is thrown away, so evaluations stay independent and a replay (always a fresh model) sees the same."""
    torch = _torch()
    if model is None or not model:
        om, init = make_model(ot, raw, mask, seed)
        if model is not None:
            model[:] = [om, init]
    else:
        om, init = model
    om.reset()  # installs the array as the raw parameter tensor
    om.constraints = dict(flags)
    try:
        with torch.no_grad():
            if path == "property":
                first = om.obj.detach().clone()
                m2 = om.mask
            else:  # the documented way of saying "no mask": mask=None
                m2 = om.mask if mask is not None else None
                first = om.apply_hard_constraints(om.params.detach().clone(), mask=m2).detach().clone()
            second = om.apply_hard_constraints(first.clone(), mask=m2).detach().clone()
            patches = None
            if path == "property" and flags.get("identical_slices") and first.shape[0] > 1:
                # the patches handed to the forward model (3 wrap-around 3x3 patches), through the public forward()
                h, w = int(first.shape[-2]), int(first.shape[-1])
                rr = (np.array([0, h - 1, 1])[:, None] + np.arange(3)[None]) % h
                cc = (np.array([0, w - 1, 2])[:, None] + np.arange(3)[None]) % w
                idx = torch.tensor(rr[:, :, None] * w + cc[:, None, :], dtype=torch.int32)
                patches = om.forward(idx).detach().numpy()
    except (RuntimeError, ValueError, IndexError) as e:
        if model is not None:
            model[:] = []
        return ("raised", type(e).__name__, str(e)[:120])
    if model is not None and not (np.array_equal(om.params.detach().numpy(), init) and np.array_equal(om.initial_obj.numpy(), init)):
        model[:] = []  # never observed; keeps evaluations independent if it ever happens
    return ("ok", first.numpy(), second.numpy(), patches)


def judge_object(t, ot, S, hw, rdesc, flags, mdesc, path, seed, model=None):
    raw = make_raw(rdesc, S, hw, seed)
    mask = make_mask(mdesc, hw, seed, S)
    afm = bool(flags["apply_fov_mask"])
    case = {"kind": "object", "obj_type": ot, "S": S, "hw": list(hw), "raw": list(rdesc), "flags": dict(flags), "mask": list(mdesc), "path": path}
    usage_error = path == "property" and mask is None and (afm or (ot == "potential" and flags["fix_potential_baseline"]))
    res = apply_object(ot, raw, flags, mask, path, seed, model)
    if res[0] == "raised":
        if usage_error:
            t.extra["usage_error_points_not_in_lattice"] += 1
            return
        t.case(key=case, nontrivial=True, outcome=["raised", res[1]])
        t.fail({"relation": "constraint_raises", "obj_type": ot, "path": path, "mask_set": mask is not None, "exception": res[1]}, case, f"{ot} S={S} flags={flags} mask={mdesc} path={path}: {res[1]}: {res[2]}")
        return
    _, o, o2, patches = res
    where = f"{ot} S={S} hw={hw} raw={rdesc} flags={ {k: int(v) for k, v in flags.items()} } mask={mdesc} path={path}"
    judge_object_result(t, case, where, ot, S, raw, mask, flags, o, o2, patches)


def judge_object_result(t, case, where, ot, S, raw, mask, flags, o, o2, patches):
    """The object clauses of the property on one constrained object `o` (declared type `ot`, constraint flags, mask), its second
    application `o2` and, for tied slices, the patches handed to the forward model. Shared by the lattice (A) and the setting histories (H)."""
    afm = bool(flags["apply_fov_mask"])
    masked = afm and mask is not None
    below_one = bool(masked and (mask < 1).any())
    fractional = bool(masked and ((mask > 0) & (mask < 1)).any())
    tie = bool(flags["identical_slices"]) and S > 1
    amp = o if ot == "potential" else np.abs(o)
    amp2 = o2 if ot == "potential" else np.abs(o2)
    rawv = raw.real if ot == "potential" else np.abs(raw)
    if ot == "complex":
        nontriv = bool((rawv > 1).any())
    elif ot == "pure_phase":
        nontriv = bool((np.abs(rawv - 1) > 1e-3).any())
    else:
        nontriv = bool((rawv < 0).any()) and bool(flags["positivity"] or flags["fix_potential_baseline"])
    nontriv = nontriv or below_one or (tie and bool(np.abs(raw - raw[:1]).max() > 0))
    t.case(key=case, nontrivial=nontriv, outcome=[ot, tie, below_one, round(float(amp.max()), 4), round(float(amp.min()), 4)])
    if not (np.isfinite(o).all() and np.isfinite(o2).all()):
        t.fail({"relation": "constrained_object_finite", "obj_type": ot}, case, f"{where}: constrained object contains non-finite values")
        return
    if tie:
        d = float(np.abs(o - o[:1]).max())
        t.stat("tie_slice_difference", d)
        m3 = bool(mask is not None and mask.ndim == 3)
        if d != 0.0:
            t.fail({"relation": "identical_slices_tied", "obj_type": ot, "observed": "object", "mask_3d": m3}, case, f"{where}: slices differ by {d:.3g} although identical_slices is set")
        if patches is not None:
            dp = float(np.abs(patches - patches[:1]).max())
            t.stat("tie_patch_difference", dp)
            if dp != 0.0:
                t.fail({"relation": "identical_slices_tied", "obj_type": ot, "observed": "patches", "mask_3d": m3}, case, f"{where}: the patches handed to the forward model differ across slices by {dp:.3g} although identical_slices is set")
        return  # slice tying is only claimed to tie slices (quantifier)
    if ot == "complex":
        e = float(amp.max()) - 1.0
        t.stat("complex_amp_above_one", e)
        if e > TOL_AMP:
            t.fail({"relation": "complex_amplitude_at_most_one", "obj_type": ot, "apply_fov_mask": masked}, case, f"{where}: max |obj| = {amp.max():.7g} > 1")
    elif ot == "pure_phase":
        e = float(np.abs(amp - 1.0).max())
        if not below_one:
            t.stat("pure_phase_amp_dev", e)
        if e > TOL_AMP:
            k = np.unravel_index(int(np.argmax(np.abs(amp - 1.0))), amp.shape)
            mk = float(np.broadcast_to(mask, amp.shape)[k]) if masked else 1.0
            extra = f" (mask there = {mk:.4g}, mask^2 = {mk ** 2:.4g})" if masked else ""
            t.fail({"relation": "pure_phase_unit_amplitude", "obj_type": ot, "apply_fov_mask": masked, "mask_below_one": below_one}, case, f"{where}: |obj| = {float(amp[k]):.6g} at {tuple(int(i) for i in k)} instead of 1{extra}")
    else:
        if flags["positivity"]:
            mn = float(amp.min())
            t.stat("potential_negative_part", max(0.0, -mn))
            if mn < 0:
                t.fail({"relation": "potential_non_negative", "obj_type": ot, "apply_fov_mask": masked, "fix_potential_baseline": bool(flags["fix_potential_baseline"])}, case, f"{where}: min value {mn:.6g} < 0 under positivity")
    scale = max(1.0, float(np.abs(amp).max()))
    e = float(np.abs(amp2 - amp).max()) / scale
    if ot == "potential":
        # Literal reading of the property: the amplitude of a potential object is |exp(iV)| = 1 identically, so the
        # idempotent-amplitude clause is vacuous here. What a second application does to the VALUES is only counted.
        if float(np.abs(amp2 - amp).max()) > TOL_IDEM * max(1.0, float(np.abs(rawv).max())):  # relative to the raw scale: not float32 round-off
            has_bg = bool(flags["fix_potential_baseline"] and mask is not None and (mask < 0.5 * mask.max()).any())
            if fractional:
                t.extra["observed_potential_values_rescaled_by_fractional_mask_on_second_application"] += 1
            elif has_bg and flags["positivity"]:
                t.extra["observed_potential_baseline_drift_on_second_application"] += 1
            else:
                t.extra["observed_potential_values_change_on_second_application_other"] += 1
        return
    cls = {"relation": "constraint_idempotent_amplitude", "obj_type": ot, "apply_fov_mask": masked, "mask_fractional": fractional}
    if not fractional:
        t.stat("idempotence_rel_dev", e)
    if e > TOL_IDEM:
        k = np.unravel_index(int(np.argmax(np.abs(amp2 - amp))), amp.shape)
        extra = f" (mask there = {float(np.broadcast_to(mask, amp.shape)[k]):.4g})" if masked else ""
        t.fail(cls, case, f"{where}: second application changes the amplitude at {tuple(int(i) for i in k)} from {float(amp[k]):.6g} to {float(amp2[k]):.6g}{extra}")


def flag_sets():
    return [dict(zip(FLAGS, bits)) for bits in itertools.product([False, True], repeat=4)]


def w_object(item, seed=0):
    ot, S, hw, rdesc = item
    t = Tally()
    for mdesc in MASKS + (MASKS_3D if S > 1 else []):
        model = []  # one model per (raw tensor, mask); see apply_object
        for flags in flag_sets():
            judge_object(t, ot, S, tuple(hw), tuple(rdesc), flags, mdesc, "property", seed, model)
            if mdesc[0] == "unset":
                judge_object(t, ot, S, tuple(hw), tuple(rdesc), flags, mdesc, "direct", seed, model)
    t.sample({"kind": "object", "obj_type": ot, "S": S, "hw": list(hw), "raw": list(rdesc), "flag_sets": 16, "masks": len(MASKS)}, cap=2)
    return t


# ----------------------------------------------------------------------------- tomography object
def w_voxel(item, seed=0):
    torch = _torch()
    from quantem.tomography.object_models import ObjectVoxelwise

    shape, rdesc = item
    t = Tally()
    raw = make_raw(tuple(rdesc), shape[0], tuple(shape[1:]), seed).real.astype(np.float32)
    for positivity, shrink in itertools.product([False, True], [False, 0.25, 2.0]):
        ov = ObjectVoxelwise(tuple(shape), "cpu")
        ov.obj = torch.tensor(raw)
        ov.hard_constraints = {"positivity": positivity, "shrinkage": shrink}
        o = ov.obj.detach().clone()
        o2 = ov.apply_hard_constraints(o.clone()).detach().numpy()
        o = o.numpy()
        case = {"kind": "voxel", "shape": list(shape), "raw": list(rdesc), "positivity": positivity, "shrinkage": shrink}
        t.case(key=case, nontrivial=bool((raw < 0).any()) and positivity, outcome=[positivity, shrink, round(float(o.min()), 4), round(float(o.max()), 3)])
        if not np.isfinite(o).all():
            t.fail({"relation": "voxel_object_finite"}, case, f"ObjectVoxelwise positivity={positivity} shrinkage={shrink} raw={rdesc}: non-finite values")
        if positivity and float(o.min()) < 0:
            t.fail({"relation": "voxel_non_negative", "positivity": positivity, "shrinkage": bool(shrink)}, case, f"ObjectVoxelwise positivity={positivity} shrinkage={shrink} raw={rdesc}: min value {o.min():.6g} < 0")
        # real-valued object: the amplitude clause does not apply; a change of the values on a second application is only counted
        if float(np.abs(o2 - o).max()) / max(1.0, float(np.abs(o).max())) > TOL_IDEM:
            t.extra["observed_voxel_values_change_on_second_application"] += 1
    return t


# ----------------------------------------------------------------------------- probe orthogonalisation
PROFILES = ["equal", "descending", "ascending", "mixed"]


def make_modes(M, corr, roi, profile, seed, k):
    """M modes with exactly the requested pairwise normalised correlation and a norm profile; complex128."""
    n = roi[0] * roi[1]
    rng = np.random.default_rng([seed, 10, 4, M, int(round(corr * 100)), roi[0], roi[1], k])
    A = rng.normal(size=(n, M + 1)) + 1j * rng.normal(size=(n, M + 1))
    Q, _ = np.linalg.qr(A)  # orthonormal columns
    U = Q.T  # (M+1, n)
    V = np.sqrt(corr) * U[0][None] + np.sqrt(1 - corr) * U[1:]
    norms = {
        "equal": np.ones(M),
        "descending": np.array([3.0 / (i + 1) for i in range(M)]),
        "ascending": np.array([0.5 * (i + 1) for i in range(M)]),
        "mixed": np.array([[1.0, 0.1, 3.0, 0.3, 2.0][i] for i in range(M)]),
    }[profile]
    return (V * norms[:, None]).reshape(M, *roi)


def run_ortho(P, via, seed):
    from quantem.diffractive_imaging.probe_models import ProbePixelated

    if via == "from_array":
        pm = ProbePixelated.from_array(P.astype(np.complex64), probe_params={"energy": 80e3}, rng=int(seed) + 2)
    else:  # install through the public probe setter on a model built from another stack
        pm = ProbePixelated.from_array(np.ones_like(P, dtype=np.complex64), probe_params={"energy": 80e3}, rng=int(seed) + 2)
        pm.probe = P.astype(np.complex64)
    return pm.probe.detach().numpy().astype(np.complex128)


def judge_ortho(t, M, corr, roi, profile, via, seed, k):
    P = make_modes(M, corr, roi, profile, seed, k)
    case = {"kind": "ortho", "M": M, "corr": corr, "roi": list(roi), "profile": profile, "via": via, "k": k}
    where = f"M={M} correlation={corr} roi={roi} profile={profile} via={via} k={k}"
    judge_ortho_stack(t, P, case, where, via, seed, [M, corr, profile])


def judge_ortho_stack(t, P, case, where, via, seed, tag, stat="gram_offdiag_over_max_intensity", extra_cls=None):
    """Probe clauses on ONE raw mode stack P (complex128, M x h x w): install it (from_array / probe setter), read `probe`, demand mutually
    orthogonal modes carrying the same multiset of intensities in descending order. Shared by the correlation lattice (B) and the content lattice (B2)."""
    M = P.shape[0]
    xc = dict(extra_cls or {})
    P32 = P.astype(np.complex64).astype(np.complex128)
    try:
        Q = run_ortho(P, via, seed)
    except Exception as e:  # the library raising on a valid mode stack is an observation about the constraint, not a checker crash
        t.case(key=case, nontrivial=True, outcome=["raised", type(e).__name__])
        t.fail({"relation": "library_raises", "stage": "probe property", "exception": type(e).__name__, **xc}, case, f"{where}: {type(e).__name__}: {str(e)[:200]}")
        return
    G = Q.reshape(M, -1) @ Q.reshape(M, -1).conj().T
    ints = np.real(np.diag(G))
    orig = np.sum(np.abs(P32) ** 2, axis=(1, 2))
    big = float(orig.max())
    off = float(np.abs(G - np.diag(np.diag(G))).max()) / big if M > 1 else 0.0
    t.case(key=case, nontrivial=M >= 2, outcome=[*tag, [round(float(v), 4) for v in ints]])
    t.stat(stat, off)
    if Q.shape != P.shape or not np.isfinite(Q).all():
        t.fail({"relation": "probe_shape_finite", **xc}, case, f"{where}: probe property returned shape {Q.shape} / non-finite values")
        return
    if off > TOL_GRAM:
        t.fail({"relation": "probe_modes_orthogonal", "modes": M, **xc}, case, f"{where}: largest off-diagonal Gram entry is {off:.3g} of the largest mode intensity (tol {TOL_GRAM})")
    e = float(np.abs(np.sort(ints) - np.sort(orig)).max()) / big
    t.stat("intensity_multiset_rel_dev" if stat == "gram_offdiag_over_max_intensity" else stat + "_intensity_multiset_rel_dev", e)
    if e > TOL_INT:
        t.fail({"relation": "probe_intensity_multiset_preserved", "modes": M, **xc}, case, f"{where}: mode intensities {np.sort(ints)[::-1].round(5).tolist()} differ from the input multiset {np.sort(orig)[::-1].round(5).tolist()}")
    if M > 1 and float((ints[1:] - ints[:-1]).max()) > TOL_INT * big:
        t.fail({"relation": "probe_intensities_descending", "modes": M, **xc}, case, f"{where}: mode intensities not in descending order: {ints.round(5).tolist()}")


def w_ortho(item, seed=0, nseeded=2):
    M, corr, roi, profile = item
    t = Tally()
    for via in ("from_array", "setter"):
        for k in range(nseeded):
            judge_ortho(t, M, corr, tuple(roi), profile, via, seed, k)
    t.sample({"kind": "ortho", "M": M, "corr": corr, "roi": list(roi), "profile": profile}, cap=2)
    return t


# ----------------------------------------------------------------------------- probe weights
def requested_weights(kind, M):
    if kind == "default":
        return None
    if kind == "equal":
        return [1.0] * M
    return [5.0, 1.0, 1.0, 0.5, 0.25][:M]  # skewed, not normalised on purpose


def judge_weights(t, M, wkind, mean_int, roi, source, seed, k):
    w = requested_weights(wkind, M)
    rs = np.array([0.05, 0.04])
    case = {"kind": "weights", "M": M, "weights": wkind, "mean_intensity": mean_int, "roi": list(roi), "source": source, "k": k}
    try:
        P0, in_shares = run_weights(M, w, mean_int, roi, source, seed, k, rs)
    except Exception as e:
        t.case(key=case, nontrivial=True, outcome=["raised", type(e).__name__])
        t.fail({"relation": "library_raises", "stage": "set_initial_probe", "exception": type(e).__name__}, case, f"M={M} weights={wkind} mean_intensity={mean_int} roi={roi} source={source}: {type(e).__name__}: {str(e)[:200]}")
        return
    want = np.array([1 - 0.02 * (M - 1)] + [0.02] * (M - 1)) if w is None else np.array(w) / np.sum(w)
    where = f"M={M} weights={wkind} mean_intensity={mean_int} roi={roi} source={source} k={k}"
    judge_weights_result(t, case, where, P0, in_shares, want, M, roi, mean_int)


def run_weights(M, w, mean_int, roi, source, seed, k, rs):
    from quantem.diffractive_imaging.probe_models import ProbePixelated

    if source == "array":
        P = make_modes(M, 0.5, roi, "mixed", seed, 10 + k)
        pm = ProbePixelated.from_array(P.astype(np.complex64), probe_params={"energy": 80e3}, initial_probe_weights=w, rng=int(seed) + 3 + k)
        in_shares = np.sum(np.abs(P) ** 2, axis=(1, 2))
        in_shares = in_shares / in_shares.sum()
    else:
        pm = ProbePixelated.from_params(probe_params={"energy": 80e3, "semiangle_cutoff": 20.0, "defocus": 100.0 + 50.0 * k}, num_probes=M, initial_probe_weights=w, rng=int(seed) + 3 + k)
        in_shares = np.full(M, 1.0 / M)
    pm.set_initial_probe(tuple(roi), rs, mean_int)
    return pm.initial_probe.detach().numpy().astype(np.complex128), in_shares


def judge_weights_result(t, case, where, P0, in_shares, want, M, roi, mean_int):
    wkind, source = case["weights"], case["source"]
    t.case(key=case, nontrivial=bool(np.abs(want - in_shares).max() > 1e-3) or mean_int != 1, outcome=[M, wkind, mean_int, source])
    if P0.shape != (M, *roi) or not np.isfinite(P0).all():
        t.fail({"relation": "initial_probe_shape_finite"}, case, f"{where}: initial_probe has shape {P0.shape} / non-finite values")
        return
    tot = float(np.sum(np.abs(np.fft.fft2(P0, norm="ortho")) ** 2))
    e = abs(tot / mean_int - 1.0)
    t.stat("total_intensity_rel_dev", e)
    if e > TOL_INT:
        t.fail({"relation": "initial_probe_total_intensity"}, case, f"{where}: sum |FFT_ortho(initial_probe)|^2 = {tot:.7g}, expected the mean intensity {mean_int}")
    per = np.sum(np.abs(P0) ** 2, axis=(1, 2))
    shares = per / per.sum()
    e2 = float(np.abs(shares - want).max())
    t.stat("mode_share_abs_dev", e2)
    if e2 > TOL_INT:
        t.fail({"relation": "initial_probe_mode_shares"}, case, f"{where}: mode shares {shares.round(6).tolist()} differ from the requested {want.round(6).tolist()}")


def w_weights(item, seed=0, nseeded=2):
    M, wkind, mean_int, roi, source = item
    t = Tally()
    for k in range(nseeded):
        judge_weights(t, M, wkind, mean_int, tuple(roi), source, seed, k)
    t.sample({"kind": "weights", "M": M, "weights": wkind, "mean_intensity": mean_int, "roi": list(roi), "source": source}, cap=2)
    return t


# ----------------------------------------------------------------------------- D. histories: an instance must not depend on other instances
# The lattice above writes every constraint key on every model, so it cannot see state shared BETWEEN models. Here the enumerated object is
# a history: a sequence of "configure one instance" events (a fresh model of some class gets ONE non-default constraint key, through the
# constraints setter or through add_constraint) followed by an observation: fresh models of every class, with NO constraint written, are read.
# Oracles: (i) differential - every observed byte equals the observation of the empty history ("no earlier event"); (ii) the fresh models
# satisfy the admissibility clauses under the DEFAULT constraints, where "default" is what a fresh model reported at start-up, before any
# event; (iii) the class-level default mappings are unchanged; (iv) models that existed before the events, and the configured models
# themselves, still report their own constraints. All ordered pairs (thorough: triples) of events are enumerated.
_SNAP = None  # start-up snapshot, taken in the parent before anything writes a constraint; workers inherit it through fork

OBJ_SETTINGS = [("positivity", False), ("identical_slices", True), ("apply_fov_mask", True), ("fix_potential_baseline", True), ("gaussian_sigma", 1.0)]
PROBE_SETTINGS = [("orthogonalize_probe", False), ("center_probe", True), ("tv_weight", 0.5)]
VOXEL_SETTINGS = [("hard", "positivity", True), ("hard", "shrinkage", 0.25), ("soft", "tv_vol", 0.1)]
ROUTES = ["setter", "add"]


def history_events(routes=ROUTES):
    ev = []
    for route in routes:
        ev += [["object", ot, k, v, route] for ot in OBJ_TYPES for k, v in OBJ_SETTINGS]
        ev += [["probe", k, v, route] for k, v in PROBE_SETTINGS]
        ev += [["voxel", which, k, v, route] for which, k, v in VOXEL_SETTINGS]
    return ev


def _classes():
    from quantem.diffractive_imaging.object_models import ObjectPixelated
    from quantem.diffractive_imaging.probe_models import ProbePixelated
    from quantem.tomography.object_models import ObjectVoxelwise

    return {"object": ObjectPixelated, "probe": ProbePixelated, "voxel": ObjectVoxelwise}


DEFAULT_ATTRS = [("object", "DEFAULT_CONSTRAINTS"), ("probe", "DEFAULT_CONSTRAINTS"), ("voxel", "DEFAULT_HARD_CONSTRAINTS"), ("voxel", "DEFAULT_SOFT_CONSTRAINTS")]


def _hist_raw(ot):
    raw = make_raw(("grid", 1), 2, (5, 6), 0)
    return raw.real.astype(np.float32) if ot == "potential" else raw.astype(np.complex64)


def _hist_mask():
    return make_mask(("fractional", "ramp"), (5, 6), 0).astype(np.float32)


def _new_object(ot, with_mask):
    cls = _classes()["object"]
    om = cls.from_array(_hist_raw(ot), slice_thicknesses=2.0, obj_type=ot, rng=101)
    om.reset()
    if with_mask:
        om.mask = _hist_mask()
    return om


def _new_probe():
    P = make_modes(3, 0.9, (6, 8), "ascending", 0, 0).astype(np.complex64)
    return _classes()["probe"].from_array(P, probe_params={"energy": 80e3}, rng=102)


def _new_voxel():
    torch = _torch()
    ov = _classes()["voxel"]((2, 5, 6), "cpu")
    ov.obj = torch.tensor(make_raw(("grid", 1), 2, (5, 6), 0).real.astype(np.float32))
    return ov


def _read(fn):
    """Bytes of an output, or the name of the exception the library raised."""
    torch = _torch()
    try:
        with torch.no_grad():
            return np.ascontiguousarray(fn().detach().numpy())
    except Exception as e:  # a leaked apply_fov_mask on a model without a mask raises: that is an observation too
        return "raised " + type(e).__name__


def _same(a, b):
    if isinstance(a, str) or isinstance(b, str):
        return isinstance(a, str) and isinstance(b, str) and a == b
    return a.shape == b.shape and a.dtype == b.dtype and a.tobytes() == b.tobytes()


def _plain(d):
    """Constraint dict -> comparable plain structure."""
    return {str(k): (v if isinstance(v, (bool, int, float, str, type(None))) else repr(v)) for k, v in dict(d).items()}


def snapshot_defaults():
    """Start-up state: what fresh models report as their constraints and deep copies of the class-level default mappings."""
    global _SNAP
    if _SNAP is not None:
        return _SNAP
    import copy

    cl = _classes()
    snap = {"class": {}, "fresh": {}}
    for model, attr in DEFAULT_ATTRS:
        d = getattr(cl[model], attr, None)
        snap["class"][model + "." + attr] = None if d is None else copy.deepcopy(dict(d))
    snap["fresh"]["object"] = _plain(_new_object("complex", False).constraints)
    snap["fresh"]["probe"] = _plain(_new_probe().constraints)
    ov = _new_voxel()
    snap["fresh"]["voxel"] = {"hard": _plain(ov.hard_constraints), "soft": _plain(ov.soft_constraints)}
    _SNAP = snap
    return snap


def restore_defaults():
    """Put the class-level default mappings back (in place) so that a leak in one history cannot poison the next."""
    import copy

    cl = _classes()
    for model, attr in DEFAULT_ATTRS:
        want = _SNAP["class"][model + "." + attr]
        d = getattr(cl[model], attr, None)
        if want is not None and isinstance(d, dict) and d != want:
            d.clear()
            d.update(copy.deepcopy(want))


def apply_event(ev):
    """Configure one new instance; returns (model kind, instance, the constraints it must keep reporting)."""
    kind = ev[0]
    if kind == "object":
        _, ot, k, v, route = ev
        m = _new_object(ot, with_mask=(k in ("apply_fov_mask", "fix_potential_baseline")))
        if route == "setter":
            m.constraints = {k: v}
        else:
            m.add_constraint(k, v)
        _read(lambda: m.obj)
        return kind, m, dict(_SNAP["fresh"]["object"], **{k: v})
    if kind == "probe":
        _, k, v, route = ev
        m = _new_probe()
        if route == "setter":
            m.constraints = {k: v}
        else:
            m.add_constraint(k, v)
        _read(lambda: m.probe)
        return kind, m, dict(_SNAP["fresh"]["probe"], **{k: v})
    _, which, k, v, route = ev
    m = _new_voxel()
    if route == "setter":
        setattr(m, which + "_constraints", {k: v})
    else:
        getattr(m, f"add_{which}_constraint")(k, v)
    _read(lambda: m.obj)
    want = {"hard": dict(_SNAP["fresh"]["voxel"]["hard"]), "soft": dict(_SNAP["fresh"]["voxel"]["soft"])}
    want[which][k] = v
    return kind, m, want


def _reported(kind, m):
    if kind == "voxel":
        return {"hard": _plain(m.hard_constraints), "soft": _plain(m.soft_constraints)}
    return _plain(m.constraints)


def observe_fresh():
    """Fresh models of every class, no constraint written: outputs and reported constraints."""
    out = {}
    for ot in OBJ_TYPES:
        for wm in (False, True):
            m = _new_object(ot, wm)
            out[f"object/{ot}/{'mask' if wm else 'nomask'}"] = (_read(lambda: m.obj), _plain(m.constraints))
    m = _new_probe()
    out["probe"] = (_read(lambda: m.probe), _plain(m.constraints))
    m = _new_voxel()
    out["voxel"] = (_read(lambda: m.obj), {"hard": _plain(m.hard_constraints), "soft": _plain(m.soft_constraints)})
    return out


def admissible_under_defaults(name, arr):
    """Admissibility clauses of the property, switched by the start-up defaults. Returns a message or None."""
    if isinstance(arr, str):
        return f"reading it {arr}"
    d = _SNAP["fresh"]["object"]
    if name.startswith("object/"):
        ot = name.split("/")[1]
        if d.get("identical_slices"):
            return None if np.array_equal(arr, np.broadcast_to(arr[:1], arr.shape)) else "slices differ"
        if ot == "complex" and float(np.abs(arr).max()) > 1 + TOL_AMP:
            return f"max |obj| = {np.abs(arr).max():.6g} > 1"
        if ot == "pure_phase" and not d.get("apply_fov_mask") and float(np.abs(np.abs(arr) - 1).max()) > TOL_AMP:
            return f"|obj| deviates from 1 by {np.abs(np.abs(arr) - 1).max():.3g}"
        if ot == "potential" and d.get("positivity") and float(arr.min()) < 0:
            return f"min value {arr.min():.6g} < 0 under the default positivity"
    if name == "probe" and _SNAP["fresh"]["probe"].get("orthogonalize_probe"):
        Q = arr.reshape(arr.shape[0], -1).astype(np.complex128)
        G = Q @ Q.conj().T
        ints = np.real(np.diag(G))
        if float(np.abs(G - np.diag(np.diag(G))).max()) > TOL_GRAM * ints.max():
            return f"modes not orthogonal (off-diagonal {np.abs(G - np.diag(np.diag(G))).max() / ints.max():.3g} of the largest intensity)"
        if float((ints[1:] - ints[:-1]).max()) > TOL_INT * ints.max():
            return f"mode intensities not descending: {ints.round(4).tolist()}"
    if name == "voxel" and _SNAP["fresh"]["voxel"]["hard"].get("positivity") and float(arr.min()) < 0:
        return f"min value {arr.min():.6g} < 0"
    return None


def run_history(t, events, reference=None):
    """Execute one history on the real classes. `reference` = observation of the empty history (computed if not given)."""
    if _SNAP is None:
        raise Broken("start-up snapshot of the default constraints is missing")
    restore_defaults()
    if reference is None:
        reference = observe_fresh()
        restore_defaults()
    case = {"kind": "history", "events": [list(e) for e in events]}
    where = "history " + " ; ".join("configure " + "/".join(str(x) for x in e) for e in events) + " ; then fresh models"
    # models that exist before the events
    pre = {"object": _new_object("potential", True), "probe": _new_probe(), "voxel": _new_voxel()}
    pre_rep = {k: _reported(k, m) for k, m in pre.items()}
    pre_out = {"object": _read(lambda: pre["object"].obj), "probe": _read(lambda: pre["probe"].probe), "voxel": _read(lambda: pre["voxel"].obj)}
    configured = [apply_event(e) for e in events]
    got = observe_fresh()
    ndiff = 0
    for name, (arr, rep) in got.items():
        model = name.split("/")[0]
        ref_arr, ref_rep = reference[name]
        if rep != ref_rep or rep != (_SNAP["fresh"][model]):
            ndiff += 1
            changed = {k: v for k, v in (rep.items() if model != "voxel" else {**rep["hard"], **rep["soft"]}.items()) if (ref_rep if model != "voxel" else {**ref_rep["hard"], **ref_rep["soft"]}).get(k) != v}
            t.fail({"relation": "instance_independent_of_other_instances", "model": model, "observed": "fresh_constraints"}, case, f"{where}: a fresh {name} model with no constraint written reports {changed} instead of the defaults")
        if not _same(arr, ref_arr):
            ndiff += 1
            how = arr if isinstance(arr, str) else (f"differs from the no-event history in {int((arr != ref_arr).sum())} of {arr.size} values" if not isinstance(ref_arr, str) and arr.shape == ref_arr.shape else "differs in shape/kind")
            t.fail({"relation": "instance_independent_of_other_instances", "model": model, "observed": "fresh_output"}, case, f"{where}: output of a fresh {name} model {how}")
        msg = admissible_under_defaults(name, arr)
        if msg is not None and not (isinstance(arr, str) and isinstance(ref_arr, str)):
            t.fail({"relation": "fresh_instance_admissible_under_defaults", "model": model}, case, f"{where}: fresh {name} model, default constraints: {msg}")
    for k, m in pre.items():
        if _reported(k, m) != pre_rep[k]:
            ndiff += 1
            t.fail({"relation": "instance_independent_of_other_instances", "model": k, "observed": "preexisting_constraints"}, case, f"{where}: a {k} model created before the events now reports {_reported(k, m)} instead of {pre_rep[k]}")
    post = {"object": _read(lambda: pre["object"].obj), "probe": _read(lambda: pre["probe"].probe), "voxel": _read(lambda: pre["voxel"].obj)}
    for k in pre:
        if not _same(post[k], pre_out[k]):
            ndiff += 1
            t.fail({"relation": "instance_independent_of_other_instances", "model": k, "observed": "preexisting_output"}, case, f"{where}: the output of a {k} model created before the events changed")
    for (kind, m, want), e in zip(configured, events):
        if _reported(kind, m) != want:
            ndiff += 1
            t.fail({"relation": "instance_independent_of_other_instances", "model": kind, "observed": "configured_instance_constraints"}, case, f"{where}: the model configured by {e} reports {_reported(kind, m)} instead of {want}")
    cl = _classes()
    for model, attr in DEFAULT_ATTRS:
        want = _SNAP["class"][model + "." + attr]
        d = getattr(cl[model], attr, None)
        if want is None or d is None:
            t.extra["seam_missing_" + attr] += 1
        elif dict(d) != want:
            ndiff += 1
            changed = {k: v for k, v in dict(d).items() if want.get(k, "<absent>") != v}
            t.fail({"relation": "class_defaults_unchanged", "model": model, "attr": attr}, case, f"{where}: class-level {cl[model].__name__}.{attr} changed: {changed}")
    restore_defaults()
    t.case(key=case, nontrivial=len(events) > 0, outcome=[len(events), ndiff])
    return reference


def w_history(item, seed=0, events=None, depth=2):
    """item = index of the first event (or -1 for the empty history); enumerates every continuation up to `depth` events."""
    t = Tally()
    ref = run_history(t, [])
    if item < 0:
        return t
    first = events[item]
    run_history(t, [first], ref)
    for tail in itertools.product(events, repeat=depth - 1):
        for n in range(1, depth):
            if n < depth - 1 and tail[n:] != tuple(events[:1]) * (depth - 1 - n):
                continue  # shorter histories are enumerated once, not once per padding
            run_history(t, [first, *tail[:n]], ref)
    t.sample({"kind": "history", "first_event": first, "depth": depth, "events_in_alphabet": len(events)}, cap=2)
    return t


# ----------------------------------------------------------------------------- E. pipeline: constraints handed to the real Ptychography object
# Every way of handing constraints to the reconstruction pipeline, as histories of steps on a real multislice, mixed-state Ptychography
# instance (built with the shared builder checks/_ptycho.py): the `constraints` property, the model-level setters, and
# reconstruct(num_iters 0/1, reset False/True, constraints given / not given). After every step a plain-dict reference model says which
# constraints are in force (a request holds from the step that makes it; reset=True puts the OBJECT constraints back to their defaults
# before the request of the same call is applied; probe keys not named in a reset call are left unjudged), and the object / patches / probe
# the forward model receives must satisfy them.
PIPE_PAYLOADS = {
    "tie": {"object": {"identical_slices": True}},
    "noortho": {"probe": {"orthogonalize_probe": False}},
    "both": {"object": {"identical_slices": True, "positivity": False}, "probe": {"orthogonalize_probe": True}},
}


def pipeline_steps():
    st = [["prop", p] for p in PIPE_PAYLOADS] + [["model", p] for p in PIPE_PAYLOADS]
    st += [["recon", n, r, p] for n in (0, 1) for r in (False, True) for p in [None, *PIPE_PAYLOADS]]
    return st


def _pipe_build(ot, seed):
    from checks import _ptycho

    cfg = {"obj_type": ot, "slices": 2, "modes": 2, "roi": [8, 8], "scan": [2, 2], "pad": [4, 4]}
    P = _ptycho.build(cfg, np.random.default_rng([seed, 10, 9]))
    if P.degenerate or P.ptycho is None:
        raise Broken("pipeline builder returned a degenerate problem")
    return P.ptycho


def pipe_apply(pt, step):
    k = step[0]
    if k == "prop":
        pt.constraints = {a: dict(b) for a, b in PIPE_PAYLOADS[step[1]].items()}
    elif k == "model":
        pay = PIPE_PAYLOADS[step[1]]
        if "object" in pay:
            pt.obj_model.constraints = dict(pay["object"])
        if "probe" in pay:
            pt.probe_model.constraints = dict(pay["probe"])
    else:
        _, n, reset, p = step
        kw = {"num_iters": n, "reset": reset, "optimizer_params": {"object": {"type": "sgd", "lr": 0.05}, "probe": {"type": "sgd", "lr": 0.005}}}
        if p is not None:
            kw["constraints"] = {a: dict(b) for a, b in PIPE_PAYLOADS[p].items()}
        pt.reconstruct(**kw)


def pipe_expect(state, step, defaults):
    """Reference model. state = {"object": {...}, "probe": {...}}; a probe value of "?" means not judged."""
    k = step[0]
    pay = PIPE_PAYLOADS.get(step[-1] if k != "recon" else step[3]) if (step[-1] if k != "recon" else step[3]) is not None else {}
    if k == "recon" and step[2]:
        state["object"] = dict(defaults["object"])
        state["probe"] = {kk: "?" for kk in state["probe"]}
    for part in ("object", "probe"):
        state[part].update(pay.get(part, {}))
    return state


def pipe_observe(pt):
    torch = _torch()
    with torch.no_grad():
        obj = pt.obj_model.obj.detach().numpy()
        patches = pt.obj_model.forward(pt.dset.patch_indices[:2]).detach().numpy()
        probe = pt.probe_model.probe.detach().numpy().astype(np.complex128)
    c = pt.constraints
    return obj, patches, probe, _plain(c["object"]), _plain(c["probe"])


def run_pipeline_history(t, ot, steps, seed):
    torch = _torch()
    case = {"kind": "pipeline", "obj_type": ot, "steps": [list(x) for x in steps]}
    where = f"{ot} multislice pipeline, steps " + " ; ".join("/".join(str(v) for v in x) for x in steps)
    restore_defaults()
    try:
        pt = _pipe_build(ot, seed)
        obj0, _p, _q, dobj, dprobe = pipe_observe(pt)
        defaults = {"object": dict(dobj), "probe": dict(dprobe)}
        state = {"object": dict(dobj), "probe": dict(dprobe)}
        nbad = 0
        for i, step in enumerate(steps):
            pipe_apply(pt, step)
            state = pipe_expect(state, step, defaults)
            obj, patches, probe, cobj, cprobe = pipe_observe(pt)
            last = step[0] + ("_reset" if step[0] == "recon" and step[2] else "")
            at = f"{where}: after step {i + 1}"
            wrong = {k: (cobj.get(k), v) for k, v in state["object"].items() if cobj.get(k) != v}
            if wrong:
                nbad += 1
                t.fail({"relation": "pipeline_constraints_in_force", "model": "object", "last_step": last}, case, f"{at} the object constraints in force are {({k: a for k, (a, b) in wrong.items()})}, requested {({k: b for k, (a, b) in wrong.items()})}")
            wrong = {k: (cprobe.get(k), v) for k, v in state["probe"].items() if v != "?" and cprobe.get(k) != v}
            if wrong:
                nbad += 1
                t.fail({"relation": "pipeline_constraints_in_force", "model": "probe", "last_step": last}, case, f"{at} the probe constraints in force are {({k: a for k, (a, b) in wrong.items()})}, requested {({k: b for k, (a, b) in wrong.items()})}")
            if not (np.isfinite(obj).all() and np.isfinite(probe).all()):
                t.fail({"relation": "pipeline_models_finite"}, case, f"{at} object or probe contain non-finite values")
                break
            if state["object"].get("identical_slices"):
                d = max(float(np.abs(obj - obj[:1]).max()), float(np.abs(patches - patches[:1]).max()))
                if d != 0.0:
                    nbad += 1
                    t.fail({"relation": "pipeline_object_admissible", "clause": "identical_slices", "last_step": last}, case, f"{at} identical_slices was requested but the object / patches handed to the forward model differ across slices by {d:.3g}")
            elif ot == "complex" and float(np.abs(obj).max()) > 1 + TOL_AMP:
                nbad += 1
                t.fail({"relation": "pipeline_object_admissible", "clause": "amplitude_at_most_one", "last_step": last}, case, f"{at} max |obj| = {np.abs(obj).max():.6g} > 1")
            elif ot == "potential" and state["object"].get("positivity") and float(obj.min()) < 0:
                nbad += 1
                t.fail({"relation": "pipeline_object_admissible", "clause": "positivity", "last_step": last}, case, f"{at} min value {obj.min():.6g} < 0 under positivity")
            if state["probe"].get("orthogonalize_probe") is True:
                Q = probe.reshape(probe.shape[0], -1)
                G = Q @ Q.conj().T
                ints = np.real(np.diag(G))
                off = float(np.abs(G - np.diag(np.diag(G))).max()) / float(ints.max())
                t.stat("pipeline_gram_offdiag", off)
                if off > TOL_GRAM or float((ints[1:] - ints[:-1]).max()) > TOL_INT * float(ints.max()):
                    nbad += 1
                    t.fail({"relation": "pipeline_probe_admissible", "last_step": last}, case, f"{at} orthogonalize_probe is in force but the probe handed to the forward model has off-diagonal {off:.3g} / intensities {ints.round(4).tolist()}")
    except Broken:
        raise
    except Exception as e:
        t.case(key=case, nontrivial=True, outcome=["raised", type(e).__name__])
        t.fail({"relation": "library_raises", "stage": "pipeline", "exception": type(e).__name__}, case, f"{where}: {type(e).__name__}: {str(e)[:200]}")
        restore_defaults()
        return
    restore_defaults()
    t.case(key=case, nontrivial=len(steps) > 0, outcome=[ot, len(steps), nbad, bool(state["object"].get("identical_slices"))])


def w_pipeline(item, seed=0, depth=2):
    """item = (obj_type, index of the first step or -1): every history of up to `depth` steps that starts with it."""
    ot, i = item
    t = Tally()
    steps = pipeline_steps()
    if i < 0:
        run_pipeline_history(t, ot, [], seed)
        return t
    first = steps[i]
    run_pipeline_history(t, ot, [first], seed)
    if depth >= 2:
        for s2 in steps:
            run_pipeline_history(t, ot, [first, s2], seed)
    if depth >= 3:
        for s2 in steps[2::6]:  # middle step: one property, one model-level and two reconstruct steps
            for s3 in steps:
                run_pipeline_history(t, ot, [first, s2, s3], seed)
    t.sample({"kind": "pipeline", "obj_type": ot, "first_step": first, "depth": depth}, cap=2)
    return t


# ----------------------------------------------------------------------------- F. factories: every public way of building a model
# The lattice parts build probes with ProbePixelated.from_array / from_params and objects with ObjectPixelated.from_array. A model class can be
# built in other ways (DIP probes whose network decides the mode count, uniform / random objects), and what the instance hands to the forward
# model must be admissible whichever factory made it. The factories are listed by an ast scan of the anchored files; the ones not driven
# here go to seam_missing.
DRIVEN_FACTORIES = {
    "ProbePixelated.from_array", "ProbePixelated.from_params", "ProbeDIP.from_model", "ProbeDIP.from_pixelated", "ProbeParametric.from_params",
    "ObjectPixelated.from_array", "ObjectPixelated.from_uniform", "ObjectPixelated.from_random",
}


def scan_factories(repo_src):
    """Public classmethods `from_*` of the concrete model classes in the anchored diffractive-imaging model files."""
    import ast
    import os

    found = []
    for f in ("probe_models.py", "object_models.py"):
        path = os.path.join(repo_src, "quantem", "diffractive_imaging", f)
        try:
            tree = ast.parse(open(path).read())
        except OSError:
            continue
        for n in tree.body:
            if isinstance(n, ast.ClassDef):
                for m in n.body:
                    if isinstance(m, ast.FunctionDef) and m.name.startswith("from_") and any(getattr(d, "id", "") == "classmethod" for d in m.decorator_list):
                        found.append(f"{n.name}.{m.name}")
    return sorted(found)


def _mixer(M, shape, seed):
    """Tiny deterministic complex 'network': per-pixel gain, then a 1x1 mixing of the mode channels."""
    torch = _torch()

    class ModeMixer(torch.nn.Module):
        def __init__(self):
            super().__init__()
            g = torch.Generator().manual_seed(int(seed))
            self.mix = torch.nn.Parameter(torch.eye(M, dtype=torch.complex64) + 0.6 * torch.complex(torch.randn(M, M, generator=g), torch.randn(M, M, generator=g)))
            self.gain = torch.nn.Parameter(torch.ones(shape, dtype=torch.complex64))

        def forward(self, x):
            return torch.einsum("om,bmhw->bohw", self.mix, x * self.gain)

    return ModeMixer()


def build_probe_by_factory(factory, M, roi, seed, declared):
    """Returns (model, raw stack the constraint acts on as complex128 ndarray). `declared`: pass num_probes explicitly or leave the default."""
    torch = _torch()
    from quantem.diffractive_imaging import probe_models as PM

    rs = np.array([0.05, 0.04])
    stack = make_modes(M, 0.9, roi, "ascending", seed, 30).astype(np.complex64)
    if factory == "ProbePixelated.from_array":
        pm = PM.ProbePixelated.from_array(stack, probe_params={"energy": 80e3}, rng=int(seed) + 31, **({"num_probes": M} if declared else {}))
        pm.set_initial_probe(roi, rs, 10.0)
        return pm, pm.initial_probe.detach().numpy().astype(np.complex128)
    if factory == "ProbePixelated.from_params":
        pm = PM.ProbePixelated.from_params(probe_params={"energy": 80e3, "semiangle_cutoff": 20.0, "defocus": 100.0}, num_probes=M, rng=int(seed) + 31)
        pm.set_initial_probe(roi, rs, 10.0)
        return pm, pm.initial_probe.detach().numpy().astype(np.complex128)
    if factory == "ProbeParametric.from_params":
        pm = PM.ProbeParametric.from_params(probe_params={"energy": 80e3, "semiangle_cutoff": 20.0, "defocus": 100.0}, num_probes=M, rng=int(seed) + 31)
        pm.set_initial_probe(roi, rs, 10.0)
        return pm, None
    net = _mixer(M, roi, int(seed) + 32)
    if factory == "ProbeDIP.from_model":
        pm = PM.ProbeDIP.from_model(model=net, model_input=torch.tensor(stack)[None], roi_shape=roi, rng=int(seed) + 31, input_noise_std=0.0, **({"num_probes": M} if declared else {}))
        pm.set_initial_probe(roi, rs, 10.0)
    else:
        pix = PM.ProbePixelated.from_array(stack, probe_params={"energy": 80e3}, rng=int(seed) + 31)
        pix.set_initial_probe(roi, rs, 10.0)
        pm = PM.ProbeDIP.from_pixelated(model=net, pixelated=pix, input_noise_std=0.0)
    with torch.no_grad():
        raw = net(pm.model_input)[0].detach().numpy().astype(np.complex128)  # what the network yields before the constraint
    return pm, raw


def judge_probe_admissible(t, Q, raw, cls, case, where):
    """The C10 probe clauses on what the instance hands out: orthogonal, same multiset of intensities as the raw stack, descending."""
    M = Q.shape[0]
    G = Q.reshape(M, -1) @ Q.reshape(M, -1).conj().T
    ints = np.real(np.diag(G))
    big = float(ints.max())
    off = float(np.abs(G - np.diag(np.diag(G))).max()) / big if M > 1 else 0.0
    t.stat("factory_gram_offdiag", off)
    if off > TOL_GRAM:
        t.fail({"relation": "probe_modes_orthogonal", **cls}, case, f"{where}: largest off-diagonal Gram entry is {off:.3g} of the largest mode intensity")
    if raw is not None and raw.shape == Q.shape:
        orig = np.sum(np.abs(raw) ** 2, axis=(1, 2))
        e = float(np.abs(np.sort(ints) - np.sort(orig)).max()) / float(orig.max())
        t.stat("factory_intensity_multiset_dev", e)
        if e > 10 * TOL_INT:  # complex64 network output vs float64 bookkeeping: observed 4e-7
            t.fail({"relation": "probe_intensity_multiset_preserved", **cls}, case, f"{where}: mode intensities {np.sort(ints)[::-1].round(4).tolist()} differ from the raw stack's {np.sort(orig)[::-1].round(4).tolist()}")
    if M > 1 and float((ints[1:] - ints[:-1]).max()) > TOL_INT * big:
        t.fail({"relation": "probe_intensities_descending", **cls}, case, f"{where}: mode intensities not in descending order: {ints.round(4).tolist()}")


def judge_probe_factory(t, factory, M, roi, declared, ortho, seed):
    case = {"kind": "probe_factory", "factory": factory, "M": M, "roi": list(roi), "declared_num_probes": declared, "orthogonalize_probe": ortho}
    where = f"{factory} with {M} mode(s) roi={roi} num_probes {'given' if declared else 'left at its default'} orthogonalize_probe={ortho}"
    cls = {"factory": factory, "declared_num_probes": declared}
    try:
        pm, raw = build_probe_by_factory(factory, M, tuple(roi), seed, declared)
        pm.constraints = {"orthogonalize_probe": ortho}
        Q = pm.probe.detach().numpy().astype(np.complex128)
    except NotImplementedError:
        t.extra["factory_rejects_mode_count_" + factory.replace(".", "_")] += 1
        t.case(key=case, nontrivial=False, outcome=["rejected", factory, M])
        return
    except Exception as e:
        t.case(key=case, nontrivial=True, outcome=["raised", type(e).__name__])
        t.fail({"relation": "library_raises", "stage": "probe factory", "exception": type(e).__name__, **cls}, case, f"{where}: {type(e).__name__}: {str(e)[:200]}")
        return
    t.case(key=case, nontrivial=M > 1 and ortho, outcome=[factory, M, ortho, list(Q.shape)])
    if Q.ndim != 3 or Q.shape[-2:] != tuple(roi) or not np.isfinite(Q).all():
        t.fail({"relation": "probe_shape_finite", **cls}, case, f"{where}: probe has shape {Q.shape} / non-finite values")
        return
    if raw is not None and Q.shape[0] != raw.shape[0]:
        t.fail({"relation": "probe_shape_finite", **cls}, case, f"{where}: {Q.shape[0]} modes handed out, the raw stack has {raw.shape[0]}")
        return
    if ortho:
        judge_probe_admissible(t, Q, raw, cls, case, where)


def judge_object_factory(t, factory, ot, S, seed):
    torch = _torch()
    from quantem.diffractive_imaging.object_models import ObjectPixelated

    hw = (5, 6)
    case = {"kind": "object_factory", "factory": factory, "obj_type": ot, "S": S}
    where = f"{factory} obj_type={ot} S={S}"
    raw = make_raw(("grid", 2), S, hw, seed)
    init = raw.real.astype(np.float32) if ot == "potential" else raw.astype(np.complex64)
    try:
        if factory == "ObjectPixelated.from_array":
            om = ObjectPixelated.from_array(init, slice_thicknesses=2.0 if S > 1 else None, obj_type=ot, rng=int(seed) + 41)
            om.reset()
        else:
            om = getattr(ObjectPixelated, factory.split(".")[1])(num_slices=S, slice_thicknesses=2.0 if S > 1 else None, obj_type=ot, rng=int(seed) + 41)
            ini = getattr(om, "_initialize_obj", None)  # what Ptychography.preprocess calls; no public equivalent
            if ini is None:
                t.extra["seam_missing__initialize_obj"] += 1
                return
            ini((S, *hw), (0.5, 0.5))
            with torch.no_grad():
                om.params.copy_(torch.tensor(init))  # raw parameters wherever the optimiser has driven them
        with torch.no_grad():
            o = om.obj.detach().numpy()
    except Exception as e:
        t.case(key=case, nontrivial=True, outcome=["raised", type(e).__name__])
        t.fail({"relation": "library_raises", "stage": "object factory", "exception": type(e).__name__, "factory": factory}, case, f"{where}: {type(e).__name__}: {str(e)[:200]}")
        return
    t.case(key=case, nontrivial=True, outcome=[factory, ot, S, round(float(np.abs(o).max()), 4)])
    cls = {"factory": factory, "obj_type": ot}
    if o.shape != (S, *hw) or not np.isfinite(o).all():
        t.fail({"relation": "constrained_object_finite", **cls}, case, f"{where}: object has shape {o.shape} / non-finite values")
    elif ot == "complex" and float(np.abs(o).max()) > 1 + TOL_AMP:
        t.fail({"relation": "complex_amplitude_at_most_one", **cls, "apply_fov_mask": False}, case, f"{where}: max |obj| = {np.abs(o).max():.7g} > 1")
    elif ot == "pure_phase" and float(np.abs(np.abs(o) - 1).max()) > TOL_AMP:
        t.fail({"relation": "pure_phase_unit_amplitude", **cls, "apply_fov_mask": False, "mask_below_one": False}, case, f"{where}: |obj| deviates from 1 by {np.abs(np.abs(o) - 1).max():.3g}")
    elif ot == "potential" and float(o.min()) < 0:
        t.fail({"relation": "potential_non_negative", **cls, "apply_fov_mask": False, "fix_potential_baseline": False}, case, f"{where}: min value {o.min():.6g} < 0 under the default positivity")


def w_factory(item, seed=0):
    t = Tally()
    if item[0] == "probe":
        _, factory, M, roi = item
        for declared in (False, True):
            if factory in ("ProbePixelated.from_params", "ProbeParametric.from_params", "ProbeDIP.from_pixelated") and not declared:
                continue  # these factories always take / derive the mode count
            for ortho in (True, False):
                judge_probe_factory(t, factory, M, tuple(roi), declared, ortho, seed)
    else:
        _, factory, ot = item
        for S in (1, 2, 3):
            judge_object_factory(t, factory, ot, S, seed)
    t.sample({"kind": "factory", "item": list(item)}, cap=2)
    return t


# ----------------------------------------------------------------------------- G. long histories on ONE model instance
# Alphabet on a live ProbePixelated / ObjectPixelated instance: "opt" (an in-place optimiser step on the raw parameter, harness-owned
# deterministic update p <- 0.9 p + fixed noise), "reset", "read" (.probe / .obj), "to" (to("cpu")), "copy" (deepcopy; the history continues on
# the original AND on the copy), "saveload" (save + load; continues on both). Every history is followed by reset + read. After every reset the
# instance must hand out exactly what it handed out after the first initialisation (1e-6 of the maximum), the stored initial array must never
# change (bitwise), and the admissibility clauses (and, for the probe right after a reset, total intensity and mode shares) hold at every read.
LIFE_EVENTS = ["opt", "reset", "read", "to", "copy", "saveload"]


def _life_new(kind, seed):
    torch = _torch()
    if kind == "probe":
        from quantem.diffractive_imaging.probe_models import ProbePixelated

        P = make_modes(3, 0.5, (6, 8), "mixed", seed, 50).astype(np.complex64)
        m = ProbePixelated.from_array(P, probe_params={"energy": 80e3}, initial_probe_weights=[0.6, 0.3, 0.1], rng=int(seed) + 51)
        m.set_initial_probe((6, 8), np.array([0.05, 0.04]), 750.0)
        return m
    from quantem.diffractive_imaging.object_models import ObjectPixelated

    raw = make_raw(("seeded", 1), 2, (5, 6), seed).astype(np.complex64)
    m = ObjectPixelated.from_array(raw, slice_thicknesses=2.0, obj_type="complex", rng=int(seed) + 52)
    m.reset()
    return m


def _life_read(kind, m):
    torch = _torch()
    with torch.no_grad():
        out = (m.probe if kind == "probe" else m.obj).detach().numpy().copy()
        ini = (m.initial_probe if kind == "probe" else m.initial_obj).detach().numpy().copy()
    return out, ini


def _life_opt(kind, m, step_no):
    torch = _torch()
    par = m.params[-1] if kind == "probe" else m.params
    g = torch.Generator().manual_seed(1000 + step_no)
    noise = torch.randn(par.shape, generator=g) * 0.05
    with torch.no_grad():
        par.data.mul_(0.9).add_(noise.to(par.dtype))


def run_life_history(t, kind, events, seed, scratch):
    import copy
    import os

    case = {"kind": "life", "model": kind, "events": list(events)}
    where = f"{kind} model, history init ; " + " ; ".join(events) + " ; reset ; read"
    restore_defaults()
    try:
        m0 = _life_new(kind, seed)
        ref_out, ref_ini = _life_read(kind, m0)
        scale = float(np.abs(ref_out).max())
        live = [("original", m0)]
        nbad = 0
        for i, ev in enumerate(list(events) + ["reset", "read"]):
            new = []
            for name, m in live:
                if ev == "opt":
                    _life_opt(kind, m, i)
                elif ev == "reset":
                    m.reset()
                elif ev == "to":
                    m.to("cpu")
                elif ev == "copy":
                    new.append((name + "+deepcopy", copy.deepcopy(m)))
                elif ev == "saveload":
                    from quantem.core.io.serialize import load

                    path = os.path.join(scratch, f"c10_life_{os.getpid()}_{kind}.zip")
                    m.save(path, mode="o")
                    new.append((name + "+saveload", load(path)))
                    os.remove(path)
            live += new[: max(0, 3 - len(live))]  # at most three live instances
            for name, m in live:
                out, ini = _life_read(kind, m)
                at = f"{where}: after step {i + 1} ({ev}) on the {name}"
                cls = {"model": kind, "instance": "copy" if "+" in name else "original"}
                if not np.array_equal(ini, ref_ini):
                    nbad += 1
                    d = float(np.abs(ini - ref_ini).max()) / max(float(np.abs(ref_ini).max()), 1e-30)
                    t.fail({"relation": "stored_initial_array_never_changes", **cls}, case, f"{at} the stored initial {'probe' if kind == 'probe' else 'object'} differs from the one stored at initialisation by {d:.3g} of its maximum")
                if ev == "reset" or (ev == "read" and i == len(events) + 1):
                    d = float(np.abs(out - ref_out).max()) / scale
                    t.stat("life_reset_vs_first_dev", d)
                    if d > 1e-6:
                        nbad += 1
                        extra = ""
                        if kind == "probe":
                            tot = float(np.sum(np.abs(np.fft.fft2(out, norm="ortho")) ** 2))
                            per = np.sum(np.abs(out) ** 2, axis=(1, 2))
                            extra = f" (total intensity {tot:.5g} instead of 750, mode shares {(per / per.sum()).round(3).tolist()})"
                        t.fail({"relation": "reset_restores_first_initialisation", **cls}, case, f"{at} the model hands out something that differs from what it handed out after the first initialisation by {d:.3g} of the maximum{extra}")
                if not np.isfinite(out).all():
                    t.fail({"relation": "life_output_finite", **cls}, case, f"{at} non-finite values")
                elif kind == "probe":
                    Q = out.astype(np.complex128)
                    G = Q.reshape(3, -1) @ Q.reshape(3, -1).conj().T
                    ints = np.real(np.diag(G))
                    off = float(np.abs(G - np.diag(np.diag(G))).max()) / float(ints.max())
                    if off > TOL_GRAM or float((ints[1:] - ints[:-1]).max()) > TOL_INT * float(ints.max()):
                        nbad += 1
                        t.fail({"relation": "probe_modes_orthogonal", **cls}, case, f"{at} the probe handed out has off-diagonal {off:.3g} / intensities {ints.round(3).tolist()}")
                elif float(np.abs(out).max()) > 1 + TOL_AMP:
                    nbad += 1
                    t.fail({"relation": "complex_amplitude_at_most_one", "obj_type": "complex", "apply_fov_mask": False, **cls}, case, f"{at} max |obj| = {np.abs(out).max():.6g} > 1")
    except Exception as e:
        t.case(key=case, nontrivial=True, outcome=["raised", type(e).__name__])
        t.fail({"relation": "library_raises", "stage": "model life history", "exception": type(e).__name__, "model": kind}, case, f"{where}: {type(e).__name__}: {str(e)[:200]}")
        restore_defaults()
        return
    restore_defaults()
    t.case(key=case, nontrivial=("opt" in events and "reset" in events), outcome=[kind, len(events), nbad])


def w_life(item, seed=0, maxlen=4, scratch="/tmp"):
    """item = (model kind, first event): every history of 1..maxlen events that starts with it (then reset ; read)."""
    kind, first = item
    t = Tally()
    for L in range(1, maxlen + 1):
        for tail in itertools.product(LIFE_EVENTS, repeat=L - 1):
            ev = (first, *tail)
            if ev.count("copy") + ev.count("saveload") > 2 or ev.count("saveload") > 1 or ("saveload" in ev and len(ev) > min(3, maxlen - 2)):
                continue  # bound on live instances; a file round trip costs ~0.3 s, so it only appears in histories of at most 2 (thorough: 3) events
            run_life_history(t, kind, ev, seed, scratch)
    t.sample({"kind": "life", "model": kind, "first_event": first, "max_events": maxlen}, cap=2)
    return t


# ----------------------------------------------------------------------------- B2. probe orthogonalisation: CONTENT of the raw mode stack
# The correlation lattice (B) fills its stacks with seeded data: every pairwise overlap <p_i, p_j> is a generic complex number. Any branch of the
# orthogonalisation that depends on the DATA (an "already orthogonal?" test, a pivot, a threshold on an overlap) sees only one kind of content
# there. Here the stack is m = C u with an orthonormal basis u (seeded complex, or real patterns on disjoint supports, whose zero overlaps are
# exact in every precision) and a lower-triangular coupling matrix C with unit diagonal (the stack is linearly independent by construction):
# which pairs overlap (pattern) x the phase of the overlap (purely real +/-, purely imaginary +/-, generic) x its size, plus exactly
# orthogonal stacks, in every intensity profile (ties, unsorted orders). Oracle: the one of part B.
OC_PATTERNS = ["chain", "star", "first_pair", "last_pair", "all_lower"]
OC_PHASES = [0, 180, 90, -90, 45, 120]  # degrees: phase of the coupling factor = phase of the overlap of the coupled pair
OC_PHASES_THOROUGH = [0, 180, 90, -90, 45, 120, 30, 60, 135, -45, -135, -120]
OC_MAGS = [0.05, 0.75, 2.0]  # size of the coupling factor: pair correlation c/sqrt(1+c^2) = 0.05, 0.6, 0.89
OC_MAGS_THOROUGH = [0.01, 0.05, 0.3, 0.75, 1.5, 2.0]
OC_BASES = ["seeded", "disjoint"]
_UNIT = {0: 1.0, 90: 1j, 180: -1.0, -90: -1j}  # exact, so that "purely imaginary" has a real part of exactly zero


def _unit(deg):
    return _UNIT[deg] if deg in _UNIT else complex(np.exp(1j * np.deg2rad(deg)))


def content_descs(M, quick):
    pats = OC_PATTERNS if M > 2 else ["chain"]  # with two modes every pattern is the one pair
    phases = OC_PHASES if quick else OC_PHASES_THOROUGH
    mags = OC_MAGS if quick else OC_MAGS_THOROUGH
    if M >= 5:
        mags = [m for m in mags if m <= 0.75]  # five strongly coupled modes: float32 Gram-Schmidt itself reaches 1.3e-5, too close to TOL_GRAM
    d = [["orthogonal"]]
    d += [[p, ph, mg] for p in pats for ph in phases for mg in mags]
    d += [["mixed_phases", mg] for mg in mags]  # chain whose successive overlaps are imaginary, negative real, positive real, -imaginary; all other pairs exactly zero
    d += [["zero_mode", p] for p in range(M)]  # outside the quantifier (linearly dependent): run and counted, never failed
    return d


def _profile_norms(profile, M):
    return {
        "equal": np.ones(M),
        "descending": np.array([3.0 / (i + 1) for i in range(M)]),
        "ascending": np.array([0.5 * (i + 1) for i in range(M)]),
        "mixed": np.array([[1.0, 0.1, 3.0, 0.3, 2.0][i] for i in range(M)]),
    }[profile]


def make_content_modes(M, desc, basis, roi, profile, seed):
    """M modes m = C u, rows scaled to the norm profile; complex128. desc: see content_descs."""
    n = roi[0] * roi[1]
    if basis == "seeded":
        rng = np.random.default_rng([seed, 10, 14, M, roi[0], roi[1]])
        A = rng.normal(size=(n, M)) + 1j * rng.normal(size=(n, M))
        U = np.linalg.qr(A)[0].T
    else:  # real patterns on disjoint supports: products of different basis members are zero element by element
        k = np.arange(n)
        U = np.stack([np.where(k % M == j, 1.0 + (k // M) % 3, 0.0) for j in range(M)]).astype(np.complex128)
        U = U / np.linalg.norm(U, axis=1, keepdims=True)
    C = np.eye(M, dtype=np.complex128)
    kind = desc[0]
    if kind == "mixed_phases":
        for i in range(1, M):
            C[i, i - 1] = desc[1] * _unit([90, 180, 0, -90][(i - 1) % 4])
    elif kind == "zero_mode":
        for i in range(1, M):
            C[i, i - 1] = 0.75
    elif kind != "orthogonal":
        c = desc[2] * _unit(desc[1])
        for i in range(1, M):
            if kind == "chain":
                C[i, i - 1] = c
            elif kind == "star":
                C[i, 0] = c
            elif kind == "all_lower":
                C[i, :i] = c
        if kind == "first_pair":
            C[1, 0] = c
        elif kind == "last_pair":
            C[M - 1, M - 2] = c
    V = C @ U
    if kind == "zero_mode":
        V[desc[1]] = 0.0
    nv = np.linalg.norm(V, axis=1, keepdims=True)
    V = V / np.where(nv > 0, nv, 1.0) * _profile_norms(profile, M)[:, None]
    return V.reshape(M, *roi)


def judge_content(t, M, desc, basis, roi, profile, via, seed):
    P = make_content_modes(M, desc, basis, roi, profile, seed)
    case = {"kind": "ortho_content", "M": M, "content": list(desc), "basis": basis, "roi": list(roi), "profile": profile, "via": via}
    where = f"M={M} stack content={desc} basis={basis} roi={roi} profile={profile} via={via}"
    F = P.reshape(M, -1)
    G0 = F @ F.conj().T
    nrm = np.sqrt(np.real(np.diag(G0)))
    if desc[0] == "zero_mode":
        try:
            Q = run_ortho(P, via, seed)
            G = Q.reshape(M, -1) @ Q.reshape(M, -1).conj().T
            ok = bool(np.isfinite(Q).all()) and float(np.abs(G - np.diag(np.diag(G))).max()) <= TOL_GRAM * float(nrm.max() ** 2)
        except Exception:
            ok = False
        t.extra["observed_stack_with_an_all_zero_mode_" + ("finite_and_orthogonal" if ok else "NOT_finite_and_orthogonal")] += 1
        return
    corr = np.abs(G0) / (nrm[:, None] * nrm[None, :])
    cmax = float((corr - np.eye(M)).max())
    if cmax > 0.99 or np.linalg.matrix_rank(F) != M:
        raise Broken(f"content stack {desc} M={M} leaves the quantifier: pairwise correlation {cmax:.4f}, rank {np.linalg.matrix_rank(F)}")
    off0 = G0 - np.diag(np.diag(G0))
    big0 = float(np.abs(off0).max())
    if big0 > 1e-9 and float(np.abs(off0.real).max()) <= 1e-12 * big0:
        t.extra["content_stacks_with_purely_imaginary_overlaps"] += 1
    if big0 > 1e-9 and float(np.abs(off0.imag).max()) <= 1e-12 * big0:
        t.extra["content_stacks_with_purely_real_overlaps"] += 1
    if big0 > 1e-9 and M > 2 and bool((np.abs(off0[np.triu_indices(M, 1)]) <= 1e-12 * big0).any()):
        t.extra["content_stacks_with_zero_overlap_for_some_pairs_only"] += 1
    if big0 <= 1e-9:
        t.extra["content_stacks_exactly_orthogonal"] += 1
    judge_ortho_stack(t, P, case, where, via, seed, [M, *desc, basis, profile], stat="content_gram_offdiag_over_max_intensity", extra_cls={"stack_content": desc[0]})


def w_content(item, seed=0, quick=True):
    M, basis, roi, profile = item
    t = Tally()
    for desc in content_descs(M, quick):
        for via in ("from_array", "setter"):
            judge_content(t, M, desc, basis, tuple(roi), profile, via, seed)
    t.sample({"kind": "ortho_content", "M": M, "basis": basis, "roi": list(roi), "profile": profile, "contents": len(content_descs(M, quick))}, cap=2)
    return t


# ----------------------------------------------------------------------------- H. setting changes on ONE live object model
# Parts A-G give every model its settings once (type at construction, constraints before the first read). Here the enumerated object is a
# history of public setting changes on ONE live ObjectPixelated: the obj_type setter (every accepted spelling), single constraint flags through
# the constraints setter and through add_constraint, the mask setter, reset, and reads in between (obj + forward). The public surface has no
# setter for the slice count. After the history a dict reference model says which type / flags / mask are in force; the object from `obj` and the patches from
# forward() must satisfy the clauses of the CURRENT declared type (judge_object_result) and equal, to float32 round-off, what a model freshly
# built with the final settings hands out for the same raw parameters (differential oracle).
OS_HW = (5, 6)
OS_SPELLINGS = {"complex": "complex", "pure_phase": "pure_phase", "potential": "potential", "purephase": "pure_phase", "pure phase": "pure_phase", "potentials": "potential", "COMPLEX": "complex"}
OS_MASKS = {"ones": ("ones",), "binary": ("binary", "seeded"), "fractional": ("fractional", "seeded")}
OS_RAWS = [("grid", 1), ("seeded", 0)]
TOL_FRESH = 1e-5  # live model vs fresh model, relative to the value scale: worst observed on the unchanged tree 0 (bitwise equal); smallest seeded effect 4e-3


def setting_events(reduced=False):
    ev = [["type", s] for s in list(OS_SPELLINGS)[: 3 if reduced else None]]
    ev += [["flag", k, v, r] for r in (ROUTES[:1] if reduced else ROUTES) for k in FLAGS for v in (True, False)]
    ev += [["mask", m] for m in OS_MASKS]
    ev += [["read"]]
    if not reduced:
        ev += [["reset"]]
    return ev


def _ev_str(e):
    if e[0] == "type":
        return f"obj_type = {e[1]!r}"
    if e[0] == "flag":
        return f"constraints = {{{e[1]!r}: {e[2]}}}" if e[3] == "setter" else f"add_constraint({e[1]!r}, {e[2]})"
    if e[0] == "mask":
        return f"mask = <{e[1]}>"
    return e[0] + "()" if e[0] == "reset" else "read obj, forward()"


_LIB_ERRORS = (RuntimeError, ValueError, IndexError, NotImplementedError, TypeError)


def run_setting_history(t, t0, S, rdesc, events, seed):
    torch = _torch()
    from quantem.diffractive_imaging.object_models import ObjectPixelated

    hw = OS_HW
    events = [list(e) for e in events]
    case = {"kind": "settings", "built_as": t0, "S": S, "raw": list(rdesc), "events": events}
    where = f"ONE ObjectPixelated built as {t0}, S={S} hw={hw} raw={tuple(rdesc)}; then " + (" ; ".join(_ev_str(e) for e in events) or "nothing")
    raw = make_raw(tuple(rdesc), S, hw, seed)
    # + 0: no negative zeros in a real raw tensor. torch.angle(-0.0) is 0 for a real and pi for a complex tensor, so a real raw tensor read under a
    # wave type and its complex copy in the fresh model would disagree there for a reason that has nothing to do with the settings.
    init = raw.real.astype(np.float32) + np.float32(0) if t0 == "potential" else raw.astype(np.complex64)
    thick = 2.0 if S > 1 else None
    idx = torch.arange(hw[0] * hw[1], dtype=torch.int32).reshape(1, *hw)  # one patch covering the whole object
    st = {"type": t0, "mask": None, "mask_under": None}
    try:
        om = ObjectPixelated.from_array(init, slice_thicknesses=thick, obj_type=t0, rng=int(seed) + 61)
        om.reset()
        st["flags"] = {k: bool(om.constraints[k]) for k in FLAGS}  # the defaults, as the model reports them
        for e in events:
            if e[0] == "type":
                om.obj_type = e[1]
                st["type"] = OS_SPELLINGS[e[1]]
            elif e[0] == "flag":
                if e[3] == "setter":
                    om.constraints = {e[1]: e[2]}
                else:
                    om.add_constraint(e[1], e[2])
                st["flags"][e[1]] = bool(e[2])
            elif e[0] == "mask":
                st["mask"] = make_mask(OS_MASKS[e[1]], hw, seed)
                st["mask_under"] = st["type"]
                om.mask = st["mask"].astype(np.float32)
            elif e[0] == "reset":
                om.reset()
            else:
                try:  # a read in a state that cannot be read (usage error) raises; only the final observation is judged
                    with torch.no_grad():
                        om.obj
                        om.forward(idx)
                except _LIB_ERRORS:
                    t.extra["setting_histories_intermediate_read_raised"] += 1
        rep_type = om.obj_type
        rep_flags = {k: bool(om.constraints[k]) for k in FLAGS}
    except Exception as e:
        t.case(key=case, nontrivial=True, outcome=["raised", type(e).__name__])
        t.fail({"relation": "library_raises", "stage": "object setting change", "exception": type(e).__name__, "built_as": t0}, case, f"{where}: {type(e).__name__}: {str(e)[:200]}")
        return
    ot, flags, mask = st["type"], st["flags"], st["mask"]
    if rep_type != ot:
        t.fail({"relation": "setting_in_force", "setting": "obj_type"}, case, f"{where}: the model reports obj_type {rep_type!r}, requested {ot!r}")
    if rep_flags != flags:
        t.fail({"relation": "setting_in_force", "setting": "constraints"}, case, f"{where}: the model reports the flags {rep_flags}, requested {flags}")
    if t0 != "potential" and ot == "potential":
        # complex raw parameters under a real-valued declared type: the quantifier's "raw parameter tensors" of a potential object are real
        t.extra["setting_histories_complex_raw_under_potential_type_not_in_lattice"] += 1
        return
    afm, fpb = flags["apply_fov_mask"], flags["fix_potential_baseline"]
    usage_error = mask is None and (afm or (ot == "potential" and fpb))
    stale_mask_dtype = mask is not None and ot == "potential" and st["mask_under"] != "potential" and (afm or fpb)
    try:
        with torch.no_grad():
            first = om.obj.detach().clone()
            patches = om.forward(idx).detach().numpy()
            second = om.apply_hard_constraints(first.clone(), mask=om.mask).detach().numpy()
            first = first.numpy()
    except _LIB_ERRORS as e:
        if usage_error:
            t.extra["usage_error_points_not_in_lattice"] += 1
        elif stale_mask_dtype:
            # HEAD: the mask setter stores the mask in the dtype of the type declared at that moment (complex64 under a wave type); after a
            # switch to 'potential' the masked constraint raises. A raise is not an inadmissible object: counted and reported, not failed.
            t.extra["observed_mask_set_under_a_wave_type_raises_after_switch_to_potential"] += 1
        else:
            t.case(key=case, nontrivial=True, outcome=["raised", type(e).__name__])
            t.fail({"relation": "constraint_raises", "obj_type": ot, "path": "setting_history", "mask_set": mask is not None, "exception": type(e).__name__}, case, f"{where}: reading obj / forward(): {type(e).__name__}: {str(e)[:160]}")
        return
    if any(e[0] == "type" and OS_SPELLINGS[e[1]] != t0 for e in events):
        t.extra["setting_histories_judged_after_a_type_change"] += 1
    n0 = t.nfails
    judge_object_result(t, case, where, ot, S, init.astype(np.complex128), mask, flags, first, second, patches)
    masked = bool(afm and mask is not None)
    below_one = bool(masked and (mask < 1).any())
    tie = bool(flags["identical_slices"]) and S > 1
    pa = np.abs(patches)
    if not tie and ot == "complex" and float(pa.max()) - 1.0 > TOL_AMP:
        t.fail({"relation": "complex_amplitude_at_most_one", "obj_type": ot, "apply_fov_mask": masked, "observed": "patches"}, case, f"{where}: the patches handed out by forward() have max modulus {pa.max():.7g} > 1")
    if not tie and ot == "pure_phase" and not below_one and float(np.abs(pa - 1.0).max()) > TOL_AMP:
        t.fail({"relation": "pure_phase_unit_amplitude", "obj_type": ot, "apply_fov_mask": masked, "mask_below_one": False, "observed": "patches"}, case, f"{where}: the patches handed out by forward() have modulus within [{pa.min():.6g}, {pa.max():.6g}] instead of 1")
    # differential oracle: a model freshly built with the final settings, same raw parameters
    try:
        init_f = init if (ot == "potential") == (t0 == "potential") else init.astype(np.complex64)
        fr = ObjectPixelated.from_array(init_f, slice_thicknesses=thick, obj_type=ot, rng=int(seed) + 61)
        fr.reset()
        fr.constraints = dict(flags)
        if mask is not None:
            fr.mask = mask.astype(np.float32)
        with torch.no_grad():
            fo = fr.obj.detach().numpy()
            fp = fr.forward(idx).detach().numpy()
    except _LIB_ERRORS as e:
        t.fail({"relation": "constraint_raises", "obj_type": ot, "path": "fresh_model_of_setting_history", "mask_set": mask is not None, "exception": type(e).__name__}, case, f"{where}: a fresh {ot} model with the final settings raises {type(e).__name__}: {str(e)[:160]}")
        return
    if first.shape != fo.shape or patches.shape != fp.shape:
        d = float("inf")
    else:
        d = max(float(np.abs(first - fo).max()) / max(1.0, float(np.abs(fo).max())), float(np.abs(patches - fp).max()))
    t.stat("settings_live_vs_fresh_dev", d if np.isfinite(d) else 1e30)
    if not d <= TOL_FRESH:
        t.fail(
            {"relation": "live_model_equals_fresh_model_with_final_settings", "built_as": t0, "final_type": ot, "last_event": events[-1][0] if events else "none"},
            case,
            f"{where}: obj / patches differ by {d:.3g} from those of a model freshly built as {ot} with flags { {k: int(v) for k, v in flags.items()} }, mask {'set' if mask is not None else 'unset'} and the same raw parameters "
            f"(|obj| in [{np.abs(first).min():.6g}, {np.abs(first).max():.6g}], fresh model [{np.abs(fo).min():.6g}, {np.abs(fo).max():.6g}])",
        )
    if t.nfails > n0:
        t.extra["setting_histories_with_a_failing_clause"] += 1


def w_settings(item, seed=0, events=None, triple_events=None):
    """item = (built_as, S, raw descriptor, index of the first event or -1): the history of that one event and every ordered pair starting with it;
    every ordered triple over `triple_events` starting with it when it belongs to that sub-alphabet. -1: the empty history."""
    t0, S, rdesc, i = item
    t = Tally()
    if i < 0:
        run_setting_history(t, t0, S, rdesc, [], seed)
        return t
    first = events[i]
    run_setting_history(t, t0, S, rdesc, [first], seed)
    for e2 in events:
        run_setting_history(t, t0, S, rdesc, [first, e2], seed)
    if first in triple_events:
        for e2, e3 in itertools.product(triple_events, repeat=2):
            run_setting_history(t, t0, S, rdesc, [first, e2, e3], seed)
    t.sample({"kind": "settings", "built_as": t0, "S": S, "raw": list(rdesc), "first_event": first, "pairs": len(events), "triples": len(triple_events) ** 2 if first in triple_events else 0}, cap=2)
    return t


# ----------------------------------------------------------------------------- I. setting changes on ONE live probe model
PS_STACKS = ["imag_chain", "seeded_0.9", "orthogonal_unsorted"]
PS_ROI = (6, 8)


def _ps_stack(name, M, seed):
    if name == "imag_chain":
        return make_content_modes(M, ["chain", 90, 0.75], "seeded", PS_ROI, "ascending", seed)
    if name == "seeded_0.9":
        return make_modes(M, 0.9, PS_ROI, "mixed", seed, 70)
    return make_content_modes(M, ["orthogonal"], "disjoint", PS_ROI, "ascending", seed)


def probe_setting_events():
    return [["ortho", v, r] for r in ROUTES for v in (False, True)] + [["probe", s] for s in PS_STACKS] + [["read"]]


def run_probe_setting_history(t, M, events, seed):
    from quantem.diffractive_imaging.probe_models import ProbePixelated

    events = [list(e) for e in events]
    case = {"kind": "probe_settings", "M": M, "events": events}
    where = f"ONE ProbePixelated with {M} modes (stack imag_chain); then " + (" ; ".join("/".join(str(x) for x in e) for e in events) or "nothing")
    try:
        raw = _ps_stack("imag_chain", M, seed).astype(np.complex64)
        pm = ProbePixelated.from_array(raw, probe_params={"energy": 80e3}, rng=int(seed) + 71)
        ortho = bool(pm.constraints["orthogonalize_probe"])
        for e in events:
            if e[0] == "ortho":
                if e[2] == "setter":
                    pm.constraints = {"orthogonalize_probe": e[1]}
                else:
                    pm.add_constraint("orthogonalize_probe", e[1])
                ortho = bool(e[1])
            elif e[0] == "probe":
                raw = _ps_stack(e[1], M, seed).astype(np.complex64)
                pm.probe = raw
            else:
                pm.probe
        rep = bool(pm.constraints["orthogonalize_probe"])
        Q = pm.probe.detach().numpy().astype(np.complex128)
        fr = ProbePixelated.from_array(raw, probe_params={"energy": 80e3}, rng=int(seed) + 71)
        fr.constraints = {"orthogonalize_probe": ortho}
        Qf = fr.probe.detach().numpy().astype(np.complex128)
    except Exception as e:
        t.case(key=case, nontrivial=True, outcome=["raised", type(e).__name__])
        t.fail({"relation": "library_raises", "stage": "probe setting change", "exception": type(e).__name__}, case, f"{where}: {type(e).__name__}: {str(e)[:200]}")
        return
    t.case(key=case, nontrivial=len(events) > 0, outcome=[M, ortho, [round(float(v), 3) for v in np.sum(np.abs(Q) ** 2, axis=(1, 2))]])
    cls = {"path": "probe_setting_history", "orthogonalize_probe": ortho}
    if rep != ortho:
        t.fail({"relation": "setting_in_force", "setting": "orthogonalize_probe"}, case, f"{where}: the model reports orthogonalize_probe={rep}, requested {ortho}")
    if Q.shape != raw.shape or not np.isfinite(Q).all():
        t.fail({"relation": "probe_shape_finite", **cls}, case, f"{where}: probe has shape {Q.shape} / non-finite values")
        return
    if ortho:
        judge_probe_admissible(t, Q, raw.astype(np.complex128), cls, case, where)
    d = float(np.abs(Q - Qf).max()) / float(np.abs(Qf).max())
    t.stat("probe_settings_live_vs_fresh_dev", d)
    if not d <= TOL_FRESH:
        t.fail({"relation": "live_model_equals_fresh_model_with_final_settings", "model": "probe", "orthogonalize_probe": ortho}, case, f"{where}: the probe handed out differs by {d:.3g} of the maximum from that of a model freshly built from the same stack with orthogonalize_probe={ortho}")


def w_probe_settings(item, seed=0, depth=3):
    M, i = item
    t = Tally()
    ev = probe_setting_events()
    if i < 0:
        run_probe_setting_history(t, M, [], seed)
        return t
    run_probe_setting_history(t, M, [ev[i]], seed)
    for L in range(2, depth + 1):
        for tail in itertools.product(ev, repeat=L - 1):
            run_probe_setting_history(t, M, [ev[i], *tail], seed)
    t.sample({"kind": "probe_settings", "M": M, "first_event": ev[i], "depth": depth}, cap=2)
    return t


# ----------------------------------------------------------------------------- driver
def run(ctx):
    warnings.simplefilter("ignore")
    q = ctx.quick
    snap = snapshot_defaults()  # before anything writes a constraint in this process
    ctx.assume(
        "the raw-parameter alphabet (magnitudes x phase grid in one tensor, one tensor per magnitude, constant tensors, seeded tensors) stands for 'any raw tensor'",
        "identical_slices with more than one slice is only required to tie the slices (quantifier); no amplitude or idempotence claim there",
        "literal reading of 'amplitude': the modulus of the object handed to the forward model, |obj| for complex and pure_phase objects; a potential object V enters as exp(iV) with modulus one "
        "identically, so the idempotent-amplitude clause is vacuous for obj_type='potential' (and for the real-valued tomography volume). Potential objects are judged on V >= 0 under positivity "
        "and on slice tying only; what a second application does to the values (fractional-mask rescaling, baseline drift) is counted in the evidence (count_observed_*), never failed",
        "apply_fov_mask=True, or fix_potential_baseline=True on a potential object read through the obj property, with no mask set raises (usage error) and is not a lattice point; "
        "the same flags are judged through apply_hard_constraints(mask=None)",
        "smoothing filters (gaussian_sigma, q_lowpass, q_highpass) stay at their defaults (off), as the quantifier states (gaussian_sigma appears only as an EVENT of the history part, where the oracle is differential)",
        "histories: 'default' means the constraints a fresh model reported at start-up, before any event; histories are bounded at two (thorough: three) configure-events out of 42 "
        "(3 object types x 5 keys, 3 probe keys, 3 tomography keys; each through the setter and through add_constraint); class-level default mappings are restored from a start-up deep copy "
        "around every history so that a leak found in one history cannot poison the next",
        "masks may be 3-D (one plane per slice; the mask setter accepts it): multislice objects are also run with 3-D masks whose planes are equal and whose planes differ, binary and fractional; the tie oracle "
        "reads both the object and the patches returned by the public forward()",
        "pipeline part: a request holds from the step that makes it (property, model setter or reconstruct argument) until a later request changes it; reconstruct(reset=True) puts the object constraints "
        "back to the defaults read after building, then applies the request of the same call; probe constraints not named in a reset call are not judged (the library keeps them, nothing states it); "
        "the problem is a 2-slice, 2-mode, 8x8-ROI, 2x2-scan instance from checks/_ptycho.py whose initial object has differing slices, so slice tying is never vacuous",
        "factories: the factories of the model classes are found by an ast scan of probe_models.py / object_models.py; those not driven (ObjectDIP.*: need a network honouring the library's input validation) are listed in seam_missing; "
        "DIP probes use a harness-defined deterministic mode-mixing network, and the raw stack is that network's output; only the `probe` / `obj` properties are judged (ProbeDIP.forward hands out the unconstrained network output by design)",
        "life histories: the optimiser is a harness-owned deterministic in-place update of the raw parameter; histories are bounded at 4 (thorough: 5) events before the final reset ; read, at most three live instances, file round trips only in short histories",
        "stack content: the coupled stacks m = C u are linearly independent by construction (unit diagonal) and their largest pairwise correlation is checked to be <= 0.99 (Broken otherwise); "
        "coupling sizes stop at 2 (0.75 for five modes) because float32 Gram-Schmidt on the unchanged tree comes within 10x of the Gram tolerance beyond that; stacks with one all-zero mode are outside the quantifier and only counted",
        "setting histories: the settings in force are those of a dict reference model (a request holds until a later one changes it; reset and reads change nothing); obj_type is switched with the raw parameters left as they are "
        "(there is no public way to re-type them), so a real raw tensor is judged under all three types and a complex raw tensor under the two wave types; real raw tensors carry no negative zeros "
        "(torch.angle(-0.0) differs between real and complex tensors); the fresh model of the differential oracle gets the final type at construction, the final flags through the constraints setter and the last mask through the mask setter",
        "float32 code: amplitude tolerance 5e-6, idempotence 1e-5 of the value scale, Gram tolerance 1e-4 of the largest mode intensity (float32 Gram-Schmidt at correlation 0.99 reaches 2e-6), intensity tolerances 1e-5",
    )

    def once():
        t = w_object(("potential", 2, (5, 6), ("seeded", 0)), seed=ctx.seed)
        t.merge(w_ortho((3, 0.9, (6, 8), "mixed"), seed=ctx.seed))
        t.merge(w_weights((3, "skewed", 1e4, (6, 8), "array"), seed=ctx.seed))
        t.merge(w_content((3, "seeded", (6, 8), "mixed"), seed=ctx.seed, quick=True))
        run_setting_history(t, "complex", 2, ("seeded", 0), [["type", "pure_phase"], ["mask", "fractional"]], ctx.seed)
        run_probe_setting_history(t, 3, [["ortho", False, "setter"], ["probe", "seeded_0.9"], ["ortho", True, "add"]], ctx.seed)
        return (t.n, sorted(t.outcomes), t.nfails, sorted(t.maxima.items()))

    ctx.selftest(once)
    slices = [1, 2, 3]
    shapes = [(7, 9), (5, 6)] if q else [(7, 9), (5, 6), (4, 4), (3, 8)]
    raws = raw_descs(q)
    ctx.coverage["alphabet"] = {
        "magnitudes": MAGS,
        "phases": PHASES,
        "raw_tensors": [list(r) for r in raws],
        "object_types": OBJ_TYPES,
        "constraint_flags_all_combinations_of": FLAGS,
        "masks": [list(m) for m in MASKS],
        "masks_3d_one_plane_per_slice_for_S_above_1": [list(m) for m in MASKS_3D],
        "slices": slices,
        "hw": [list(s) for s in shapes],
        "paths": ["obj property", "apply_hard_constraints(mask=None) for the unset mask"],
    }
    items = list(itertools.product(OBJ_TYPES, slices, shapes, raws))
    ctx.pmap(w_object, items, label="object constraints", seed=ctx.seed)
    vshapes = [(3, 4, 5), (1, 6, 6)] if q else [(3, 4, 5), (1, 6, 6), (4, 4, 4)]
    ctx.pmap(w_voxel, list(itertools.product(vshapes, raws)), label="tomography voxel object", seed=ctx.seed)

    Ms = [1, 2, 3, 4, 5]
    corrs = [0.0, 0.5, 0.9, 0.99]
    rois = [(6, 8), (8, 8)]
    nseeded = 2 if q else 6
    ctx.coverage["alphabet"]["probe"] = {"modes": Ms, "pairwise_correlation": corrs, "roi": [list(r) for r in rois], "intensity_profiles": PROFILES, "via": ["from_array", "probe setter"], "seeded_stacks_per_point": nseeded}
    ctx.pmap(w_ortho, list(itertools.product(Ms, corrs, rois, PROFILES)), label="probe orthogonalisation", seed=ctx.seed, nseeded=nseeded)
    Mc = [2, 3, 4] if q else [2, 3, 4, 5]
    ctx.coverage["alphabet"]["probe_stack_content"] = {
        "modes": Mc,
        "stack": "m = C u, u orthonormal, C lower triangular with unit diagonal; rows scaled to the intensity profile",
        "coupled_pairs": OC_PATTERNS + ["mixed_phases (chain, successive overlaps imaginary / negative real / positive real / -imaginary)", "orthogonal (C = 1)"],
        "overlap_phase_degrees": OC_PHASES if q else OC_PHASES_THOROUGH,
        "coupling_size": OC_MAGS if q else OC_MAGS_THOROUGH,
        "basis": OC_BASES,
        "roi": [list(r) for r in rois],
        "intensity_profiles": PROFILES,
        "via": ["from_array", "probe setter"],
        "contents_per_mode_count": {str(M): len(content_descs(M, q)) for M in Mc},
        "coupling_size_for_5_modes": "<= 0.75",
        "counted_only": "stacks with one all-zero mode (linearly dependent, outside the quantifier)",
    }
    before = ctx.tally.n
    ctx.pmap(w_content, list(itertools.product(Mc, OC_BASES, rois, PROFILES)), chunk=1, label="probe orthogonalisation, stack content", seed=ctx.seed, quick=q)
    ctx.coverage["probe_stack_content_points"] = ctx.tally.n - before
    for name in ("content_stacks_with_purely_imaginary_overlaps", "content_stacks_with_purely_real_overlaps", "content_stacks_with_zero_overlap_for_some_pairs_only", "content_stacks_exactly_orthogonal"):
        if ctx.tally.extra[name] < 10:
            raise Broken(f"stack-content lattice degenerate: {name} = {ctx.tally.extra[name]}")
    wk = ["default", "equal", "skewed"]
    mis = [1e-3, 1.0, 1e4]
    ctx.coverage["alphabet"]["weights"] = {"modes": Ms, "requested": wk, "mean_intensity": mis, "roi": [list(r) for r in rois], "source": ["array", "from_params"], "seeded_stacks_per_point": nseeded}
    ctx.pmap(w_weights, list(itertools.product(Ms, wk, mis, rois, ["array", "from_params"])), label="probe weights", seed=ctx.seed, nseeded=nseeded)
    ev2 = history_events()
    ctx.coverage["alphabet"]["histories"] = {
        "events": ev2,
        "depth_all_events": 2,
        "depth_setter_route_events": 2 if q else 3,
        "observation": "fresh models of every class (3 object types x mask set/unset, 3-mode probe, voxel volume), models created before the events, the configured models, class-level default mappings",
        "defaults_at_startup": snap["fresh"],
    }
    before = ctx.tally.n
    ctx.pmap(w_history, list(range(-1, len(ev2))), chunk=1, label="histories (all ordered pairs of events)", seed=ctx.seed, events=ev2, depth=2)
    if not q:
        ev3 = history_events(["setter"])
        ctx.pmap(w_history, list(range(len(ev3))), chunk=1, label="histories (all ordered triples, setter route)", seed=ctx.seed, events=ev3, depth=3)
    ctx.coverage["histories"] = ctx.tally.n - before
    psteps = pipeline_steps()
    ptypes = [("potential", 2), ("complex", 2), ("pure_phase", 2)] if q else [("potential", 3), ("complex", 3), ("pure_phase", 3)]
    ctx.coverage["alphabet"]["pipeline"] = {
        "steps": psteps,
        "payloads": PIPE_PAYLOADS,
        "object_types_and_history_depth": [list(x) for x in ptypes],
        "middle_steps_of_triples": psteps[2::6],
        "problem": "2 slices, 2 probe modes, roi 8x8, 2x2 scan, checks/_ptycho.py builder",
    }
    before = ctx.tally.n
    for ot, depth in ptypes:
        ctx.pmap(w_pipeline, [(ot, i) for i in range(-1, len(psteps))], chunk=1, label=f"pipeline histories ({ot}, depth {depth})", seed=ctx.seed, depth=depth)
    ctx.coverage["pipeline_histories"] = ctx.tally.n - before
    import os

    found = scan_factories(os.path.join(ctx.repo, "src"))
    for f in found:
        if f not in DRIVEN_FACTORIES:
            ctx.seam_missing.append("factory_not_driven:" + f)
    Mf = [1, 2, 3, 4]
    pf = [f for f in sorted(DRIVEN_FACTORIES) if f.startswith("Probe")]
    of = [f for f in sorted(DRIVEN_FACTORIES) if f.startswith("Object")]
    ctx.coverage["alphabet"]["factories"] = {"found_by_ast_scan": found, "driven": sorted(DRIVEN_FACTORIES), "mode_counts": Mf, "roi": [[6, 8], [8, 8]], "num_probes": ["given", "left at its default"], "orthogonalize_probe": [True, False], "object_slices": [1, 2, 3]}
    before = ctx.tally.n
    items = [("probe", f, M, roi) for f in pf for M in Mf for roi in ((6, 8), (8, 8))] + [("object", f, ot) for f in of for ot in OBJ_TYPES]
    ctx.pmap(w_factory, items, label="factories", seed=ctx.seed)
    ctx.coverage["factory_points"] = ctx.tally.n - before
    maxlen = 4 if q else 5
    ctx.coverage["alphabet"]["life_histories"] = {"events": LIFE_EVENTS, "models": ["probe (ProbePixelated, 3 modes, weights 0.6/0.3/0.1, mean intensity 750)", "object (ObjectPixelated complex, 2 slices)"], "max_events_before_the_final_reset_and_read": {"probe": maxlen, "object": min(maxlen, 4)}}
    before = ctx.tally.n
    ctx.pmap(w_life, [("probe", e) for e in LIFE_EVENTS], chunk=1, label=f"probe life histories (up to {maxlen} events)", seed=ctx.seed, maxlen=maxlen, scratch=ctx.scratch)
    ctx.pmap(w_life, [("object", e) for e in LIFE_EVENTS], chunk=1, label="object life histories", seed=ctx.seed, maxlen=min(maxlen, 4), scratch=ctx.scratch)
    ctx.coverage["life_histories"] = ctx.tally.n - before
    sev = setting_events()
    tev = [["type", x] for x in OBJ_TYPES] + [["read"]] if q else setting_events(reduced=True)
    ctx.coverage["alphabet"]["object_setting_histories"] = {
        "built_as": OBJ_TYPES,
        "slices": [1, 2],
        "hw": list(OS_HW),
        "raw_tensors": [list(r) for r in OS_RAWS],
        "events": sev,
        "all_ordered_pairs_of": len(sev),
        "all_ordered_triples_of": tev,
        "observation": "obj property, forward() on one patch covering the object, second application; reported obj_type and flags",
        "oracles": ["clauses of the current declared type (as in part A)", "equal to a model freshly built with the final settings and the same raw parameters"],
        "not_in_lattice": "complex raw parameters under final type 'potential'; apply_fov_mask / fix_potential_baseline (potential) with no mask set",
    }
    before = ctx.tally.n
    items = [(t0, S, list(r), i) for t0 in OBJ_TYPES for S in (1, 2) for r in OS_RAWS for i in range(-1, len(sev))]
    ctx.pmap(w_settings, items, label="object setting histories (one live model)", seed=ctx.seed, events=sev, triple_events=tev)
    ctx.coverage["object_setting_histories"] = ctx.tally.n - before
    if ctx.tally.extra["setting_histories_judged_after_a_type_change"] < 100:
        raise Broken("setting histories degenerate: fewer than 100 histories judged after a change of obj_type")
    pev = probe_setting_events()
    pdepth = 3 if q else 4
    ctx.coverage["alphabet"]["probe_setting_histories"] = {"modes": [2, 3], "roi": list(PS_ROI), "events": pev, "depth": pdepth, "stacks": PS_STACKS}
    before = ctx.tally.n
    ctx.pmap(w_probe_settings, [(M, i) for M in (2, 3) for i in range(-1, len(pev))], chunk=1, label="probe setting histories (one live model)", seed=ctx.seed, depth=pdepth)
    ctx.coverage["probe_setting_histories"] = ctx.tally.n - before
    if len(ctx.tally.outcomes) < 50:
        raise Broken("too few distinct outcomes: the lattice did not vary")
    if len(ctx.tally.nontrivial) < 1000:
        raise Broken("lattice degenerate: fewer than 1000 non-trivial points")


def replay(ctx, case):
    warnings.simplefilter("ignore")
    snapshot_defaults()
    t = Tally()
    k = case["kind"]
    seed = ctx.seed
    if k == "history":
        run_history(t, [list(e) for e in case["events"]])
    elif k == "probe_factory":
        judge_probe_factory(t, case["factory"], case["M"], tuple(case["roi"]), case["declared_num_probes"], case["orthogonalize_probe"], seed)
    elif k == "object_factory":
        judge_object_factory(t, case["factory"], case["obj_type"], case["S"], seed)
    elif k == "life":
        run_life_history(t, case["model"], tuple(case["events"]), seed, ctx.scratch)
    elif k == "pipeline":
        run_pipeline_history(t, case["obj_type"], [list(x) for x in case["steps"]], seed)
    elif k == "object":
        judge_object(t, case["obj_type"], case["S"], tuple(case["hw"]), tuple(case["raw"]), {f: bool(v) for f, v in case["flags"].items()}, tuple(case["mask"]), case["path"], seed)
    elif k == "voxel":
        t = w_voxel((case["shape"], case["raw"]), seed=seed)
        t.fails = [f for f in t.fails if f["case"] == case] or t.fails
    elif k == "ortho_content":
        judge_content(t, case["M"], list(case["content"]), case["basis"], tuple(case["roi"]), case["profile"], case["via"], seed)
    elif k == "settings":
        run_setting_history(t, case["built_as"], case["S"], tuple(case["raw"]), [list(e) for e in case["events"]], seed)
    elif k == "probe_settings":
        run_probe_setting_history(t, case["M"], [list(e) for e in case["events"]], seed)
    elif k == "ortho":
        judge_ortho(t, case["M"], case["corr"], tuple(case["roi"]), case["profile"], case["via"], seed, case["k"])
    elif k == "weights":
        judge_weights(t, case["M"], case["weights"], case["mean_intensity"], tuple(case["roi"]), case["source"], seed, case["k"])
    for f in t.fails:
        print("  ", f["msg"])
        ctx.fail(f["cls"], f["case"], f["msg"])
