"""Classes for C01's class-identity family (checks/_serial.py, TWIN_CLASSES). Module level, so that load() can import
them by the module + qualified name recorded in the file. The same class names exist in _serial_twins_b / _c and
(NodeA) in _serial itself: what distinguishes them is the module, or the enclosing class, only."""
from quantem.core.io.serialize import AutoSerialize


class Param(AutoSerialize):  # a proper prefix of 'Params'
    KIND = "a.Param"


class Params(AutoSerialize):
    KIND = "a.Params"


class Params2(AutoSerialize):  # 'Params' is a proper prefix of it
    KIND = "a.Params2"


class NodeA(AutoSerialize):  # same name as checks._serial.NodeA, which every other family of C01 loads
    KIND = "a.NodeA"


class Outer(AutoSerialize):
    KIND = "a.Outer"

    class Params(AutoSerialize):  # __name__ 'Params', __qualname__ 'Outer.Params'
        KIND = "a.Outer.Params"
