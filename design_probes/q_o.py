import numpy as np, warnings, torch, math
warnings.simplefilter("ignore"); torch.set_num_threads(1)
import quantem.diffractive_imaging.direct_ptychography as D
D.gc.collect=lambda *a,**k:0
exec(open("/verif/design_probes/p12.py").read().split("dp,vbf,mask=make(abers")[0])
from quantem.core.utils.validators import validate_aberration_coefficients as V
from quantem.diffractive_imaging.complex_probe import standardize_aberration_coefs as S
from quantem.diffractive_imaging.probe_models import ProbePixelated
d=123.0
print("validators", V({"defocus":d})==V({"C10":-d}), V({"defocus":d}))
print("standardize", {k:float(v) for k,v in S({"defocus":d}).items()}=={k:float(v) for k,v in S({"C10":-d}).items()})
a=ProbePixelated.from_params({"energy":80e3,"semiangle_cutoff":20,"defocus":d}); b=ProbePixelated.from_params({"energy":80e3,"semiangle_cutoff":20,"C10":-d}); c=ProbePixelated.from_params({"energy":80e3,"semiangle_cutoff":20,"aberration_coefs":{"defocus":d}})
print("probe_params", a.probe_params["aberration_coefs"]["C10"], b.probe_params["aberration_coefs"]["C10"], c.probe_params["aberration_coefs"]["C10"])
for x in (a,b,c): x.set_initial_probe((8,8),np.array([0.05,0.05]),1.0)
print("probe arrays equal", float((a.initial_probe-b.initial_probe).abs().max()), float((a.initial_probe-c.initial_probe).abs().max()))
dp1,_,_=make(abers={"defocus":d}); dp2,_,_=make(abers={"C10":-d})
print("DP ctor", dp1.aberration_coefs, dp2.aberration_coefs)
r1=dp1.reconstruct(deconvolution_kernel="prlx").corrected_bf; r2=dp2.reconstruct(deconvolution_kernel="prlx").corrected_bf; print("recon equal",float((r1-r2).abs().max()))
dp3,_,_=make()
r3=dp3.reconstruct(override_aberration_coefs={"defocus":d},deconvolution_kernel="prlx").corrected_bf; print("override alias equal",float((r3-r2).abs().max()))
s1=dp3._return_lateral_shifts(0.0,{"defocus":d},dp3.bf_mask); s2=dp3._return_lateral_shifts(0.0,{"C10":-d},dp3.bf_mask); print("_return_lateral_shifts alias vs canonical max diff",float((s1-s2).abs().max()), "(alias ignored)" if float(s1.abs().max())==0 else "")
try:
    f1=make()[0].fit_hyperparameters_cross_correlation(aberration_coefs={"defocus":d},rotation_angle=0.0,bin_factors=(1,),verbose=0).hyperparameter_state.optimized_aberrations
    f2=make()[0].fit_hyperparameters_cross_correlation(aberration_coefs={"C10":-d},rotation_angle=0.0,bin_factors=(1,),verbose=0).hyperparameter_state.optimized_aberrations
    print("xcorr fit alias",f1,"\nxcorr fit canon",f2)
except Exception as e: print("xcorr EXC",type(e).__name__,e)
