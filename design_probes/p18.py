import numpy as np, warnings, torch, tempfile, os, zipfile, zarr
warnings.simplefilter("ignore")
import quantem.core.io.serialize as S
from quantem.core.io.serialize import AutoSerialize, load
class Inner(AutoSerialize): pass
class Top(AutoSerialize): pass
def build():
    i=Inner(); i.a=1; i.arr=np.arange(3)
    t=Top(); t.x=3; t.arr=np.ones(4); t.inner=i; t.lst=[np.zeros(2),"s"]; t.t=torch.ones(2)
    return t
class Inject(Exception): pass
counter={"n":0,"k":None}
def tick(tag):
    counter["n"]+=1
    if counter["k"] is not None and counter["n"]-1==counter["k"]: raise OSError(f"injected at {tag}")
# seams at library boundary
orig_create=zarr.Group.create_array; orig_setattr=zarr.core.attributes.Attributes.__setitem__; orig_zwrite=zipfile.ZipFile.write; orig_req=zarr.Group.require_group
def p_create(self,*a,**k): tick("create_array"); return orig_create(self,*a,**k)
def p_attr(self,key,val): tick("attr:"+key); return orig_setattr(self,key,val)
def p_zw(self,*a,**k): tick("zipwrite"); return orig_zwrite(self,*a,**k)
def p_req(self,*a,**k): tick("require_group"); return orig_req(self,*a,**k)
zarr.Group.create_array=p_create; zarr.core.attributes.Attributes.__setitem__=p_attr; zipfile.ZipFile.write=p_zw; zarr.Group.require_group=p_req
for store in ("dir","zip"):
    d=tempfile.mkdtemp(); p=os.path.join(d,"o.zip" if store=="zip" else "o")
    counter.update(n=0,k=None); build().save(p,store=store); N=counter["n"]; full=set(vars(load(p)))
    res={}
    for k in range(N):
        d=tempfile.mkdtemp(); p=os.path.join(d,"o.zip" if store=="zip" else "o")
        counter.update(n=0,k=k)
        try: build().save(p,store=store); out="NOFAIL"
        except OSError as e: out=str(e)
        counter["k"]=None
        if not os.path.exists(p): st="absent"
        else:
            try:
                l=load(p); st="LOADS-PARTIAL missing="+str(sorted(full-set(vars(l)))) if set(vars(l))!=full else "loads-complete"
            except Exception as e: st="unreadable:"+type(e).__name__
        res.setdefault(st.split(" ")[0],[]).append(k)
    print(store,"ops",N,{k:(len(v),v[:4]) for k,v in res.items()})
