import numpy as np, warnings, torch, time, sys, tempfile, os, copy
warnings.simplefilter("ignore")
exec(open("p10.py").read().split("opt={")[0])
opt={"object":{"type":"adam","lr":5e-2},"probe":{"type":"adam","lr":1e-3}}
torch.set_num_threads(1)
for i in range(3):
    t0=time.time(); a=make(); t1=time.time(); a.reconstruct(num_iters=4,optimizer_params=copy.deepcopy(opt),reset=True); print("make",round(t1-t0,3),"recon4",round(time.time()-t1,3))
# determinism + batch invariance of loss/grad
a=make(); a.reconstruct(num_iters=0,optimizer_params=copy.deepcopy(opt),reset=True)
def lossgrad(pt,bs):
    pt.dset._set_targets("l2_amplitude")
    n=pt.dset.num_gpts; tot=0; g=None
    for s in range(0,n,bs):
        idx=np.arange(s,min(s+bs,n))
        pt.zero_grad_all()
        pi,_p,pf,ds_=pt.dset.forward(idx,pt.obj_padding_px)
        sp=pt.probe_model.forward(pf); op=pt.obj_model.forward(pi)
        _,ov=pt.forward_operator(op,sp,ds_); pred=pt.detector_model.forward(ov)
        l,_=pt.error_estimate(pred,idx); l.backward()
        tot+=float(l); gg=pt.obj_model._obj.grad.clone(); g=gg if g is None else g+gg
    nb=int(np.ceil(n/bs)); return tot/nb, g/nb
L,G=lossgrad(a,12)
for bs in [1,2,3,4,6]:
    l,g=lossgrad(a,bs); print("bs",bs,"loss rel",abs(l-L)/L,"grad rel",float((g-G).abs().max()/G.abs().max()))
# seeded determinism with minibatches
def runmb(seed,bs):
    p=make(rng=seed); p.reconstruct(num_iters=3,optimizer_params=copy.deepcopy(opt),reset=True,batch_size=bs); return p
p1=runmb(5,4); p2=runmb(5,4); print("same seed equal:",np.array_equal(p1.iter_losses,p2.iter_losses), p1.iter_losses)
p1.reconstruct(num_iters=3,reset=True,optimizer_params=copy.deepcopy(opt),batch_size=4); print("after reset equal:",np.array_equal(p1.iter_losses,p2.iter_losses),p1.iter_losses)
p3=runmb(6,4); print("diff seed differs:",not np.array_equal(p3.iter_losses,p2.iter_losses))
