import numpy as np, warnings, torch, math
warnings.simplefilter("ignore")
torch.set_default_dtype(torch.float64)
from quantem.diffractive_imaging.complex_probe import *
from quantem.diffractive_imaging.direct_ptycho_utils import ABERRATION_PRESETS
lam=0.0197
alpha=torch.linspace(0.0,0.03,9)[:,None].expand(9,14).clone().requires_grad_(True)
phi=torch.linspace(-3.1,3.1,14)[None,:].expand(9,14).clone().requires_grad_(True)
rng=np.random.default_rng(0)
worst=0
pairs=[("C10",None),("C12","phi12"),("C21","phi21"),("C23","phi23"),("C30",None),("C32","phi32"),("C34","phi34"),("C41","phi41"),("C43","phi43"),("C45","phi45"),("C50",None),("C52","phi52"),("C54","phi54"),("C56","phi56")]
for C,p in pairs+[("ALL",None)]:
    if C=="ALL":
        co={s:torch.tensor(float(rng.normal())*(1e3 if s.startswith("C") else 1.0)) for s in POLAR_SYMBOLS}
    else:
        co={C:torch.tensor(1234.5)}
        if p: co[p]=torch.tensor(0.37)
    chi=aberration_surface(alpha,phi,lam,co)
    cart=polar_to_cartesian_aberrations(co)
    labels=list(cart.keys())
    B=aberration_surface_cartesian_basis(alpha,phi,lam,labels)
    chi2=(B*torch.stack([cart[l] for l in labels])).sum(-1)
    back=cartesian_to_polar_aberrations(cart)
    chi3=aberration_surface(alpha,phi,lam,back)
    ga,gp=torch.autograd.grad(chi.sum(),(alpha,phi),retain_graph=True)
    dk,dphi=aberration_surface_polar_gradients(alpha,phi,co)
    e1=float((chi-chi2).abs().max()/chi.abs().max()); e3=float((chi-chi3).abs().max()/chi.abs().max())
    e2=float((dk-lam*ga).abs().max()/ (lam*ga).abs().max()); 
    m=alpha>0
    e4=float((dphi[m]-lam*(gp/alpha)[m]).abs().max()/max(float((lam*gp/alpha)[m].abs().max()),1e-30))
    print(C,"basis",f"{e1:.1e}","roundtrip",f"{e3:.1e}","d/dalpha",f"{e2:.1e}","d/dphi",f"{e4:.1e}", len(labels))
print(set(ABERRATION_PRESETS["all"])==set(polar_to_cartesian_aberrations({}).keys()))
