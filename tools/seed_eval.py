#!/venv/bin/python
"""Confirm and file one seeded breaking change produced by an independent sub-agent.

    seed_eval.py <PROP> <seed_out_dir> <k> [--checks C01,C14] [--tier quick] [--skip-tests]

Steps (all in a fresh scratch worktree of /repo HEAD under /tmp, removed at the end):
  1. demo without the change must PASS (exit 0);
  2. apply change<k>.diff; the repository's test-suite must still pass (176 passed);
  3. demo with the change must FAIL (exit != 0);
  4. run the registered check(s) with VERIF_REPO=<scratch> --no-evidence and record exit code and
     the first violation lines.
Writes /verif/seeded/<PROP>-<name>/{patch.diff, demo.py, meta.json}. Nothing is ever applied to /repo here.
"""
import argparse
import json
import os
import re
import shutil
import subprocess
import sys
import time

PY = "/venv/bin/python"
VERIF = os.path.dirname(os.path.dirname(os.path.abspath(__file__)))


def sh(cmd, cwd=None, env=None, timeout=3600):
    e = dict(os.environ)
    if env:
        e.update(env)
    p = subprocess.run(cmd, shell=True, cwd=cwd, env=e, capture_output=True, text=True, timeout=timeout)
    return p.returncode, (p.stdout + p.stderr)


def main():
    ap = argparse.ArgumentParser()
    ap.add_argument("prop")
    ap.add_argument("seed_out")
    ap.add_argument("k")
    ap.add_argument("--checks", default=None)
    ap.add_argument("--tier", default="quick")
    ap.add_argument("--skip-tests", action="store_true")
    ap.add_argument("--name", default=None)
    ap.add_argument("--base", default="HEAD", help="commit of /repo the patch is applied to (default HEAD); an older base is used when a later fix: commit rewrote the lines the patch touches")
    ap.add_argument("--note", default=None)
    a = ap.parse_args()
    diff = os.path.join(a.seed_out, f"change{a.k}.diff")
    demo = os.path.join(a.seed_out, f"demo{a.k}.py")
    notes = os.path.join(a.seed_out, f"notes{a.k}.json")
    checks = (a.checks or a.prop).split(",")
    name = a.name or f"{a.prop}-s{a.k}"
    out = os.path.join(VERIF, "seeded", name)
    wt = f"/tmp/sv-{name}-{os.getpid()}"
    meta = {"id": name, "property": a.prop, "source": "independent sub-agent given only the property text and a scratch worktree", "ran": []}
    prev = {}
    try:
        prev = json.load(open(os.path.join(out, "meta.json")))
    except Exception:
        pass
    try:
        meta["agent_notes"] = json.load(open(notes))
    except Exception as e:
        meta["agent_notes"] = {"error": f"notes unreadable: {e}"}
    rc, o = sh(f"git -C /repo worktree add --detach {wt} {a.base} -q")
    assert rc == 0, o
    meta["base"] = sh(f"git -C {wt} rev-parse --short HEAD")[1].strip()
    if a.note:
        meta["note"] = a.note
    try:
        env = {"PYTHONPATH": f"{wt}/src"}
        shutil.copy(demo, os.path.join(wt, "seed_demo.py"))
        rc0, o0 = sh(f"{PY} seed_demo.py", cwd=wt, env=env, timeout=1200)
        meta["demo_without_change"] = {"exit": rc0, "tail": o0[-300:]}
        meta["ran"].append("demo on unchanged worktree")
        rc, o = sh(f"git apply {os.path.abspath(diff)}", cwd=wt)
        if rc != 0:
            meta["apply_error"] = o[-500:]
            print("APPLY FAILED", o)
        else:
            rc1, o1 = sh(f"{PY} seed_demo.py", cwd=wt, env=env, timeout=1200)
            meta["demo_with_change"] = {"exit": rc1, "tail": o1[-300:]}
            meta["ran"].append("demo with change")
            if not a.skip_tests:
                t0 = time.time()
                rct, ot = sh(f"{PY} -m pytest -q -p no:cacheprovider --timeout=900 --continue-on-collection-errors", cwd=wt, env=env, timeout=3000)
                m = re.search(r"(\d+) passed", ot)
                f = re.search(r"(\d+) failed", ot)
                meta["tests_with_change"] = {"passed": int(m.group(1)) if m else None, "failed": int(f.group(1)) if f else 0, "summary": ot.strip().splitlines()[-1][-200:], "wall_s": round(time.time() - t0)}
                meta["ran"].append("baseline pytest command with change")
            if a.skip_tests and prev.get("tests_with_change"):
                meta["tests_with_change"] = prev["tests_with_change"]  # from the earlier full evaluation of the same patch
                meta["ran"].append("baseline pytest command with change (earlier evaluation of the same patch)")
            if prev.get("checks"):
                meta["history"] = prev.get("history", []) + [{"checks": prev["checks"], "detected_by": prev.get("detected_by")}]
            meta["checks"] = {}
            for c in checks:
                t0 = time.time()
                rcc, oc = sh(f"{PY} -u {VERIF}/run.py {c} --tier {a.tier} --no-evidence", env={"VERIF_REPO": wt}, timeout=6000)
                lines = [l for l in oc.splitlines() if "violation class" in l or "VIOLATION" in l or "BROKEN" in l or "KNOWN-FINDING" in l]
                meta["checks"][c] = {"tier": a.tier, "exit": rcc, "wall_s": round(time.time() - t0), "first_lines": [l[:400] for l in lines[:6]]}
                meta["ran"].append(f"run.py {c} --tier {a.tier} with VERIF_REPO=<scratch worktree with the change>")
            meta["detected_by"] = [c for c, r in meta["checks"].items() if r["exit"] == 1]
        ok = meta.get("demo_without_change", {}).get("exit") == 0 and meta.get("demo_with_change", {}).get("exit", 0) != 0 and ((meta.get("tests_with_change") or {}).get("passed") == 176 and meta["tests_with_change"]["failed"] == 0)
        meta["confirmed"] = bool(ok)
        os.makedirs(out, exist_ok=True)
        shutil.copy(diff, os.path.join(out, "patch.diff"))
        shutil.copy(demo, os.path.join(out, "demo.py"))
        n = meta["agent_notes"]
        meta["needs_to_manifest"] = n.get("needs_to_manifest")
        meta["summary"] = n.get("summary")
        with open(os.path.join(out, "meta.json"), "w") as f:
            json.dump(meta, f, indent=1)
            f.write("\n")
        print(json.dumps({k: meta.get(k) for k in ("id", "confirmed", "detected_by", "demo_without_change", "demo_with_change", "tests_with_change")}, indent=1)[:1500])
        for c, r in meta.get("checks", {}).items():
            print(c, "exit", r["exit"], r["wall_s"], "s")
            for l in r["first_lines"][:3]:
                print("   ", l[:300])
    finally:
        sh(f"git -C /repo worktree remove --force {wt}")
        shutil.rmtree(wt, ignore_errors=True)


if __name__ == "__main__":
    main()
