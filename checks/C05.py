"""C05 — checkpoint/resume equivalence for iterative ptychography (save, reload, clone).

Shape F (interruption points of an iteration history). For an n-iteration full-batch reconstruction of
a tiny real problem (checks/_ptycho.py) EVERY split point k = 0..n is enumerated (thorough: also every
pair k1 < k2), and at each split every resumption path — save with raw data -> from_file, save without
raw data -> from_file(dset=fresh dataset), clone() — on every store, for every optimizer, scheduler,
object type and number of probe modes of the lattice. The oracle is the uninterrupted run from the same
seeds, which is never saved or cloned.
"""
from __future__ import annotations

import copy
import itertools
import os
import shutil
import warnings

import numpy as np

from mc.harness import Broken, Tally

LEVEL = "fault_enumeration"
TECHNIQUE = "exhaustive interruption-point enumeration: every split point (and pair of split points) of an n-iteration run x every resume path x store x optimizer x scheduler x object type, compared with the uninterrupted run"
CLAIM = (
    "For every configuration of the lattice and every split point k = 0..n (thorough: every pair k1 < k2) the reconstruction is "
    "interrupted, saved and reloaded (zip and directory store, with raw data or with the dataset supplied on load) or cloned, and "
    "continued with the same calls (including learnable dataset parameters with their own optimizer, and object-filter constraints changed between reconstruct() calls before the split): iteration count, loss history, learning-rate history, constraints, object and probe right after "
    "reload equal the saved instance, and after continuing they equal the uninterrupted run within float32 tolerance. Enumerating every "
    "interruption point is the right level: a lost piece of state (optimizer moments, scheduler epoch, lr history) shows only at "
    "particular splits and only for particular optimizers/schedulers."
    " Further enumerated dimensions: keyword interactions across calls (optimizer_params re-passed without scheduler_params, a probe optimizer attached in a later stage), learning rates that are exactly zero at split points, a refused write-once save before the interruption (learnable dataset), and checkpoints written from inside the run by a logger subclass's per-iteration hook at every iteration and both stores."
    " Round-6 dimensions: runs of 12 (thorough 21) iterations with every split point, periodic checkpoints written onto ONE name (mode 'o') and reloaded after every overwrite, checkpoints continued by a fresh interpreter (other hash seed, working directory, import order; relative names), and scheduler option pairs (cycled momentum, plateau with cooldown and floor)."
)
NOTE = (
    "Trusted: the tiny problems of checks/_ptycho.py; full-batch updates only (mini-batch order is re-seeded on load and outside the "
    "claim); CPU only, so device moves degenerate to cpu->cpu; tolerance 2e-5 relative (observed 5e-7; a lost optimizer state or lr "
    "history changes losses by > 1e-2)."
)
RULE = (
    "Cartesian product object type x modes x optimizer x scheduler; inside each every split k = 0..n x resume path x store (and every "
    "pair of splits in thorough). Non-trivial = 0 < k < n (state before and after the interruption both matter); distinct = descriptors."
)

TOL = 2e-5  # relative; observed worst 5e-7 (file paths), clone bit-identical. Smallest mutant effect 1e-2.

# Object/probe arrays: file round trips are not bit-identical (contiguity changes the float32 summation order by 1 ulp),
# and Adam-type optimizers amplify such round-off in pixels whose gradient is ~0 (probe tails): update = lr*g/(|g|+eps),
# so a 1e-11 difference in g moves the pixel by lr*1e-11/1e-8. Observed worst over seeds {0,1,2,7,12345}: see ARRAY_TOL.
ARRAY_TOL = {"": 2e-4, "sgd": 2e-4, "sgd_momentum": 2e-4, "adam": 1e-2, "adamw": 1e-2, "adam_eps": 2e-4}

# Probe learning rates: the probe is normalised to the data (max |probe| ~ 5e2) and its gradients are ~1e-6, so that the
# probe only moves measurably (1-5 % over 4 iterations; with 1e-3 it moved by 1e-9 and probe-side state was invisible)
# with SGD rates ~1e4 and Adam rates ~1.
# With an object low-pass constraint the object deviation after a FILE round trip is erratic on the unchanged tree
# (2e-7 ... 2.8e-4 of the maximum over seeds / thread counts, while loss and probe stay at 1.5e-7): the filter acts on the
# whole padded array, including pixels the data do not constrain, where round-off is not damped by the updates. The
# cached-filter-envelope change these schedules exist for moves the object by 0.48.
LP_OBJ_TOL = 6e-3

OPTS = {
    "sgd": {"object": {"type": "sgd", "lr": 0.5}, "probe": {"type": "sgd", "lr": 2e4}},
    "sgd_momentum": {"object": {"type": "sgd", "lr": 0.3, "momentum": 0.8}, "probe": {"type": "sgd", "lr": 1e4, "momentum": 0.5}},
    "adam": {"object": {"type": "adam", "lr": 5e-2}, "probe": {"type": "adam", "lr": 1.0}},
    "adamw": {"object": {"type": "adamw", "lr": 5e-2}, "probe": {"type": "adamw", "lr": 1.0}},
    # Adam with a large eps (relative to the gradient scale of each parameter): no round-off amplification, so the arrays
    # can be compared tightly
    "adam_eps": {"object": {"type": "adam", "lr": 5e-2, "eps": 1e-3}, "probe": {"type": "adam", "lr": 1.0, "eps": 1e-6}},
}
SCHEDS = {
    "none": None,
    "exp": {"object": {"type": "exp", "gamma": 0.8}, "probe": {"type": "exp", "gamma": 0.9}},
    "linear": {"object": {"type": "linear", "start_factor": 0.2, "total_iters": 3}},
    "plateau": {"object": {"type": "plateau", "patience": 0, "cooldown": 0, "factor": 0.5, "threshold": 0.5}},
    "cyclic": {"object": {"type": "cyclic", "step_size_up": 2}},
    # option PAIRS: a scheduler option that makes the scheduler write further optimizer hyper-parameters (cycled momentum /
    # beta1), a plateau scheduler with cooldown and a floor, an exponential scheduler on the probe only
    "cyclic_momentum": {"object": {"type": "cyclic", "step_size_up": 1, "step_size_down": 2, "momentum": True}, "probe": {"type": "cyclic", "step_size_up": 2, "momentum": True}},
    "plateau_cooldown": {"object": {"type": "plateau", "patience": 0, "cooldown": 1, "factor": 0.5, "threshold": 0.5, "min_lr": 0.1}, "probe": {"type": "exp", "gamma": 0.7}},
    # edge values: a learning rate that is EXACTLY zero at some split points (ramp down to 0, cycle starting at 0)
    "linear_to_zero": {"object": {"type": "linear", "start_factor": 1.0, "end_factor": 0.0, "total_iters": 2}, "probe": {"type": "linear", "start_factor": 1.0, "end_factor": 0.0, "total_iters": 3}},
    "cyclic_from_zero": {"object": {"type": "cyclic", "base_lr": 0.0, "max_lr": 0.4, "step_size_up": 1, "step_size_down": 1, "mode": "triangular"}},
}
PATHS = [("raw", "zip"), ("raw", "dir"), ("noraw_dset", "zip"), ("noraw_dset", "dir"), ("clone", "-")]


def cfg_for(obj_type, modes, learn=False):
    return {"obj_type": obj_type, "slices": 2 if obj_type == "potential" else 1, "modes": modes, "roi": [8, 8], "scan": [2, 3], "step": "fractional", "pad": [8, 8], "learn_scan_positions": bool(learn), "learn_descan": bool(learn)}


DATASET_OPT = {"sgd": {"type": "sgd", "lr": 1e-2}, "sgd_momentum": {"type": "sgd", "lr": 1e-2, "momentum": 0.5}, "adam": {"type": "adam", "lr": 1e-2}, "adamw": {"type": "adamw", "lr": 1e-2}, "adam_eps": {"type": "adam", "lr": 1e-2, "eps": 1e-3}}


def opt_params(okind, learn):
    o = copy.deepcopy(OPTS[okind])
    if learn:
        # the dataset model (scan positions, descan shifts) then owns parameters and optimizer state of its own
        o["dataset"] = copy.deepcopy(DATASET_OPT[okind])
    return o


def build(obj_type, modes, seed, learn=False):
    from checks import _ptycho

    with warnings.catch_warnings():
        warnings.simplefilter("ignore")
        P = _ptycho.build(cfg_for(obj_type, modes, learn), np.random.default_rng([seed, 5, 1, modes]))
        P.set_object(_ptycho.perturb_object(P.obj_true, P.cfg, P.geo, "noise", np.random.default_rng([seed, 5, 2, modes])))
        P.set_probe(_ptycho.perturb_probe(P.probe_true, P.cfg, P.geo, "defocus"))
    return P


def start(P, okind, sname, learn=False, sched=None):
    op, sp = opt_params(okind, learn), copy.deepcopy(SCHEDS[sname])
    if sched in START_OBJECT_ONLY:
        op = {k: v for k, v in op.items() if k != "probe"}
        sp = _sched_for(sname, set(op))
    P.ptycho.reconstruct(num_iters=0, reset=True, optimizer_params=op, scheduler_params=sp)
    return P.ptycho


def _sched_for(sname, keys):
    sp = copy.deepcopy(SCHEDS[sname])
    return None if sp is None else {k: v for k, v in sp.items() if k in keys}


SCHEDULES = {
    None: None,
    # object low-pass filter constant / changed between two reconstruct() calls before the interruption point
    "lp_const": lambda i, c: {"constraints": {"object": {"q_lowpass": 0.15}}},
    "lp_changed": lambda i, c: {"constraints": {"object": {"q_lowpass": 0.15 if i < 2 else 0.08}}},
    "lp_switched_on": lambda i, c: {"constraints": {"object": {"q_lowpass": None if i < 1 else 0.1}}},
    # keyword interactions between calls: the optimizers are re-configured at iteration 1 by a call that passes
    # optimizer_params ONLY (the schedulers given at the start keep running and must follow the new optimizers) ...
    "opt_again": lambda i, c: ({"optimizer_params": opt_params(c["okind"], c["learn"])} if i == 1 else {}),
    # ... and a staged reconstruction: object only first, the probe optimizer attached by the call of iteration 2 (state of
    # a parameter that had no optimizer before the interruption — e.g. its accumulated gradient — is part of the run)
    "probe_later": lambda i, c: ({"optimizer_params": opt_params(c["okind"], c["learn"]), "scheduler_params": copy.deepcopy(SCHEDS[c["sname"]])} if i == 2 else {}),
    "probe_later_opt_only": lambda i, c: ({"optimizer_params": opt_params(c["okind"], c["learn"])} if i == 2 else {}),
}
START_OBJECT_ONLY = {"probe_later", "probe_later_opt_only"}


def run_iters(pt, start, stop, sched, c=None):
    """Iterations start..stop-1 'with the same calls': one reconstruct() call, or — with a call schedule — one call
    per iteration, each passing the keyword arguments the schedule prescribes for that iteration."""
    if stop <= start:
        return
    f = SCHEDULES[sched]
    if f is None:
        pt.reconstruct(num_iters=stop - start)
    else:
        for i in range(start, stop):
            pt.reconstruct(num_iters=1, **copy.deepcopy(f(i, c or {})))


def observe(pt):
    lrs = pt.iter_lrs
    return {
        "num_iters": int(pt.num_iters),
        "losses": np.array(pt.iter_losses, dtype=np.float64),
        "lrs": {k: np.array(v, dtype=np.float64) for k, v in sorted(lrs.items())},
        "obj": np.array(pt.obj),
        "probe": np.array(pt.probe),
        "positions": pt.dset.scan_positions_px.detach().cpu().numpy().astype(np.float64).copy(),
        "descan": pt.dset.descan_shifts.detach().cpu().numpy().astype(np.float64).copy(),
        "constraints": repr(sorted((k, repr(v)) for k, v in pt.constraints.items() if k in ("object", "probe"))),
    }


def rel(a, b):
    a, b = np.asarray(a), np.asarray(b)
    if a.shape != b.shape:
        return np.inf
    s = max(float(np.abs(b).max()) if b.size else 0.0, 1e-30)
    return float(np.abs(a - b).max()) / s if b.size else 0.0


def compare(t, got, want, what, cls, case, exact_meta=True):
    """Compare two observation records; `what` names the relation in messages."""
    msgs = []
    if got["num_iters"] != want["num_iters"]:
        msgs.append(("iteration_count", f"num_iters {got['num_iters']} vs {want['num_iters']}"))
    e = rel(got["losses"], want["losses"])
    t.stat(f"{what}_loss_rel_err", e if np.isfinite(e) else 1e9)
    if not e <= TOL:
        msgs.append(("loss_history", f"loss history differs by {e:.3g} (relative): {got['losses'].tolist()} vs {want['losses'].tolist()}"))
    if sorted(got["lrs"]) != sorted(want["lrs"]):
        msgs.append(("lr_history", f"lr history keys {sorted(got['lrs'])} vs {sorted(want['lrs'])}"))
    else:
        for k in want["lrs"]:
            e = rel(got["lrs"][k], want["lrs"][k])
            if not e <= 1e-9:
                msgs.append(("lr_history", f"learning-rate history of {k!r} differs: {got['lrs'][k].tolist()} vs {want['lrs'][k].tolist()}"))
                break
    for name in ("obj", "probe", "positions", "descan"):
        e = rel(got[name], want[name]) if name != "descan" else (float(np.abs(got[name] - want[name]).max()) if got[name].shape == want[name].shape else np.inf)
        t.stat(f"{what}_{name}_rel_err_{cls.get('optimizer', '')}", e if np.isfinite(e) else 1e9)
        atol = ARRAY_TOL.get(cls.get("optimizer", ""), 10 * TOL)
        if name == "obj" and str(cls.get("constraint_schedule", "")).startswith("lp_"):
            atol = max(atol, LP_OBJ_TOL)
        if not e <= atol:
            msgs.append((name, f"{name} differs by {e:.3g} (relative to its maximum)"))
    if got["constraints"] != want["constraints"]:
        msgs.append(("constraints", f"constraints differ: {got['constraints'][:200]} vs {want['constraints'][:200]}"))
    for field, m in msgs:
        t.fail(dict(cls, relation=what, field=field), case, f"{what}: {m}")
    return not msgs


def resume(P, pt, path, store, tag, scratch, seed, obj_type, modes, learn=False, keep=False):
    """Interrupt `pt` here: returns a resumed copy through the given path. keep=True leaves the checkpoint where it is,
    so that the next save to the same name (mode 'o') overwrites an existing checkpoint, as periodic checkpointing does."""
    from quantem.diffractive_imaging.ptychography import Ptychography

    if path == "clone":
        c = pt.clone()
    else:
        target = os.path.join(scratch, f"{tag}.zip" if store == "zip" else tag)
        pt.save(target, mode="o", store=store, save_raw_data=(path == "raw"), verbose=0)
        if path == "raw":
            c = Ptychography.from_file(target, auto_reload_dataset=False)
        else:
            fresh = build(obj_type, modes, seed, learn).dset  # an identically preprocessed dataset, as a user would supply
            c = Ptychography.from_file(target, dset=fresh)
        if keep:
            pass
        elif os.path.isdir(target):
            shutil.rmtree(target, ignore_errors=True)
        elif os.path.exists(target):
            os.remove(target)
    c.verbose = 0
    return c


FRESH_CHILD = (
    "import os, sys, json\n"
    "a = json.load(open(sys.argv[1]))\n"
    "os.chdir(a['cwd'])\n"
    "import quantem.core.visualization  # another import order than the saving process\n"
    "from checks import C05\n"
    "C05.fresh_child(a)\n"
)


def fresh_child(a):
    """Runs in a FRESH interpreter (other hash seed, other working directory, other import order): loads every checkpoint
    by a RELATIVE name, continues it with the same calls and writes what it observes."""
    import torch

    torch.set_num_threads(1)
    from quantem.diffractive_imaging.ptychography import Ptychography

    out = {}
    with warnings.catch_warnings():
        warnings.simplefilter("ignore")
        for k in a["ks"]:
            try:
                c = Ptychography.from_file(a["names"][str(k)], auto_reload_dataset=False)
                c.verbose = 0
                o0 = observe(c)
                run_iters(c, k, a["n"], a["sched"], a["cc"])
                o1 = observe(c)
                for tag, o in (("loaded", o0), ("resumed", o1)):
                    for f in ("losses", "obj", "probe", "positions", "descan"):
                        out[f"{k}|{tag}|{f}"] = o[f]
                    for name, v in o["lrs"].items():
                        out[f"{k}|{tag}|lr|{name}"] = v
                    out[f"{k}|{tag}|meta"] = np.array(json_dumps({"num_iters": o["num_iters"], "constraints": o["constraints"]}))
            except Exception as ex:  # reported by the parent as a verdict
                out[f"{k}|error"] = np.array(f"{type(ex).__name__}: {str(ex)[:300]}")
    np.savez(a["out"], **out)


def json_dumps(x):
    import json

    return json.dumps(x, sort_keys=True)


def unpack_child(z, k, tag):
    import json

    meta = json.loads(str(z[f"{k}|{tag}|meta"]))
    lrs = {key.split("|", 3)[3]: z[key] for key in z.files if key.startswith(f"{k}|{tag}|lr|")}
    return {"num_iters": meta["num_iters"], "constraints": meta["constraints"], "lrs": dict(sorted(lrs.items())), **{f: z[f"{k}|{tag}|{f}"] for f in ("losses", "obj", "probe", "positions", "descan")}}


def checkpoint_logger_class():
    """The logger subclass is saved with the reconstruction, so it must be importable by name when the file is loaded:
    it is created once at module level (lazily: it needs the library import)."""
    if "CheckpointLogger" not in globals():
        from quantem.diffractive_imaging.logger_ptychography import LoggerPtychography

        class CheckpointLogger(LoggerPtychography):
            cfg = {}

            def log_iter(self, object_model, probe_model, dataset_model, iter, *a, **kw):
                super().log_iter(object_model, probe_model, dataset_model, iter, *a, **kw)
                c = type(self).cfg
                if c.get("target") is not None and iter + 1 == c["at"]:
                    c["target"].save(c["path"], mode="o", store=c["store"], save_raw_data=True, verbose=0)

        CheckpointLogger.__qualname__ = "CheckpointLogger"
        CheckpointLogger.__module__ = __name__
        globals()["CheckpointLogger"] = CheckpointLogger
    return globals()["CheckpointLogger"]


def w_config(item, seed=0, n=4, scratch="/tmp"):
    """One shard: a configuration x one resume path (all split points), or x "pairs" (all pairs of split points)."""
    obj_type, modes, okind, sname, part = item[:5]
    learn = bool(item[5]) if len(item) > 5 else False
    sched = item[6] if len(item) > 6 else None
    pairs = part == "pairs"
    paths = [] if part in ("pairs", "hook", "fresh") else [PATHS[int(part)]]
    neutral = item[7] if len(item) > 7 else None
    if neutral and neutral.startswith("long"):  # progress-dependent behaviour: runs longer than ten iterations
        n = int(neutral[4:])
    keep = neutral == "same_target"
    t = Tally()
    base = {"obj_type": obj_type, "modes": modes, "optimizer": okind, "scheduler": sname, "n": n, "learn_dataset": learn, "constraint_schedule": sched, "neutral": neutral}
    cls0 = {"optimizer": okind, "scheduler": sname, "learn_dataset": learn, "constraint_schedule": str(sched)}
    if neutral:
        cls0["neutral"] = neutral
    sub = os.path.join(scratch, f"c05-{os.getpid()}")
    os.makedirs(sub, exist_ok=True)
    cc = {"okind": okind, "sname": sname, "learn": learn}
    try:
        with warnings.catch_warnings():
            warnings.simplefilter("ignore")
            # the oracle: an uninterrupted run that is never saved or cloned
            ref = start(build(obj_type, modes, seed, learn), okind, sname, learn, sched)
            R0 = observe(ref)
            run_iters(ref, 0, n, sched, cc)
            R = observe(ref)
            if not (R["losses"][0] > 0 and np.all(np.isfinite(R["losses"])) and abs(R["losses"][-1] - R["losses"][0]) > 1e-6 * R["losses"][0]):
                raise Broken(f"reference run is degenerate: losses {R['losses']}")
            if sched not in START_OBJECT_ONLY or n > 2:
                if rel(R["probe"], R0["probe"]) < 1e-3:
                    raise Broken(f"the probe moved by only {rel(R['probe'], R0['probe']):.2g} in the reference run: probe-side state would be invisible")
            if learn and float(np.abs(R["positions"] - observe(start(build(obj_type, modes, seed, learn), okind, sname, learn, sched))["positions"]).max()) == 0.0:
                raise Broken("learnable scan positions did not move during the reference run: the dataset dimension is vacuous")
            Pb = build(obj_type, modes, seed, learn)
            b = start(Pb, okind, sname, learn, sched)
            for k in range(0, n + 1) if paths else []:
                if neutral == "failed_noraw_save" and k == 0:  # once, at the start: whatever it leaves behind is STALE later
                    # a write-once save (without raw data) onto an existing path is refused: it must leave nothing behind
                    # on the live object either (temporaries attached for the save), whatever is saved or loaded later
                    blocked = os.path.join(sub, "exists.zip")
                    open(blocked, "wb").close()
                    try:
                        b.save(blocked, mode="w", store="zip", save_raw_data=False, verbose=0)
                        raise Broken("a write-once save onto an existing file was not refused")
                    except FileExistsError:
                        pass
                    finally:
                        os.remove(blocked)
                saved = observe(b)
                for path, store in paths:
                    case = dict(base, k=k, path=path, store=store)
                    cls = dict(cls0, path=path)
                    try:
                        c = resume(Pb, b, path, store, f"ckpt-{path}-{store}" if keep else f"k{k}-{path}-{store}", sub, seed, obj_type, modes, learn, keep=keep)
                        ok_now = compare(t, observe(c), saved, "reloaded_equals_saved", cls, case)
                        run_iters(c, k, n, sched, cc)
                        compare(t, observe(c), R, "resumed_equals_uninterrupted", cls, case)
                    except Broken:
                        raise
                    except Exception as ex:  # the resume path itself failing is a verdict, not a harness error
                        t.fail(dict(cls, relation="resume_path_raises", field=type(ex).__name__), case, f"resume via {path}/{store} at k={k} raised {type(ex).__name__}: {str(ex)[:300]}")
                    t.case(key=case, nontrivial=0 < k < n, outcome=[k, path, store, round(float(R["losses"][-1]), 8)])
                if k < n:
                    run_iters(b, k, k + 1, sched, cc)
            # saving/cloning must not disturb the original either
            if paths:
                compare(t, observe(b), R, "saved_original_equals_uninterrupted", dict(cls0, path="original:" + paths[0][0]), dict(base, k="all", path=paths[0][0], store=paths[0][1]))
            if part == "hook":
                # a checkpoint written from INSIDE the run: a logger subclass whose per-iteration hook saves the
                # reconstruction once iteration k is complete (the documented place for periodic checkpoints). The run
                # that wrote it must end like the uninterrupted run, and the checkpoint must continue like it.
                from quantem.diffractive_imaging.ptychography import Ptychography

                CheckpointLogger = checkpoint_logger_class()

                for k in range(1, n + 1):
                    for store in ("zip", "dir"):
                        case = dict(base, k=k, path="hook_raw", store=store)
                        cls = dict(cls0, path="hook_raw")
                        target = os.path.join(sub, f"hook{k}.zip" if store == "zip" else f"hook{k}")
                        try:
                            H = start(build(obj_type, modes, seed, learn), okind, sname, learn, sched)
                            H.logger = CheckpointLogger(log_dir=os.path.join(sub, "tb"), run_prefix=f"k{k}{store}", log_images_every=10**9, log_probe_images=False)
                            CheckpointLogger.cfg = {"target": H, "at": k, "path": target, "store": store}
                            run_iters(H, 0, n, sched, cc)
                            CheckpointLogger.cfg = {}
                            compare(t, observe(H), R, "run_that_checkpointed_from_its_hook_equals_uninterrupted", cls, case)
                            c = Ptychography.from_file(target, auto_reload_dataset=False)
                            c.verbose = 0
                            if int(c.num_iters) != k:
                                t.fail(dict(cls, relation="checkpoint_from_hook_holds_k_iterations", field="iteration_count"), case, f"checkpoint written from log_iter after iteration {k} reports num_iters={int(c.num_iters)}")
                            run_iters(c, k, n, sched, cc)
                            compare(t, observe(c), R, "resumed_equals_uninterrupted", cls, case)
                        except Broken:
                            raise
                        except Exception as ex:
                            t.fail(dict(cls, relation="resume_path_raises", field=type(ex).__name__), case, f"checkpoint from the logger hook at k={k} ({store}) raised {type(ex).__name__}: {str(ex)[:300]}")
                        finally:
                            CheckpointLogger.cfg = {}
                            shutil.rmtree(target, ignore_errors=True) if os.path.isdir(target) else (os.path.exists(target) and os.remove(target))
                        t.case(key=case, nontrivial=k < n, outcome=[k, "hook", store])
            if part == "fresh":
                # PROCESS boundary: every checkpoint k = 0..n is written here and loaded, continued and observed by ONE fresh
                # interpreter per store with another hash seed, another working directory (relative checkpoint names) and
                # another import order
                import json
                import subprocess
                import sys

                for store in ("zip", "dir"):
                    cwd = os.path.join(sub, f"elsewhere-{store}")
                    os.makedirs(cwd, exist_ok=True)
                    names, saved = {}, {}
                    a = start(build(obj_type, modes, seed, learn), okind, sname, learn, sched)
                    for k in range(0, n + 1):
                        names[str(k)] = f"ck{k}.zip" if store == "zip" else f"ck{k}"
                        saved[k] = observe(a)
                        a.save(os.path.join(cwd, names[str(k)]), mode="w", store=store, save_raw_data=True, verbose=0)
                        if k < n:
                            run_iters(a, k, k + 1, sched, cc)
                    spec = os.path.join(sub, f"fresh-{store}.json")
                    outp = os.path.join(sub, f"fresh-{store}.npz")
                    with open(spec, "w") as f:
                        json.dump({"cwd": cwd, "names": names, "ks": list(range(0, n + 1)), "n": n, "sched": sched, "cc": cc, "out": outp}, f)
                    env = dict(os.environ, PYTHONHASHSEED="4242")
                    pr = subprocess.run([sys.executable, "-c", FRESH_CHILD, spec], env=env, capture_output=True, text=True, timeout=900)
                    if pr.returncode != 0 or not os.path.exists(outp):
                        raise Broken(f"fresh interpreter failed: rc={pr.returncode} {pr.stderr[-600:]}")
                    z = np.load(outp, allow_pickle=False)
                    for k in range(0, n + 1):
                        case = dict(base, k=k, path="fresh_process_raw", store=store)
                        cls = dict(cls0, path="fresh_process_raw")
                        if f"{k}|error" in z.files:
                            t.fail(dict(cls, relation="resume_path_raises", field=str(z[f"{k}|error"]).split(":")[0]), case, f"loading / continuing checkpoint {k} ({store}) in a fresh interpreter raised {z[f'{k}|error']}")
                        else:
                            compare(t, unpack_child(z, k, "loaded"), saved[k], "reloaded_equals_saved", cls, case)
                            compare(t, unpack_child(z, k, "resumed"), R, "resumed_equals_uninterrupted", cls, case)
                        t.case(key=case, nontrivial=0 < k < n, outcome=[k, "fresh", store])
                    shutil.rmtree(cwd, ignore_errors=True)
            if pairs:
                for k1, k2 in itertools.combinations(range(0, n + 1), 2):
                    for (p1, s1), (p2, s2) in [(("raw", "zip"), ("noraw_dset", "dir")), (("clone", "-"), ("raw", "dir")), (("noraw_dset", "zip"), ("clone", "-"))]:
                        if learn and "noraw_dset" in (p1, p2):
                            p1, s1, p2, s2 = ("raw", "dir", "clone", "-") if p1 == "raw" else ("clone", "-", "raw", "zip")
                        case = dict(base, k=[k1, k2], path=[p1, p2], store=[s1, s2])
                        cls = dict(cls0, path=f"{p1}+{p2}")
                        try:
                            a = start(build(obj_type, modes, seed, learn), okind, sname, learn, sched)
                            run_iters(a, 0, k1, sched, cc)
                            c1 = resume(None, a, p1, s1, f"p{k1}-{k2}-a", sub, seed, obj_type, modes, learn)
                            run_iters(c1, k1, k2, sched, cc)
                            c2 = resume(None, c1, p2, s2, f"p{k1}-{k2}-b", sub, seed, obj_type, modes, learn)
                            run_iters(c2, k2, n, sched, cc)
                            compare(t, observe(c2), R, "resumed_twice_equals_uninterrupted", cls, case)
                        except Broken:
                            raise
                        except Exception as ex:
                            t.fail(dict(cls, relation="resume_path_raises", field=type(ex).__name__), case, f"double resume at k={k1},{k2} via {p1},{p2} raised {type(ex).__name__}: {str(ex)[:300]}")
                        t.case(key=case, nontrivial=True, outcome=[k1, k2, p1, p2])
    finally:
        shutil.rmtree(sub, ignore_errors=True)
    t.sample(dict(base, splits=list(range(n + 1)), part="all pairs of splits" if pairs else ({"hook": "checkpoint from the logger hook", "fresh": "checkpoints continued in a fresh interpreter"}[part] if part in ("hook", "fresh") else f"{paths[0][0]}/{paths[0][1]}")), cap=2)
    return t


def lattice(quick):
    if quick:
        objs = [("complex", 1), ("potential", 2)]
        opts = ["sgd", "adam", "adamw", "adam_eps"]
        scheds = ["none", "exp", "linear", "linear_to_zero"]  # linear/cyclic schedulers depend on the scheduler's epoch counter, exp does not
    else:
        objs = [("complex", 1), ("complex", 2), ("pure_phase", 1), ("pure_phase", 2), ("potential", 1), ("potential", 2)]
        opts = list(OPTS)
        scheds = list(SCHEDS)
    return list(itertools.product(objs, opts, scheds))


def run(ctx):
    q = ctx.quick
    ctx.assume(
        "full-batch updates (batch_size=None); mini-batch order is re-seeded on load and outside the claim",
        "the 'dataset supplied on load' path passes an identically built and preprocessed dataset, as a user reloading their data would",
        "CPU only: device moves are cpu->cpu",
        "object is compared through the public obj property (global phase removed by the library), probe through the public probe property",
    )
    n = 4 if q else 6

    def once():
        with warnings.catch_warnings():
            warnings.simplefilter("ignore")
            pt = start(build("complex", 1, ctx.seed), "adam", "exp")
            pt.reconstruct(num_iters=2)
            o = observe(pt)
        return (o["losses"].tobytes(), o["obj"].tobytes(), o["probe"].tobytes(), o["constraints"])

    ctx.selftest(once)
    configs = [(o, m, ok, sn) for (o, m), ok, sn in lattice(q)]
    parts = list(range(len(PATHS))) + ([] if q else ["pairs"])
    items = [c + (p, False) for c in configs for p in parts]
    # learnable dataset parameters (scan positions, descan): the dataset model then carries optimizer state of its own
    learn_cfgs = [("complex", 1, "adam", "exp"), ("potential", 2, "sgd", "none")] if q else [(o, m, ok, sn) for (o, m) in [("complex", 1), ("potential", 2)] for ok in ("sgd", "adam", "adam_eps") for sn in ("none", "exp", "linear")]
    # with learnable dataset parameters only the paths that save the reconstruction TOGETHER WITH ITS DATA (the property's
    # wording) and clone() are judged: a save without raw data does not store the dataset model, hence not its optimizer
    # state either (observed: the 'dataset' learning-rate history is lost on that path) — outside the statement.
    learn_parts = [p for p in parts if p == "pairs" or PATHS[p][0] != "noraw_dset"]
    items += [c + (p, True) for c in learn_cfgs for p in learn_parts]
    # constraint schedules: an object filter constraint that is constant, changed or switched on between reconstruct() calls
    # BEFORE the interruption point (a live object may hold derived state that a reloaded one rebuilds from the constraints)
    sched_cfgs = [("complex", 1, "sgd", "none")] if q else [("complex", 1, "sgd", "none"), ("potential", 2, "adam_eps", "exp"), ("pure_phase", 1, "sgd", "linear")]
    scheds = ["lp_changed", "lp_switched_on"] if q else ["lp_const", "lp_changed", "lp_switched_on"]
    items += [c + (p, False, sc) for c in sched_cfgs for sc in scheds for p in parts]
    # keyword interactions between calls (see SCHEDULES): every split point x every path again
    kw_cfgs = [(("complex", 1, "sgd", "exp"), "opt_again"), (("complex", 1, "sgd", "none"), "probe_later"), (("complex", 1, "sgd_momentum", "linear"), "probe_later_opt_only")]
    if not q:
        kw_cfgs += [(("potential", 2, "adam_eps", "linear"), "opt_again"), (("pure_phase", 1, "sgd_momentum", "exp"), "opt_again"), (("potential", 2, "sgd", "exp"), "probe_later"), (("complex", 2, "adam_eps", "none"), "probe_later"), (("potential", 2, "sgd", "exp"), "probe_later_opt_only")]
    items += [c + (p, False, sc) for c, sc in kw_cfgs for p in parts]
    # checkpoints written from the per-iteration logger hook, at every iteration, both stores
    hook_cfgs = [("complex", 1, "sgd", "linear"), ("complex", 1, "adam_eps", "exp")] if q else [(o, m, ok, sn) for (o, m) in [("complex", 1), ("potential", 2)] for ok in ("sgd", "adam_eps") for sn in ("none", "exp", "linear", "plateau", "cyclic")]
    items += [c + ("hook", False) for c in hook_cfgs]
    # a refused save (write-once, without raw data) before every interruption, with learnable dataset parameters
    items += [c + (p, True, None, "failed_noraw_save") for c in learn_cfgs[:2] for p in learn_parts if p != "pairs"]
    # option pairs of the schedulers (see SCHEDS)
    if q:
        items += [c + (p, False) for c in [("complex", 1, "adam", "cyclic_momentum"), ("potential", 2, "sgd_momentum", "cyclic_momentum"), ("complex", 1, "sgd", "plateau_cooldown")] for p in parts]
    # progress-dependent behaviour: runs of 12 (thorough 21) iterations, every split point, one path per kind
    long_n = "long12" if q else "long21"
    long_cfgs = [("complex", 1, "adam_eps", "exp"), ("potential", 2, "sgd_momentum", "cyclic")] if q else [("complex", 1, "adam_eps", "exp"), ("potential", 2, "sgd_momentum", "cyclic"), ("pure_phase", 1, "sgd", "plateau"), ("complex", 2, "adamw", "linear")]
    items += [c + (p, False, None, long_n) for c in long_cfgs for p in (0, 3, 4)]
    items += [c + (p, True, None, long_n) for c in learn_cfgs[:1] for p in (1, 4)]
    # periodic checkpointing: every save goes to ONE name and overwrites the previous checkpoint (mode 'o')
    items += [c + (p, False, None, "same_target") for c in ([("complex", 1, "adam", "exp")] if q else [("complex", 1, "adam", "exp"), ("potential", 2, "sgd_momentum", "linear")]) for p in (0, 1, 2, 3)]
    # process boundary: checkpoints continued by a fresh interpreter (other hash seed / cwd / import order, relative names)
    fresh_cfgs = [("complex", 1, "adam_eps", "linear", False), ("potential", 2, "sgd_momentum", "exp", True)] if q else [("complex", 1, "adam_eps", "linear", False), ("potential", 2, "sgd_momentum", "exp", True), ("pure_phase", 2, "sgd", "plateau", False), ("complex", 1, "adam", "cyclic", True)]
    items = [c[:4] + ("fresh", c[4]) for c in fresh_cfgs] + items  # the longest shards first
    ctx.coverage["bounds"] = {"iterations": n, "long_runs": int(long_n[4:]), "splits": list(range(n + 1)), "paths": [f"{p}/{s}" for p, s in PATHS], "configs": len(configs), "pairs_of_splits": not q}
    ctx.pmap(w_config, items, chunk=1, label="resume lattice", seed=ctx.seed, n=n, scratch=ctx.scratch)


def replay(ctx, case):
    if case.get("path") == "hook_raw":
        part = "hook"
    elif case.get("path") == "fresh_process_raw":
        part = "fresh"
    elif isinstance(case.get("k"), list):
        part = "pairs"
    else:
        part = [i for i, (p, s) in enumerate(PATHS) if p == case["path"] and s == case["store"]][0]
    t = w_config((case["obj_type"], case["modes"], case["optimizer"], case["scheduler"], part, bool(case.get("learn_dataset")), case.get("constraint_schedule"), case.get("neutral")), seed=ctx.seed, n=case["n"], scratch=ctx.scratch)
    want = (case.get("k"), case.get("path"), case.get("store"))
    for f in t.fails:
        c = f["case"]
        if (c.get("k"), c.get("path"), c.get("store")) == want:
            print("  ", f["msg"])
            ctx.fail(f["cls"], f["case"], f["msg"])
