import numpy as np, warnings, torch
warnings.simplefilter("ignore")
from quantem.core.utils.imaging_utils import cross_correlation_shift, cross_correlation_shift_torch
def bandlimited(shape, seed=0, frac=0.25):
    rng=np.random.default_rng(seed); H,W=shape
    F=np.zeros(shape,complex); ky=np.fft.fftfreq(H)[:,None]; kx=np.fft.fftfreq(W)[None,:]
    m=(np.abs(ky)<=frac)&(np.abs(kx)<=frac)
    F[m]=rng.normal(size=m.sum())+1j*rng.normal(size=m.sum())
    im=np.fft.ifft2(F).real; return im/np.abs(im).max()
def fshift(im, s):
    H,W=im.shape; ky=np.fft.fftfreq(H)[:,None]; kx=np.fft.fftfreq(W)[None,:]
    return np.fft.ifft2(np.fft.fft2(im)*np.exp(-2j*np.pi*(ky*s[0]+kx*s[1]))).real
print("== cross correlation")
for shape in [(16,16),(15,18),(9,12)]:
    ref=bandlimited(shape)
    worst={}
    for up in [1,2,4,8,16]:
        errs=[];errt=[]
        for s in [(0,0),(1,0),(0,-2),(3,4),(7,-5),(0.5,0.25),(1.3,-2.7),(-0.125,3.375),(shape[0]//2+1, 1)]:
            im=fshift(ref,(-s[0],-s[1]))  # im shifted by -s => shifting im by +s reproduces ref
            est=np.array(cross_correlation_shift(ref,im,upsample_factor=up))
            d=(est-np.array(s)+np.array(shape)/2)%np.array(shape)-np.array(shape)/2
            errs.append(np.abs(d).max())
            et=cross_correlation_shift_torch(torch.tensor(ref),torch.tensor(im),upsample_factor=up).numpy()
            dt=(et-np.array(s)+np.array(shape)/2)%np.array(shape)-np.array(shape)/2
            errt.append(np.abs(dt).max())
        print(shape,"up",up,"np max err",np.round(errs,3),"| torch",np.round(errt,3))
