import numpy as np, warnings, torch, math
warnings.simplefilter("ignore")
exec(open("p12.py").read().split("dp,vbf,mask=make(abers")[0])
from quantem.diffractive_imaging.direct_ptycho_utils import fit_aberrations_from_shifts
dp,vbf,mask=make()
bad=0;n=0
for C10 in [-200.,-50.,30.,150.]:
  for C12 in [0.,10.,40.]:
    for phi12 in [-1.2,-0.4,0.,0.7,1.4]:
      for rot in [-1.5,-0.8,0.,0.3,1.2,1.55]:
        if C12>=abs(C10): continue
        co={"C10":C10,"C12":C12,"phi12":phi12}
        sh=dp._return_lateral_shifts(rot,co,dp.bf_mask)
        fit=fit_aberrations_from_shifts(sh,dp.bf_mask,dp.wavelength,dp.gpts,dp.sampling)
        n+=1
        dphi=((fit["phi12"]-phi12+math.pi/2)%math.pi)-math.pi/2 if C12>0 else 0
        ok=abs(fit["C10"]-C10)<1e-2*abs(C10) and abs(fit["C12"]-C12)<1e-2*max(abs(C10),1) and abs(dphi)<1e-2 and abs(fit["rotation_angle"]-rot)<1e-3
        if not ok:
            bad+=1
            if bad<8: print("MISMATCH",co,rot,fit)
print("fit cases",n,"bad",bad)
