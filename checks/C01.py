"""C01 — serializer round trip: load(save(x)) is structurally equal to x, for both stores, every
compression level, str and Path targets, both write modes; saving the loaded object again is a fixed point.

Shape L (configuration lattice), level exploration. Every graph of the grammar G(d, w) of
checks/_serial.py is saved and loaded by the real `AutoSerialize.save` / `quantem.core.io.load` into
both stores and judged by three relations:

  R1  load(save(x)) ~ x                      (slack: NumPy scalars and all-numeric sequences by numeric value)
  R2  load(save_zip(x)) == load(save_dir(x)) (exact types)
  R3  load(save(y)) == y for y = load(save(x))  (fixed point, exact types)

and a core of graphs is pushed through the full product store x compression {None, 0..9} x path
{str, Path} x mode {w, o, o onto an existing target of another class}; every point must satisfy R1 and be
exactly equal to the default-configuration result of the same store (configuration independence).

Excluded from the input alphabet exactly as the quantifier says: reserved metadata names, names
containing '/' (and what zarr treats as path syntax: '\\', '.', '..'), non-native byte order and
object dtype, integers beyond int64 inside all-numeric sequences. rng / logger: same kind only.
No tolerance anywhere: every comparison is exact (byte-wise for arrays and tensors, NaN == NaN).
"""
from __future__ import annotations

from mc.harness import Broken, Tally

from checks import _serial as S

LEVEL = "exploration"
TECHNIQUE = "exhaustive enumeration of an object-graph grammar x stores x configurations on the real save/load, structural-equality oracle"
CLAIM = (
    "Every object graph of the grammar G(d,w) (about 140 leaf values covering every dispatch branch of the serializer and every "
    "dtype x shape pair of a 10 x 7 array alphabet; every leaf as attribute and inside every container kind; every ordered "
    "pair of dispatch classes as siblings inside every container kind; every chain of container kinds up to depth d; "
    "AutoSerialize objects nested to depth 3 through every combination of attribute/list/tuple/dict links; all numeric and "
    "mixed sequences up to the stated length) is saved and loaded by the real code into the zip and the directory store and "
    "compared with a structural-equality oracle (same class, identical attribute-name set, container kinds, dict key sets, "
    "array dtype/shape/bytes, tensor dtype/shape/values/requires_grad, module state_dict): load(save(x)) equals x, the two "
    "stores give the same object, and saving the loaded object again is a fixed point; a core of graphs additionally runs "
    "through the full product of store x compression level x path type x write mode. Exploration is the right level: the "
    "property is a statement about a lattice of value kinds and configurations, each point decided exactly by one execution."
)
NOTE = (
    "Trusted: the equality relation and the builders in checks/_serial.py; the graph grammar as a cover of 'all object graphs' "
    "(depth and width bounded, leaf contents seeded); all-numeric sets are given the same numeric-value slack as all-numeric "
    "sequences; optimizers and schedulers are compared by class and state_dict; aliasing between attributes is not compared."
)
RULE = (
    "Full enumeration of the graph families of checks/_serial.grammar(tier) x {zip, dir} with three relations per point, plus "
    "core graphs x {zip, dir} x compression {None,0..9} x path {str, Path} x mode {w, o, o-onto-existing}. A point is "
    "non-trivial when the loaded object has at least one attribute to compare; distinct = distinct (graph descriptor, store[, configuration])."
)

STORES = ("zip", "dir")
COMPRESSIONS = [None, 0, 1, 2, 3, 4, 5, 6, 7, 8, 9]
PATH_KINDS = ("str", "Path")
MODES = ("w", "o", "o_existing")

_BLAME = {}


def _blame(desc, store, seed, symptom, excname, wd):
    """Which single node (leaves first), alone as an attribute or alone in its container kind, reproduces the exception?"""
    for node, ck in S.node_occurrences(desc):
        cands = [("attribute", S.O("Root", x=node))]
        if ck is not None and (ck != "set" or S.desc_hashable(node)):
            cands.append(("container", S.O("Root", x=S.CK(ck, node))))
        for pos, g in cands:
            if S.excluded_by_quantifier(g):
                continue
            key = (repr(g), store, seed)
            if key not in _BLAME:
                st, r = S.save_load(S.build(g, seed), wd, store, name=f"blame{len(_BLAME)}")
                _BLAME[key] = (st, type(r).__name__ if st != "ok" else None)
            if _BLAME[key] == (symptom, excname):
                return {"kind": S.node_kind(node), "position": pos}, f"smallest reproducer: {S.show(g)}"
    return {"kind": "combination", "classes": sorted(S.dispatch_classes(desc))}, "no single node reproduces it alone"


def _exc_failure(relation, symptom, exc, desc, store, seed, wd, what, blame=True):
    if blame:
        b, note = _blame(desc, store, seed, symptom, type(exc).__name__, wd)
    else:
        b, note = {"kind": "loaded_graph", "position": "root"}, ""
    cls = {"relation": relation, "symptom": symptom, "exc": type(exc).__name__}
    cls.update(b)
    msg = f"store={store} graph {S.show(desc)}: {what} raised {type(exc).__name__}: {str(exc)[:200]} (expected: no exception). {note}"
    return cls, msg


def run_graph(desc, seed, scratch):
    """All three relations for one graph in both stores. Returns (fails, outcome, nontrivial, roundtrips)."""
    fails, loaded, outcome, rts, has_attrs = [], {}, {}, 0, False
    with S.Workdir(scratch, "C01") as wd:
        for store in STORES:
            x = S.build(desc, seed)
            st, y = S.save_load(x, wd, store, name="a")
            rts += 1
            if st != "ok":
                fails.append(_exc_failure("load_save_equals_input", st, y, desc, store, seed, wd, "save(x)" if st == "save_raises" else "load(save(x))"))
                outcome[store] = [st, type(y).__name__]
                continue
            outcome[store] = S.summary(y)
            has_attrs = has_attrs or len(vars(y)) > 0
            d1 = S.diff(S.build(desc, seed), y, slack=True)
            if d1:
                fails.append((S.cls_of(d1[0], relation="load_save_equals_input"), f"store={store} graph {S.show(desc)}: load(save(x)) differs from x: {S.fmt(d1)}"))
                continue
            loaded[store] = y
            st2, z = S.save_load(y, wd, store, name="b")
            rts += 1
            if st2 != "ok":
                fails.append(_exc_failure("fixed_point", st2, z, desc, store, seed, wd, "saving / reloading the loaded object", blame=False))
                continue
            d3 = S.diff(y, z, slack=False)
            if d3:
                fails.append((S.cls_of(d3[0], relation="fixed_point"), f"store={store} graph {S.show(desc)}: load(save(y)) differs from y = load(save(x)): {S.fmt(d3)}"))
        if len(loaded) == 2:
            d2 = S.diff(loaded["zip"], loaded["dir"], slack=False)
            if d2:
                fails.append((S.cls_of(d2[0], relation="zip_equals_dir"), f"graph {S.show(desc)}: zip result (expected) differs from dir result (observed): {S.fmt(d2)}"))
    nontrivial = has_attrs
    # the same failure class in both stores is one failing point (the message names both)
    folded, seen = [], {}
    for cls, msg in fails:
        k = repr(sorted(cls.items(), key=repr))
        if k in seen:
            folded[seen[k]] = (cls, folded[seen[k]][1] + " || " + msg[:400])
        else:
            seen[k] = len(folded)
            folded.append((cls, msg))
    return folded, outcome, nontrivial, rts


def eval_graph(item, seed=0, scratch="/tmp"):
    t = Tally()
    desc = item["g"]
    fails, outcome, nontrivial, rts = run_graph(desc, seed, scratch)
    for store in STORES:
        t.case(key=[desc, store], nontrivial=nontrivial, outcome=outcome.get(store))
    t.extra["roundtrips"] += rts
    t.extra["graphs"] += 1
    t.extra["graphs_" + item["fam"]] += 1
    for cls, msg in fails:
        t.fail(cls, {"kind": "graph", "fam": item["fam"], "graph": desc, "seed": seed}, msg)
    if item["fam"] in ("pair_of_dispatch_classes", "object_nesting", "container_nesting"):
        t.sample({"family": item["fam"], "graph": S.show(desc), "stores": list(STORES), "relations": ["load_save_equals_input", "zip_equals_dir", "fixed_point"], "observed": "equal" if not fails else f"{len(fails)} failure(s)"}, cap=1)
    return t


# ----------------------------------------------------------------------------- configuration product
def _old_object(desc, seed):
    """An object of another class whose attributes collide by name, but not by kind, with the new graph's."""
    import numpy as np

    o = S.Old()
    for n, _ in desc[2]:
        setattr(o, n, ["old", 1])
    o.only_old = np.arange(3)
    o.only_old_scalar = "old"
    return o


def run_config(core_i, desc, store, comp, seed, scratch):
    """Reference = default configuration of the same store; then path kind x mode for one compression level."""
    fails, points = [], []
    with S.Workdir(scratch, "C01") as wd:
        st, yref = S.save_load(S.build(desc, seed), wd, store, name="ref")
        if st != "ok":
            fails.append(_exc_failure("load_save_equals_input", st, yref, desc, store, seed, wd, "default-configuration save/load") + ({},))
            return fails, points
        d = S.diff(S.build(desc, seed), yref, slack=True)
        if d:
            fails.append((S.cls_of(d[0], relation="load_save_equals_input"), f"store={store} core graph {core_i} {S.show(desc)[:300]}: default configuration: {S.fmt(d)}", {}))
            return fails, points
        n = 0
        for pk in PATH_KINDS:
            for mode in MODES:
                n += 1
                cfg = {"store": store, "compression_level": comp, "path": pk, "mode": mode}
                name = f"t{n}"
                if mode == "o_existing":
                    p = S.target(wd, store, name, "str")
                    with S.quiet():
                        _old_object(desc, seed).save(p, store=store)
                    import os

                    if not os.path.exists(p):
                        raise Broken(f"could not create the pre-existing target {p}")
                st, y = S.save_load(
                    S.build(desc, seed), wd, store, name=name, path_kind=pk,
                    save_kw={"mode": "w" if mode == "w" else "o", "compression_level": comp},
                )
                if st != "ok":
                    cls = {"relation": "load_save_equals_input", "symptom": st, "exc": type(y).__name__, "kind": "configuration", "position": "root"}
                    fails.append((cls, f"core graph {core_i} config {cfg}: {st.replace('_', ' ')} {type(y).__name__}: {str(y)[:200]} (the default configuration works)", cfg))
                    points.append((cfg, [st], False))
                    continue
                points.append((cfg, S.summary(y), len(vars(y)) > 0))
                d1 = S.diff(S.build(desc, seed), y, slack=True)
                if d1:
                    fails.append((S.cls_of(d1[0], relation="load_save_equals_input", config="non-default"), f"core graph {core_i} config {cfg}: load(save(x)) differs from x: {S.fmt(d1)}", cfg))
                    continue
                d2 = S.diff(yref, y, slack=False)
                if d2:
                    fails.append((S.cls_of(d2[0], relation="config_independent"), f"core graph {core_i} config {cfg}: result differs from the default-configuration result: {S.fmt(d2)}", cfg))
    return fails, points


def eval_config(item, seed=0, scratch="/tmp"):
    t = Tally()
    fails, points = run_config(item["core"], item["g"], item["store"], item["compression"], seed, scratch)
    for cfg, outcome, nontrivial in points:
        t.case(key=[item["core"], cfg], nontrivial=nontrivial, outcome=outcome)
    t.extra["config_points"] += len(points)
    t.extra["roundtrips"] += len(points) + 1
    for cls, msg, cfg in fails:
        t.fail(cls, {"kind": "config", "core": item["core"], "graph": item["g"], "store": item["store"], "compression": item["compression"], "seed": seed, "config": cfg}, msg)
    if item["compression"] in (None, 9) and item["core"] == 0 and not fails:
        t.sample({"family": "configuration_product", "core_graph": S.show(item["g"])[:200], "store": item["store"], "compression": item["compression"], "paths": list(PATH_KINDS), "modes": list(MODES), "observed": "equal to input and to the default-configuration result"}, cap=1)
    return t


# ----------------------------------------------------------------------------- driver
def run(ctx):
    ctx.assume(
        "attribute names and dict keys: no reserved metadata names, no '/', and none of what zarr treats as path syntax ('\\\\', '.', '..')",
        "arrays: native byte order, no object dtype, no numpy.ma / numpy.matrix; integers beyond int64 never inside an all-numeric sequence",
        "NumPy scalars and all-numeric sequences (and all-numeric sets) are compared by numeric value between input and loaded graph; exactly between two loaded graphs",
        "random generators and loggers only have to come back as the same kind of object",
        "leaf contents are seeded (VERIF_SEED); the set of graphs and configurations does not depend on the seed",
    )
    items, bounds = S.grammar(ctx.tier)
    ncore = 5 if ctx.quick else 20
    core = S.config_core(ncore)

    probe = S.O(
        "Root", a=S.L("arr:f64:(2, 3)"), s=S.C("set", S.L("s"), S.L("i-1")), t=S.L("t_f32_grad"),
        l=S.C("list", S.L("complex"), S.D(("k", S.L("arr:i64:()"))), S.O("NodeA", p=S.L("path_rel"))), m=S.L("linear"), o=S.L("optimizer"),
    )

    def once():
        # what must be reproducible is the harness: the built input and the verdict (failure classes). The
        # loaded bytes of a *faulty* serializer may legitimately differ between runs (gzip time stamps).
        f, outcome, _, _ = run_graph(probe, ctx.seed, ctx.scratch)
        return (S.summary(S.build(probe, ctx.seed)), sorted(repr(sorted(c.items(), key=repr)) for c, _ in f), sorted(outcome))

    ctx.selftest(once)
    ctx.say(f"grammar: {bounds}")
    merged = ctx.pmap(eval_graph, items, label="graphs", seed=ctx.seed, scratch=ctx.scratch)
    cfg_items = [
        {"core": i, "g": g, "store": s, "compression": c}
        for i, g in enumerate(core) for s in STORES for c in COMPRESSIONS
    ]
    merged_cfg = ctx.pmap(eval_config, cfg_items, chunk=2, label="configurations", seed=ctx.seed, scratch=ctx.scratch)

    covered = set()
    for it in items:
        covered |= S.dispatch_classes(it["g"])
    need = set(S.REPS) | set(S.KINDS)
    ctx.coverage.update(
        alphabet={
            "leaves": len(S.LEAVES),
            "leaf_dispatch_classes": sorted({lf.cls for lf in S.LEAVES.values()}),
            "array_dtypes": list(S.ARR_DTYPES) + list(S.EXTRA_INT_DTYPES) + ["structured", "datetime64"],
            "array_shapes": [list(s) for s in S.ARR_SHAPES],
            "container_kinds": list(S.KINDS),
            "stores": list(STORES),
            "compression_levels": ["None"] + COMPRESSIONS[1:],
            "path_kinds": list(PATH_KINDS),
            "modes": list(MODES),
            "sequence_alphabet": S.SEQ_ALPHABET,
            "numeric_corner_alphabet": S.CORNER_ALPHABET,
            "name_alphabet": S.NAME_ALPHABET,
        },
        bounds=dict(bounds, config_core_graphs=len(core), config_points=len(cfg_items) * len(PATH_KINDS) * len(MODES)),
        relations=["load_save_equals_input", "zip_equals_dir", "fixed_point", "config_independent"],
        dispatch_classes_covered=sorted(covered),
        exhaustive=True,
    )
    if not need <= covered:
        raise Broken(f"grammar does not cover dispatch classes {sorted(need - covered)}")
    if int(merged.extra["graphs"]) != len(items) or len(items) < 300:
        raise Broken(f"graph enumeration degenerate: {merged.extra['graphs']} of {len(items)} graphs evaluated")
    if len(merged.outcomes) < len(items) // 10:
        raise Broken(f"only {len(merged.outcomes)} distinct outcomes for {len(items)} graphs")
    if merged_cfg.nfails == 0 and int(merged_cfg.extra["config_points"]) != len(cfg_items) * len(PATH_KINDS) * len(MODES):
        raise Broken(f"configuration product incomplete: {merged_cfg.extra['config_points']} points")


def replay(ctx, case):
    seed = case.get("seed", ctx.seed)
    if case["kind"] == "graph":
        desc = case["graph"]
        print(f"  graph: {S.show(desc)}  (seed {seed})")
        print(f"  input : {str(S.summary(S.build(desc, seed)))[:400]}")
        fails, outcome, _, _ = run_graph(desc, seed, ctx.scratch)
        for cls, msg in fails:
            ctx.fail(cls, case, msg)
        for store in STORES:
            print(f"  store={store}: loaded = {str(outcome.get(store))[:400]}")
        print(f"  expected: the three relations hold in both stores; observed: {len(fails)} failure(s)")
    else:
        desc = case["graph"]
        print(f"  core graph {case['core']}: {S.show(desc)[:300]}  store={case['store']} compression={case['compression']} (seed {seed})")
        fails, points = run_config(case["core"], desc, case["store"], case["compression"], seed, ctx.scratch)
        for cls, msg, cfg in fails:
            ctx.fail(cls, case, msg)
        print(f"  {len(points)} configuration points executed; expected all equal to the input and to the default-configuration result; observed {len(fails)} failure(s)")
