"""C15 — drift correction starts from an exact, shape-independent resampling geometry.

Shape L (configuration lattice): image shape x stack size x scan angle (15 degree grid over the full
circle) x pad fraction x knots per scan line {1,2,3,4} x KDE width x warp upsampling. Every point
builds a real DriftCorrection through its public constructor, calls preprocess and compares
 (1) DriftInterpolator.transform_coordinates of the initial knots with the closed form
     pixel (r, c) -> canvas centre + R(theta) (r - rc, c - cc), and the canvas shape with its own axis,
 (2) the coordinates for 1, 2, 3, 4 knots with one another (differential, no expected value),
 (3) the warp weight map sum with rows x cols, for every image of the stack and every warp upsampling,
 (4) for identical images with equal scan directions: align_translation leaves every knot where it was,
 (5) histories on ONE object: preprocess, change the scan directions through the setter, preprocess again
     (every ordered pair of configurations; thorough: every triple) — the geometry must be that of the
     last configuration only.
"""
from __future__ import annotations

import itertools
import os
import warnings

import numpy as np

from mc.harness import Broken, Tally

LEVEL = "exploration"
TECHNIQUE = "exhaustive configuration lattice (shape x stack x 24 scan angles x pad x knots 1..4 x KDE width x upsampling) against a closed-form geometry and a differential knot-count oracle"
CLAIM = (
    "For every point of the lattice the initial resampling coordinates equal canvas centre + rotation(scan direction) x (offset from the "
    "image centre) to 1e-9, the coordinates for 1, 2, 3 and 4 knots per scan line are identical, the canvas is sized per axis from that "
    "axis, the weight map sums to the number of image pixels for every image, KDE width and warp upsampling, and a stack of identical "
    "images with equal scan directions is a fixed point of align_translation for upsampling factors 1, 2, 3 and 8 (knots move < 1e-5 px); and on ONE object every ordered pair (thorough: triple) of preprocess configurations with the scan directions changed through the setter in between leaves the geometry of the last configuration only. "
    "The lattice is the right level: the defects live in shape/angle/knot-count corners (non-square, 1 knot, non-zero angle)."
    ' Further enumerated dimensions: pad_fraction 0, legal spellings incl. every integer / small-float angle-array dtype and image memory layouts with the resampled images compared to the canonical call, and copies of a preprocessed object (copy.copy, deepcopy, pickle, dill, save+load) used further alone and alternating with the original (a copy obeys the closed form; using one object leaves the other bit-identical and a fixed point).'
    " An image-content dimension (single pixel, sparse, zero block, all zero, constant, integers, equal rows, negative) requires coordinates and weight maps to be independent of what the images hold."
)
NOTE = (
    "Trusted: the closed-form geometry written from the property statement (rotation R(theta) acting on (row, col) offsets, canvas centre "
    "(S-1)/2); image contents matter only for the fixed-point part (Gaussian blob + seeded texture with a unique correlation peak). "
    "Shapes beyond 10 px, stacks beyond 4 and angles off the 15 degree grid are not explored."
)
RULE = (
    "Cartesian product shape x stack size x angle x pad x KDE width; inside each point all knot counts 1..4 and warp upsamplings {1,2}. "
    "Non-trivial = scan angle not a multiple of 360 or image non-square; distinct = distinct descriptors."
)

SHAPES = [(8, 8), (7, 9), (6, 10), (10, 6), (9, 7)]
ANGLES = [float(a) for a in range(0, 360, 15)]
TOL_GEOM = 1e-9  # float64 geometry; observed <= 6e-15; 1-knot defect was 2 px
TOL_WEIGHT = 1e-4  # float32 accumulation in bilinear_kde; observed <= 3e-7 relative
TOL_IMAGE = 1e-5  # resampled canvas, same request in another spelling: observed 0 (identical float32 arithmetic); a misplaced pixel changes it by O(1)
TOL_KNOT = 1e-5  # observed <= 2e-9 px; the reverted registration fix moves knots by 0.2-0.5 px


def _dc():
    from quantem.imaging.drift import DriftCorrection

    return DriftCorrection


CONTENT = ["single_pixel", "sparse", "zero_block", "zeros", "const", "integers", "rows_equal", "negative"]


def make_image(shape, seed, k=0, content=None):
    H, W = shape
    y, x = np.mgrid[:H, :W].astype(float)
    rng = np.random.default_rng([seed, 15, H, W, k])
    if content is not None:
        # image CONTENT that data-dependent branches key on; the geometry and the weight map may not depend on it
        if content == "single_pixel":
            im = np.zeros(shape)
            im[(H // 3 + k) % H, (W // 2 + k) % W] = 3.0
        elif content == "sparse":  # more than half of the pixels exactly zero
            im = np.where(rng.random(shape) < 0.25, np.round(rng.random(shape) * 4 + 1), 0.0)
        elif content == "zero_block":  # an all-zero block over more than half of the frame
            im = 1.0 + rng.random(shape)
            im[: (2 * H) // 3 + 1, :] = 0.0
        elif content == "zeros":
            im = np.zeros(shape)
        elif content == "const":
            im = np.full(shape, 2.0)
        elif content == "integers":
            im = np.round(rng.random(shape) * 7)
        elif content == "rows_equal":
            im = np.tile((np.arange(H) % 3 + 1.0)[:, None], (1, W))
        elif content == "negative":
            im = -1.0 - rng.random(shape)
        else:
            raise ValueError(content)
        return im
    return np.exp(-((y - 0.4 * H) ** 2 + (x - 0.55 * W) ** 2) / (2 * (0.2 * min(H, W)) ** 2)) + 0.15 * rng.random(shape)


def closed_form(shape, canvas, theta_deg):
    H, W = shape
    th = np.deg2rad(theta_deg)
    dr = (np.arange(H) - (H - 1) / 2)[:, None]
    dc = (np.arange(W) - (W - 1) / 2)[None, :]
    cx, cy = (canvas[0] - 1) / 2, (canvas[1] - 1) / 2
    xa = cx + np.cos(th) * dr - np.sin(th) * dc
    ya = cy + np.sin(th) * dr + np.cos(th) * dc
    return xa, ya


def build(shape, angles, pad, knots, sigma, seed, identical=False, content=None):
    DC = _dc()
    ims = [make_image(shape, seed, 0 if identical else k, content) for k in range(len(angles))]
    with warnings.catch_warnings():
        warnings.simplefilter("ignore")
        dc = DC.from_data([im.copy() for im in ims], list(angles)).preprocess(pad_fraction=pad, number_knots=knots, kde_sigma=sigma, pad_value="mean")
    return dc, ims


def w_geometry(item, seed=0):
    shape, nstack, ang, pad, sigma = item
    shape = tuple(shape)
    t = Tally()
    angles = [(ang + 90.0 * k) % 360.0 for k in range(nstack)]
    case0 = {"shape": list(shape), "stack": nstack, "angle": ang, "pad": pad, "sigma": sigma}
    nontrivial = (ang % 360.0 != 0.0) or shape[0] != shape[1]
    coords = {}
    for knots in (1, 2, 3, 4):
        dc, ims = build(shape, angles, pad, knots, sigma, seed)
        canvas = tuple(int(v) for v in dc.shape[1:])
        case = dict(case0, knots=knots)
        # canvas sized per axis from that axis: even, and within one pixel pair of n*(1+pad)
        for ax, n in enumerate(shape):
            want = int(np.round(n * (1 + pad) / 2) * 2)
            if canvas[ax] != want:
                t.fail({"relation": "canvas_axis_from_own_axis", "square": shape[0] == shape[1]}, case, f"canvas axis {ax} has {canvas[ax]} px, expected 2*round({n}*(1+{pad})/2) = {want} (image shape {shape})")
        for i in range(nstack):
            xa, ya = dc.interpolator[i].transform_coordinates(dc.knots[i])
            ox, oy = closed_form(shape, canvas, angles[i])
            e = max(float(np.abs(np.asarray(xa) - ox).max()), float(np.abs(np.asarray(ya) - oy).max())) if np.shape(xa) == ox.shape else np.inf
            t.stat("geometry_abs_err_px", e if np.isfinite(e) else 1e9)
            if e > TOL_GEOM:
                t.fail({"relation": "coordinates_equal_closed_form", "knots": knots, "square": shape[0] == shape[1], "angle_zero": angles[i] % 180 == 0}, dict(case, image=i), f"shape={shape} angle={angles[i]} pad={pad} knots={knots}: coordinates differ from centre + R(theta)(offset) by {e:.3g} px")
            coords[(knots, i)] = (np.asarray(xa), np.asarray(ya))
            # weight map CONTENT: an independent bilinear splat of unit weights at the closed-form coordinates (floor, the
            # four neighbours wrapped periodically, np.add.at) smoothed with the same Gaussian width. Sums and knots cannot
            # see a pixel splatted into the wrong cell (truncation instead of floor for negative coordinates keeps the
            # four weights summing to one). Observed worst deviation 2e-7 of the map's maximum (float32); a misplaced
            # pixel changes the map by ~0.5.
            if knots == 1:
                from scipy.ndimage import gaussian_filter

                xF, yF = np.floor(ox).astype(int), np.floor(oy).astype(int)
                fx, fy = ox - xF, oy - yF
                cnt = np.zeros(canvas)
                for a_, b_, w_ in ((0, 0, (1 - fx) * (1 - fy)), (1, 0, fx * (1 - fy)), (0, 1, (1 - fx) * fy), (1, 1, fx * fy)):
                    np.add.at(cnt, ((xF + a_) % canvas[0], (yF + b_) % canvas[1]), w_)
                refw = gaussian_filter(cnt, sigma)
                gotw = np.asarray(dc.weights_warped.array[i], dtype=np.float64)
                ew = float(np.abs(gotw - refw).max()) / max(float(refw.max()), 1e-30) if gotw.shape == refw.shape else np.inf
                t.stat("weight_map_vs_independent_splat", ew if np.isfinite(ew) else 1e9)
                t.extra["negative_coordinates_in_splat_oracle"] += int((ox < 0).sum() + (oy < 0).sum() > 0)
                if ew > 2e-5:
                    t.fail({"relation": "weight_map_equals_independent_splat", "negative_coordinates": bool((ox < 0).any() or (oy < 0).any())}, dict(case, image=i), f"weight map differs from an independent bilinear splat + Gaussian({sigma}) by {ew:.3g} of its maximum (shape={shape} angle={angles[i]} pad={pad}; {int((ox < 0).sum() + (oy < 0).sum())} negative coordinates)")
            # weight map: every pixel contributes unit total weight
            wsum = float(np.asarray(dc.weights_warped.array[i], dtype=np.float64).sum())
            rel = abs(wsum - shape[0] * shape[1]) / (shape[0] * shape[1])
            t.stat("weight_sum_rel_err", rel)
            if rel > TOL_WEIGHT:
                t.fail({"relation": "weight_map_sums_to_pixel_count", "upsample": 1}, dict(case, image=i), f"weight map sums to {wsum:.6f}, image has {shape[0] * shape[1]} pixels (shape={shape} angle={angles[i]} knots={knots} sigma={sigma})")
            for up in (2,):
                img_u, w_u = dc.interpolator[i].warp_image(ims[i], dc.knots[i], upsample_factor=up)
                wsum = float(np.asarray(w_u, dtype=np.float64).sum())
                rel = abs(wsum - shape[0] * shape[1]) / (shape[0] * shape[1])
                t.stat("weight_sum_rel_err", rel)
                if tuple(np.shape(w_u)) != (canvas[0] * up, canvas[1] * up) or rel > TOL_WEIGHT:
                    t.fail({"relation": "weight_map_sums_to_pixel_count", "upsample": up}, dict(case, image=i, upsample=up), f"upsample={up}: weight map shape {np.shape(w_u)} sum {wsum:.6f}, expected shape {(canvas[0] * up, canvas[1] * up)} sum {shape[0] * shape[1]}")
        t.case(key=case, nontrivial=nontrivial, outcome=[round(float(dc.knots[0][0].ravel()[0]), 6), round(float(dc.knots[0][1].ravel()[-1]), 6), canvas])
    # image CONTENT (data-dependent branches): the geometry and the weight map do not depend on what the image holds
    # (content x {1, 3} knots on the lattice points with two images and the middle padding, all shapes and angles)
    for content in CONTENT if (nstack == 2 and pad in (0.25, 0.5)) else []:
        for knots in (1, 3):
            dc, ims = build(shape, angles, pad, knots, sigma, seed, content=content)
            canvas = tuple(int(v) for v in dc.shape[1:])
            case = dict(case0, knots=knots, content=content)
            for i in range(nstack):
                xa, ya = dc.interpolator[i].transform_coordinates(dc.knots[i])
                ref = coords[(knots, i)]
                e = max(float(np.abs(np.asarray(xa) - ref[0]).max()), float(np.abs(np.asarray(ya) - ref[1]).max())) if np.shape(xa) == ref[0].shape else np.inf
                if e > TOL_GEOM:
                    t.fail({"relation": "coordinates_independent_of_image_content", "content": content}, dict(case, image=i), f"shape={shape} angle={angles[i]} knots={knots}: coordinates for a {content} image differ from those for the generic image by {e:.3g} px")
                for up, w_u in [(1, dc.weights_warped.array[i]), (2, dc.interpolator[i].warp_image(ims[i], dc.knots[i], upsample_factor=2)[1])]:
                    wsum = float(np.asarray(w_u, dtype=np.float64).sum())
                    rel = abs(wsum - shape[0] * shape[1]) / (shape[0] * shape[1])
                    t.stat("weight_sum_rel_err", rel)
                    if rel > TOL_WEIGHT:
                        t.fail({"relation": "weight_map_sums_to_pixel_count", "upsample": up, "content": content}, dict(case, image=i, upsample=up), f"{content} image: weight map (upsample={up}) sums to {wsum:.6f}, image has {shape[0] * shape[1]} pixels (shape={shape} angle={angles[i]} knots={knots} sigma={sigma})")
            t.case(key=case, nontrivial=True, outcome=[content, canvas])
    # differential oracle: 1, 2, 3, 4 knots describe the same straight lines
    for i in range(nstack):
        for knots in (2, 3, 4):
            a, b = coords[(1, i)], coords[(knots, i)]
            e = max(float(np.abs(a[0] - b[0]).max()), float(np.abs(a[1] - b[1]).max())) if a[0].shape == b[0].shape else np.inf
            if e > TOL_GEOM:
                t.fail({"relation": "knot_counts_agree", "square": shape[0] == shape[1]}, dict(case0, image=i, knots_pair=[1, knots]), f"shape={shape} angle={angles[i]}: 1 knot vs {knots} knots differ by {e:.3g} px")
    t.sample(case0, cap=1)
    return t


def w_fixed_point(item, seed=0):
    shape, nstack, ang, pad, knots, up = item
    shape = tuple(shape)
    t = Tally()
    case = {"shape": list(shape), "stack": nstack, "angle": ang, "pad": pad, "knots": knots, "upsample": up, "part": "fixed_point"}
    dc, ims = build(shape, [ang] * nstack, pad, knots, 0.5, seed, identical=True)
    k0 = [np.array(k, copy=True) for k in dc.knots]
    with warnings.catch_warnings():
        warnings.simplefilter("ignore")
        dc.align_translation(upsample_factor=up, show_merged=False)
    move = max(float(np.abs(a - b).max()) for a, b in zip(k0, dc.knots))
    t.stat("fixed_point_knot_motion_px", move)
    t.case(key=case, nontrivial=True, outcome=round(move, 7))
    if not np.isfinite(move) or move > TOL_KNOT:
        t.fail({"relation": "identical_stack_is_fixed_point", "upsampled": bool(up > 1)}, case, f"identical images, shape={shape} angle={ang} stack={nstack} knots={knots} upsample_factor={up}: knots moved by {move:.4g} px")
    return t


def w_spellings(item, seed=0):
    """Legal alternative spellings of the same request (image containers / dtypes / layouts, angle and parameter
    spellings — all accepted by the unchanged tree) must give the canonical geometry and weights."""
    from quantem.core.datastructures.dataset2d import Dataset2d
    from quantem.core.datastructures.dataset3d import Dataset3d

    shape, ang, knots, pad = tuple(item[0]), float(item[1]), int(item[2]), float(item[3])
    t = Tally()
    DC = _dc()
    ims = [make_image(shape, seed, k) for k in range(2)]
    angles = [ang, (ang + 90.0) % 360.0]

    def ro(a):
        a = a.copy()
        a.flags.writeable = False
        return a

    pp = dict(pad_fraction=pad, number_knots=knots, kde_sigma=0.5, pad_value="mean")
    variants = {
        "canonical": lambda: DC.from_data([i.copy() for i in ims], list(angles)).preprocess(**pp),
        "float32 images": lambda: DC.from_data([i.astype(np.float32) for i in ims], list(angles)).preprocess(**pp),
        "Fortran-ordered images": lambda: DC.from_data([np.asfortranarray(i) for i in ims], list(angles)).preprocess(**pp),
        "read-only images": lambda: DC.from_data([ro(i) for i in ims], list(angles)).preprocess(**pp),
        "3-D array": lambda: DC.from_data(np.stack(ims), list(angles)).preprocess(**pp),
        "list of Dataset2d": lambda: DC.from_data([Dataset2d.from_array(i.copy()) for i in ims], list(angles)).preprocess(**pp),
        "Dataset3d": lambda: DC.from_data(Dataset3d.from_array(np.stack(ims)), list(angles)).preprocess(**pp),
        "angles as ndarray": lambda: DC.from_data([i.copy() for i in ims], np.array(angles)).preprocess(**pp),
        "angles as tuple": lambda: DC.from_data([i.copy() for i in ims], tuple(angles)).preprocess(**pp),
        "angles as float32 array": lambda: DC.from_data([i.copy() for i in ims], np.array(angles, dtype=np.float32)).preprocess(**pp),
        "angles + 360": lambda: DC.from_data([i.copy() for i in ims], [a + 360.0 for a in angles]).preprocess(**pp),
        "angles - 360": lambda: DC.from_data([i.copy() for i in ims], [a - 360.0 for a in angles]).preprocess(**pp),
        "number_knots=np.int64": lambda: DC.from_data([i.copy() for i in ims], list(angles)).preprocess(pad_fraction=pad, number_knots=np.int64(knots), kde_sigma=0.5, pad_value="mean"),
        "pad_fraction=np.float64, kde_sigma=np.float32": lambda: DC.from_data([i.copy() for i in ims], list(angles)).preprocess(pad_fraction=np.float64(pad), number_knots=knots, kde_sigma=np.float32(0.5), pad_value="mean"),
        "positional arguments": lambda: DC.from_data([i.copy() for i in ims], list(angles)).preprocess(pad, "mean", 0.5, knots),
        "pad_value as float": lambda: DC.from_data([i.copy() for i in ims], list(angles)).preprocess(pad_fraction=pad, number_knots=knots, kde_sigma=0.5, pad_value=0.3),
        "pad_value as list": lambda: DC.from_data([i.copy() for i in ims], list(angles)).preprocess(pad_fraction=pad, number_knots=knots, kde_sigma=0.5, pad_value=[0.1, 0.2]),
        "pad_value median": lambda: DC.from_data([i.copy() for i in ims], list(angles)).preprocess(pad_fraction=pad, number_knots=knots, kde_sigma=0.5, pad_value="median"),
    }
    if all(float(a).is_integer() for a in angles):
        variants["angles as ints"] = lambda: DC.from_data([i.copy() for i in ims], [int(a) for a in angles]).preprocess(**pp)
        # integer-valued angles in every integer / small float array dtype that holds them exactly
        for dt in ("int8", "uint8", "int16", "uint16", "int32", "uint32", "int64", "uint64", "float16"):
            if all(0 <= a <= np.iinfo(dt).max if dt.startswith(("int", "uint")) else a <= 2048 for a in angles):
                variants[f"angles as {dt} array"] = (lambda dt=dt: DC.from_data([i.copy() for i in ims], np.array([int(a) for a in angles], dtype=dt)).preprocess(**pp))
    # memory layouts of the image data (values identical to the canonical stack)
    variants["transposed views (img.T of a (W,H) array)"] = lambda: DC.from_data([np.ascontiguousarray(i.T).T for i in ims], list(angles)).preprocess(**pp)
    variants["Fortran-ordered 3-D stack"] = lambda: DC.from_data(np.asfortranarray(np.stack(ims)), list(angles)).preprocess(**pp)
    variants["(W,H,N) stack transposed to (N,H,W)"] = lambda: DC.from_data(np.ascontiguousarray(np.stack(ims).transpose(2, 1, 0)).transpose(2, 1, 0), list(angles)).preprocess(**pp)
    variants["every-other-column slice of a wider array"] = lambda: DC.from_data([np.repeat(i, 2, axis=1)[:, ::2] for i in ims], list(angles)).preprocess(**pp)
    same_values = {"Fortran-ordered images", "read-only images", "3-D array", "list of Dataset2d", "Dataset3d", "angles as ndarray", "angles as tuple", "angles + 360", "angles - 360", "number_knots=np.int64", "pad_fraction=np.float64, kde_sigma=np.float32", "positional arguments", "angles as ints"}
    base = None
    for name, fn in variants.items():
        case = {"part": "spelling", "shape": list(shape), "angle": ang, "knots": knots, "pad": pad, "variant": name}
        t.case(key=case, nontrivial=name != "canonical")
        try:
            with warnings.catch_warnings():
                warnings.simplefilter("ignore")
                dc = fn()
            canvas = tuple(int(v) for v in dc.shape[1:])
            g = []
            for i in range(2):
                xa, ya = dc.interpolator[i].transform_coordinates(dc.knots[i])
                g.append((np.asarray(xa, float), np.asarray(ya, float), float(np.asarray(dc.weights_warped.array[i], dtype=np.float64).sum()), np.array(dc.images_warped.array[i], dtype=np.float64), np.array(dc.weights_warped.array[i], dtype=np.float64)))
        except Exception as ex:
            t.fail({"relation": "legal_spelling_accepted", "variant": name}, case, f"{name}: raised {type(ex).__name__}: {str(ex)[:150]} (the unchanged tree accepts this spelling)")
            continue
        if base is None:
            base = (canvas, g)
            continue
        tol = 1e-5 if "float32 array" in name else TOL_GEOM  # float32 angles carry 2.4e-7 px
        e = max(max(float(np.abs(a[0] - b[0]).max()), float(np.abs(a[1] - b[1]).max())) if a[0].shape == b[0].shape else np.inf for a, b in zip(g, base[1]))
        ew = max(abs(a[2] - b[2]) / (shape[0] * shape[1]) for a, b in zip(g, base[1]))
        if canvas != base[0] or e > tol or ew > TOL_WEIGHT:
            t.fail({"relation": "legal_spelling_gives_canonical_result", "variant": name}, case, f"{name}: shape={shape} angle={ang} knots={knots} pad={pad}: canvas {canvas} vs {base[0]}, coordinates differ by {e:.3g} px, weight sums by {ew:.3g} from the canonical spelling")
            continue
        # the resampled images themselves (where each pixel's VALUE lands): spellings that carry the same pixel values
        # and the same request must give the canonical canvas (float32 accumulation: observed 0 on the unchanged tree)
        if name in same_values or "layout" in name or "stack" in name or "views" in name or "slice" in name or name.startswith("angles as "):
            if "float32 array" in name:
                continue
            scale = max(float(np.abs(base[1][0][3]).max()), 1e-12)
            ei = max(float(np.abs(a[3] - b[3]).max()) / scale for a, b in zip(g, base[1]))
            em = max(float(np.abs(a[4] - b[4]).max()) for a, b in zip(g, base[1]))
            t.stat("spelling_image_rel_diff", ei)
            if ei > TOL_IMAGE or em > TOL_IMAGE:
                t.fail({"relation": "legal_spelling_gives_canonical_image", "variant": name}, case, f"{name}: shape={shape} angle={ang} knots={knots} pad={pad}: resampled images differ by {ei:.3g} (relative), weight maps by {em:.3g} from the canonical spelling")
    return t


COPY_KINDS = ["copy.copy", "copy.deepcopy", "pickle", "dill", "save_load_zip", "save_load_dir"]


def _make_copy(kind, dc, scratch):
    import copy
    import pickle
    import shutil

    if kind == "copy.copy":
        return copy.copy(dc)
    if kind == "copy.deepcopy":
        return copy.deepcopy(dc)
    if kind == "pickle":
        return pickle.loads(pickle.dumps(dc))
    if kind == "dill":
        import dill

        return dill.loads(dill.dumps(dc))
    from quantem.core.io.serialize import load

    target = os.path.join(scratch, f"c15-{os.getpid()}" + (".zip" if kind.endswith("zip") else ""))
    try:
        dc.save(target, mode="o", store="zip" if kind.endswith("zip") else "dir")
        return load(target)
    finally:
        shutil.rmtree(target, ignore_errors=True) if os.path.isdir(target) else (os.path.exists(target) and os.remove(target))


def _geometry_errors(dc, shape, angles):
    canvas = tuple(int(v) for v in dc.shape[1:])
    worst = 0.0
    for i, a in enumerate(angles):
        xa, ya = dc.interpolator[i].transform_coordinates(dc.knots[i])
        ox, oy = closed_form(shape, canvas, a)
        e = max(float(np.abs(np.asarray(xa) - ox).max()), float(np.abs(np.asarray(ya) - oy).max())) if np.shape(xa) == ox.shape else np.inf
        worst = max(worst, e)
    return worst


def w_copies(item, seed=0, scratch="/tmp"):
    """Copies of a preprocessed DriftCorrection (copy.copy / deepcopy / pickle / dill / save+load) used further, alone
    and alternating with the original: (a) a copy obeys the same closed-form geometry, re-warps to the same images and is
    a fixed point for identical stacks; (b) re-preprocessing or aligning ONE of the two objects leaves the OTHER one's
    geometry, canvases and knots exactly as they were, and the other one still is a fixed point afterwards."""
    shape, ang, knots, pad = tuple(item[0]), float(item[1]), int(item[2]), float(item[3])
    t = Tally()
    angles = [ang, (ang + 90.0) % 360.0]
    other = [(ang + 30.0) % 360.0, (ang + 200.0) % 360.0]
    for kind in COPY_KINDS:
        for identical in (False, True):
            case = {"part": "copies", "shape": list(shape), "angle": ang, "knots": knots, "pad": pad, "kind": kind, "identical_images": identical}
            t.case(key=case, nontrivial=True)
            try:
                with warnings.catch_warnings():
                    warnings.simplefilter("ignore")
                    d, ims = build(shape, [ang, ang] if identical else angles, pad, knots, 0.5, seed, identical=identical)
                    use = [ang, ang] if identical else angles
                    try:
                        e = _make_copy(kind, d, scratch)
                    except Exception as ex:  # noqa: BLE001 - a copy protocol the unchanged tree does not support is counted
                        t.extra[f"copy_kind_rejected:{kind}:{type(ex).__name__}"] += 1
                        continue
                    snap = ([np.array(k, copy=True) for k in d.knots], np.array(d.images_warped.array, copy=True), np.array(d.weights_warped.array, copy=True))
                    # (a) the copy on its own
                    ge = _geometry_errors(e, shape, use)
                    if ge > TOL_GEOM:
                        t.fail({"relation": "copy_obeys_closed_form", "kind": kind, "knots": knots}, case, f"{kind} of a preprocessed object: coordinates differ from the closed form by {ge:.3g} px (shape={shape} angle={ang} knots={knots})")
                    for i in range(2):
                        img, w = e.interpolator[i].warp_image(ims[i], e.knots[i])
                        ei = float(np.abs(np.asarray(img, float) - snap[1][i]).max()) / max(float(np.abs(snap[1][i]).max()), 1e-12)
                        if ei > TOL_IMAGE:
                            t.fail({"relation": "copy_rewarps_to_the_same_image", "kind": kind, "knots": knots}, case, f"{kind}: image {i} re-warped by the copy differs from the original's canvas by {ei:.3g} of max")
                    # (b) use the copy: re-preprocess with other scan directions on the same canvas, then align it
                    e.scan_direction_degrees = list(other)
                    e.preprocess(pad_fraction=pad, number_knots=knots, kde_sigma=0.5, pad_value="mean")
                    e.align_translation(upsample_factor=2, show_merged=False)
                    changed = [n for n, (a, b) in zip(("knots", "images_warped", "weights_warped"), ((np.concatenate([np.ravel(k) for k in snap[0]]), np.concatenate([np.ravel(k) for k in d.knots])), (snap[1], np.asarray(d.images_warped.array)), (snap[2], np.asarray(d.weights_warped.array)))) if a.shape != b.shape or not np.array_equal(a, b)]
                    if changed:
                        t.fail({"relation": "using_a_copy_leaves_the_original_unchanged", "kind": kind, "what": "+".join(changed)}, case, f"after {kind}, re-preprocessing and aligning the COPY changed the original's {changed} (shape={shape} angle={ang} knots={knots})")
                    ge = _geometry_errors(d, shape, use)
                    if ge > TOL_GEOM:
                        t.fail({"relation": "using_a_copy_leaves_the_original_unchanged", "kind": kind, "what": "geometry"}, case, f"after {kind} and use of the copy the original's coordinates differ from the closed form by {ge:.3g} px")
                    if identical:
                        k0 = [np.array(k, copy=True) for k in d.knots]
                        d.align_translation(upsample_factor=2, show_merged=False)
                        move = max(float(np.abs(a - b).max()) for a, b in zip(k0, d.knots))
                        if not np.isfinite(move) or move > TOL_KNOT:
                            t.fail({"relation": "original_still_fixed_point_after_its_copy_was_used", "kind": kind}, case, f"identical images: after {kind} and use of the copy, aligning the ORIGINAL moved its knots by {move:.4g} px")
            except Broken:
                raise
    return t


REPRE = [(0.0, 0.5, 1), (30.0, 0.5, 1), (90.0, 0.5, 2), (200.0, 0.25, 1), (45.0, 0.5, 3), (135.0, 1.0, 1), (30.0, 0.5, 4)]


def w_repreprocess(item, seed=0, depth=2):
    """Histories on ONE DriftCorrection object: preprocess with configuration A, then change the scan directions through
    the public setter and preprocess again with B (then C): after every step the geometry must be the closed form of
    the CURRENT configuration (nothing may survive from an earlier preprocess)."""
    shape, first = tuple(item[0]), item[1]
    t = Tally()
    nstack = 2
    tails = [[b] for b in range(len(REPRE))] if depth == 2 else [[b] for b in range(len(REPRE))] + [[b, c] for b in range(len(REPRE)) for c in range(len(REPRE))]
    for tail in tails:
        hist = [first] + tail
        DC = _dc()
        ims = [make_image(shape, seed, k) for k in range(nstack)]
        with warnings.catch_warnings():
            warnings.simplefilter("ignore")
            dc = None
            for step, ci in enumerate(hist):
                ang, pad, knots = REPRE[ci]
                angles = [(ang + 90.0 * k) % 360.0 for k in range(nstack)]
                if dc is None:
                    dc = DC.from_data([im.copy() for im in ims], list(angles))
                else:
                    dc.scan_direction_degrees = list(angles)
                dc.preprocess(pad_fraction=pad, number_knots=knots, kde_sigma=0.5, pad_value="mean")
        case = {"part": "repreprocess", "shape": list(shape), "history": [list(REPRE[c]) for c in hist]}
        canvas = tuple(int(v) for v in dc.shape[1:])
        worst = 0.0
        for i in range(nstack):
            xa, ya = dc.interpolator[i].transform_coordinates(dc.knots[i])
            ox, oy = closed_form(shape, canvas, angles[i])
            e = max(float(np.abs(np.asarray(xa) - ox).max()), float(np.abs(np.asarray(ya) - oy).max())) if np.shape(xa) == ox.shape else np.inf
            worst = max(worst, e)
            wsum = float(np.asarray(dc.weights_warped.array[i], dtype=np.float64).sum())
            if abs(wsum - shape[0] * shape[1]) / (shape[0] * shape[1]) > TOL_WEIGHT:
                t.fail({"relation": "weight_map_sums_to_pixel_count", "after_history": True}, case, f"after the history {case['history']} the weight map sums to {wsum:.5f} for {shape[0] * shape[1]} pixels")
        want_canvas = tuple(int(np.round(n * (1 + pad) / 2) * 2) for n in shape)
        t.case(key=case, nontrivial=len(set(hist)) > 1, outcome=[round(worst, 9), list(canvas)])
        if canvas != want_canvas:
            t.fail({"relation": "canvas_axis_from_own_axis", "after_history": True}, case, f"after the history {case['history']} the canvas is {canvas}, expected {want_canvas}")
        if worst > TOL_GEOM:
            t.fail({"relation": "coordinates_equal_closed_form", "after_history": True, "knots": knots}, case, f"shape={shape}: after preprocess histories {case['history']} (same object, scan directions changed through the setter) the coordinates differ from the closed form of the last configuration by {worst:.3g} px")
    return t


def run(ctx):
    q = ctx.quick
    ctx.assume(
        "rotation convention: offsets (row, col) are rotated by R(theta) = [[cos, -sin], [sin, cos]]; at theta = 0 pixel (r, c) sits at centre + (r - rc, c - cc)",
        "canvas centre is ((S-1)/2) per axis with S = 2*round(n*(1+pad)/2) computed from the same axis",
        "fixed-point part uses a Gaussian blob + seeded texture (unique correlation peak), pad_value='mean'",
    )

    def once():
        a = w_geometry(((6, 10), 2, 30.0, 0.5, 0.5), seed=ctx.seed)
        b = w_fixed_point(((7, 9), 2, 45.0, 0.5, 2, 8), seed=ctx.seed)
        return (sorted(a.outcomes), a.nfails, sorted(b.outcomes), b.nfails)

    ctx.selftest(once)
    shapes = SHAPES[:4] if q else SHAPES
    stacks = [2, 3] if q else [2, 3, 4]
    pads = [0.0, 0.25, 0.5, 1.5] if q else [0.0, 1e-9, 0.25, 0.5, 1.0, 1.5]  # 0: the legal edge value (falsy!), no padding at all  # > 1.0: the canvas has more than four times the image area
    sigmas = [0.5] if q else [0.5, 1.0]
    ctx.coverage["bounds"] = {"shapes": [list(s) for s in shapes], "stacks": stacks, "angles_deg": ANGLES, "pads": pads, "knots": [1, 2, 3, 4], "kde_sigma": sigmas, "warp_upsampling": [1, 2]}
    ctx.pmap(w_geometry, list(itertools.product(shapes, stacks, ANGLES, pads, sigmas)), label="geometry/weights", seed=ctx.seed)
    fp_angles = [0.0, 30.0, 90.0, 200.0] if q else ANGLES[::2]
    fp_up = [1, 2, 3, 8] if q else [1, 2, 3, 5, 8, 16]  # odd factors matter: ceil(1.5*up) != floor(1.5*up) only there
    fp_knots = [1, 2] if q else [1, 2, 3, 4]
    ctx.coverage["bounds"]["fixed_point"] = {"angles": fp_angles, "align_upsample": fp_up, "knots": fp_knots}
    ctx.pmap(w_fixed_point, list(itertools.product(shapes, stacks, fp_angles, [0.5], fp_knots, fp_up)), label="translation fixed point", seed=ctx.seed)
    sp_items = [((7, 9), 30.0, 1, 0.5), ((6, 10), 90.0, 2, 0.25)] if q else [(sh, a, k, pd) for sh in [(7, 9), (6, 10), (8, 8)] for a in (0.0, 30.0, 90.0, 200.0) for k in (1, 2, 4) for pd in (0.25, 1.5)]
    ctx.pmap(w_spellings, sp_items, chunk=1, label="alternative spellings / containers / layouts", seed=ctx.seed)
    cp_items = [((7, 9), 30.0, 1, 0.5), ((8, 8), 90.0, 2, 0.25)] if q else [(sh, a, k, 0.5) for sh in [(7, 9), (8, 8), (10, 6)] for a in (0.0, 30.0, 200.0) for k in (1, 2, 4)]
    ctx.pmap(w_copies, cp_items, chunk=1, label="copies used further (copy / deepcopy / pickle / dill / save+load)", seed=ctx.seed, scratch=ctx.scratch)
    rp_shapes = [(7, 9)] if q else [(7, 9), (8, 8), (10, 6)]
    ctx.coverage["bounds"]["repreprocess"] = {"configs": [list(c) for c in REPRE], "depth": 2 if q else 3, "shapes": [list(x) for x in rp_shapes]}
    ctx.pmap(w_repreprocess, [(sh, a) for sh in rp_shapes for a in range(len(REPRE))], chunk=1, label="re-preprocess histories on one object", seed=ctx.seed, depth=2 if q else 3)
    if len(ctx.tally.outcomes) < 20:
        raise Broken("geometry did not vary across the lattice")


def replay(ctx, case):
    if case.get("part") == "spelling":
        t = w_spellings((case["shape"], case["angle"], case["knots"], case["pad"]), seed=ctx.seed)
        t.fails = [f for f in t.fails if f["case"].get("variant") == case["variant"]]
    elif case.get("part") == "repreprocess":
        idx = [REPRE.index(tuple(c)) for c in case["history"]]
        t = w_repreprocess((case["shape"], idx[0]), seed=ctx.seed, depth=len(idx))
        t.fails = [f for f in t.fails if f["case"].get("history") == case["history"]]
    elif case.get("part") == "copies":
        t = w_copies((case["shape"], case["angle"], case["knots"], case["pad"]), seed=ctx.seed, scratch=ctx.scratch)
        t.fails = [f for f in t.fails if f["case"].get("kind") == case["kind"] and f["case"].get("identical_images") == case["identical_images"]]
    elif case.get("part") == "fixed_point":
        t = w_fixed_point((case["shape"], case["stack"], case["angle"], case["pad"], case["knots"], case["upsample"]), seed=ctx.seed)
    else:
        t = w_geometry((case["shape"], case["stack"], case["angle"], case["pad"], case["sigma"]), seed=ctx.seed)
    for f in t.fails:
        print("  ", f["msg"])
        ctx.fail(f["cls"], f["case"], f["msg"])
