"""Second module of C01's class-identity family: the same class names as _serial_twins_a, unrelated classes."""
from quantem.core.io.serialize import AutoSerialize


class Params(AutoSerialize):
    KIND = "b.Params"


class Params2(AutoSerialize):
    KIND = "b.Params2"


class Outer(AutoSerialize):
    KIND = "b.Outer"

    class Params(AutoSerialize):
        KIND = "b.Outer.Params"
