import numpy as np, warnings, torch, time
warnings.simplefilter("ignore")
from quantem.core.datastructures.dataset4dstem import Dataset4dstem
from quantem.diffractive_imaging.dataset_models import PtychographyDatasetRaster
from quantem.diffractive_imaging.detector_models import DetectorPixelated
from quantem.diffractive_imaging.object_models import ObjectPixelated
from quantem.diffractive_imaging.probe_models import ProbePixelated
from quantem.diffractive_imaging.ptychography import Ptychography
from quantem.core.utils.utils import electron_wavelength_angstrom
E=300e3; lam=electron_wavelength_angstrom(E)
def build(roi=(8,10), gpts=(3,4), step=(1.3,0.9), dq=(0.05,0.04), nslices=1, nmodes=1, obj_type="complex", pad=(0,0), thick=5.0, seed=0):
    rng=np.random.default_rng(seed)
    roi=np.array(roi); dq=np.array(dq); samp=1/(roi*dq)
    # object shape as library computes: need library for shape; do a dry dataset first
    dummy=np.ones((*gpts,*roi),np.float32)
    ds=Dataset4dstem.from_array(dummy, sampling=(*step,*dq), units=("A","A","A^-1","A^-1"))
    pd=PtychographyDatasetRaster.from_dataset4dstem(ds,verbose=0)
    return pd, samp
pd,samp=build()
print("obj sampling",samp,"crop shape",pd._obj_shape_crop_2d, "fov", pd.fov)
