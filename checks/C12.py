"""C12 — one aberration surface in all representations (shape L + interpolation argument, level EX).

Three exhaustively enumerated lattices, every point executed on the real quantem functions:

A. surface lattice  — every (n,m) term alone, every pair of terms, the full 25-symbol set (and ordered
   init/delta pairs for merge_aberration_coefficients), coefficient values {0, +-1, +-1234.5}, angles
   {0, 0.37, -1.1, pi/m}, wavelengths {80 kV, 300 kV} (pairs: 80 kV), on a 9 x 14 (angle x azimuth) float64 grid.
   Relations: polar surface = sum(Cartesian basis x converted coefficients) for all 25 labels and every
   preset list; polar -> Cartesian -> polar reproduces the surface; merge adds surfaces; analytic polar
   and Cartesian gradients = wavelength x autograd derivative of the library's own surface and = an
   independent per-term closed form (Wirtinger form for the Cartesian one).
A2. label-order lattice — the Cartesian basis for every preset as given and reversed, every ordered pair of distinct labels
   (both orders), fixed non-monotone and seeded permutations of the full 25-label set: every COLUMN equals the single-label
   evaluation of its label and the closed form (a basis function must not depend on its position in the list), and the
   expansion on the permuted list equals the polar surface of the converted coefficients; the least-squares fit returns the
   same coefficients for a flat list / list-of-lists group and for the same labels in any other order.
B. alias lattice    — every alias x every entry point that takes a user coefficient dictionary x
   d in {+-50, +-123}: the call with {alias: d} must give the same observable result as the call with
   the canonical symbol ({"defocus": d} == {"C10": -d}).
B0. explicit zeros  — every spelling (25 canonical symbols + 7 aliases) x every numeric zero (0, 0.0, -0.0, NumPy / torch
   scalars) x validate / standardize / HyperparameterState (override, optimized, initial, optimized_keys) / reconstruct
   override: a zero is a VALUE (canonical key present with value 0; on top of a stored non-zero value the surface on the grid
   is the one of the set with that coefficient zero); None alone means unset.
D. call histories   — every single call, ordered pair (thorough: triple) of calls of fit_aberrations_from_shifts and of
   the surface / basis / gradient / conversion / merge functions, from alphabets built to collide on coarse keys (same grid,
   sampling and mask pixel count with different masks; same mask, other coefficients; other wavelength / rotation; same
   shapes, other values), each history on freshly re-imported modules, the LAST call judged by the usual oracle: a result
   must not depend on earlier calls. Conversions and merge must also leave their argument dictionaries/tensors bit-identical.
E. fit histories    — on ONE DirectPtychography object whose stack is synthesised from known aberrations: every ordered pair
   (thorough: triple) of {cross-correlation fits, least-squares fits (each method), grid / optuna search, reconstruct, clear_optimized}
   ending in a judged fit: the last fit equals the same fit on a fresh object and the cross-correlation fit recovers the truth.
C. fit lattice      — (C10, C12, phi12, rotation) grid in the identifiable domain x 3 masks x 2 detector
   shapes: shifts predicted with the public gradient functions on the rotated detector grid, fed to
   fit_aberrations_from_shifts, return the generating values.
C2. fit content lattice — the CONTENT of the coefficient set handed to the fit: astigmatism axis at every multiple of pi/8 in
   [-pi/2, pi/2] (one Cartesian component vanishes exactly at 0, +-pi/4, +-pi/2; the two components have equal magnitude at
   +-pi/8, +-3pi/8: entries of the fitted matrix coincide or vanish there), magnitude ratios C12/|C10| in {0 exactly (angle
   given / keys absent), 1e-6, 1e-3, 1e-1, 0.5, 0.9}, the same sets given in Cartesian form (pure C12_a, pure C12_b, both, each
   sign; through the library's Cartesian -> polar conversion) x rotation (the alphabet of C and +-pi/4) x mask x detector.
   Judged on Cartesian components (well defined at C12 = 0) and on the reproduced gradient field.

Function class (interpolation argument, DESIGN section 1): per coefficient the surface is a monomial of
degree <= 6 in the angle times a trigonometric polynomial of degree <= 6 in the azimuth; 9 x 14 grid
points determine such a function, so agreement on the grid is agreement for all real arguments as long
as the code stays in that class (assumption, recorded in the evidence).
"""
from __future__ import annotations

import contextlib
import inspect
import io
import itertools
import json
import math
import warnings

import numpy as np
import torch

from mc.harness import Broken, Tally

LEVEL = "exploration"
TECHNIQUE = "exhaustive coefficient/alias/fit lattices on the real functions; autograd of the library's own surface and independent closed forms as oracles; differential alias runs"
CLAIM = (
    "For every single (n,m) term, every pair of terms and the full 25-symbol set over the stated value/angle/wavelength "
    "alphabets, on a 9x14 angle-azimuth grid that determines any function of the series' class, the polar surface, the "
    "Cartesian-basis expansion (all 25 labels and every preset list, in any label order: each basis column equals the "
    "single-label evaluation whatever its position), both conversions and merge_aberration_coefficients "
    "describe the same function to 1e-12 relative, and the analytic polar and Cartesian gradients equal the wavelength times "
    "the autograd derivative of the library's own surface and an independent per-term closed form. Every alias at every entry "
    "point that accepts a user coefficient dictionary gives the same observable result as the canonical symbol "
    "('defocus': d == 'C10': -d), and an explicit zero of any numeric type (int, float, -0.0, NumPy and torch scalars) under any of "
    "the 32 spellings is a value, not 'unset' (only None is): alone it yields the canonical key with value 0, and on top of a "
    "stored non-zero value (override / optimized / full set, reconstruct override) the surface is the one of the set with that "
    "coefficient zero. Shifts predicted by the public gradient functions and fed to fit_aberrations_from_shifts "
    "return the generating defocus, astigmatism and rotation on the whole identifiable grid, also when the astigmatism axis sits at a "
    "multiple of pi/8 (one Cartesian component exactly zero, or both of equal magnitude), for magnitude ratios C12/|C10| from 0 and "
    "1e-6 to 0.9 and for sets given as pure C12_a / pure C12_b Cartesian components (compared as Cartesian components and as the "
    "reproduced gradient field), and also after any earlier call with a "
    "different mask of equal pixel count, other coefficients, wavelength or rotation (call histories on fresh modules). Exploration is the right level: "
    "the property is an identity between closed-form series and a finite set of entry points, decided by a complete lattice."
)
NOTE = (
    "Trusted: the ~60-line NumPy reference series in checks/C12.py, torch.autograd, and the assumption that the code stays in "
    "the function class (degree <= 6 monomial in the angle x degree <= 6 trigonometric polynomial in the azimuth) for which a "
    "9x14 grid is determining. Coefficient values and rotation angles are alphabets; giving an alias and its canonical symbol "
    "in one dictionary is ambiguous and not part of the claim."
)
RULE = (
    "Full Cartesian lattices: (A) every single term, unordered pair, same-term merge pair and full 25-symbol set x value x "
    "angle x wavelength alphabets, and the label ORDER of the Cartesian basis: every preset as given and reversed, every ordered "
    "pair of distinct labels, 7 permutations of the 25 labels, 5 least-squares-fit basis forms (non-trivial: the list is not "
    "ascending in radial order), and call histories: every single call, ordered pair (thorough: triple) over 39 fit calls and "
    "37 calls of the other functions, modules re-imported per history, last call judged (non-trivial: an earlier call differs "
    "from the last); (B) entry point x alias x value, and (B0) spelling (25 symbols + 7 aliases) x zero value "
    "(9 numeric zeros; None) x operation (non-trivial: the stored set holds a non-zero value whose removal changes the surface "
    "or reconstruction); (C) detector shape x mask x C10 x C12 x phi12 x rotation "
    "inside |C12|<|C10|, |rotation|<pi/2, and (C2) detector shape x mask x C10 x form {polar, Cartesian} x ratio C12/|C10| x axis "
    "(every multiple of pi/8; Cartesian: 8 directions with exact zeros) x rotation. A point is non-trivial when the surface is not identically zero (A), when the "
    "canonical call differs observably from the call without the coefficient (B), or always (C); distinct = distinct "
    "coefficient set / entry-alias-value / fit point."
)

# ----------------------------------------------------------------------------- tolerances
# float64 identities. Worst deviation observed on the unchanged tree over the thorough lattice with the pairs at both
# wavelengths (61,480 sets, ~895,000 relation evaluations; the shipped thorough tier runs the pairs at one wavelength,
# 36,105 sets; seeds only change 8 of the full sets): 3.7e-15, relative to the sum of the per-term maxima on the
# grid (merge of two C56 terms; gradients vs autograd and vs the closed forms <= 2.4e-15). Smallest planned-mutant effect: 1/(n+1) prefactor 0.25, missing factor m 0.3, phi/m in the
# conversion 0.5, sin/cos in one basis label 1.4.
TOL64 = 1e-12
# alias differential: both calls run the same float32 code on bit-identical inputs, observed difference 0.0 exactly;
# smallest mutant effect (alias ignored / wrong sign) >= 5e-3 of the result scale. 1e-6 relative.
TOL_ALIAS = 1e-6
# fit (float32 internals): worst observed over the full 1980-point lattice: 5.3e-7 (C10, relative), 4.6e-7 (C12 relative to
# |C10|), 2.7e-6 rad (phi12), 4.3e-7 rad (rotation); a mutant that drops the 1/2 of phi12 gives 1.2 rad, a wrong sign >= 1.
# Tolerances as stated by the design: 1e-2 relative, 1e-3 rad for the rotation.
TOL_FIT = 1e-2
TOL_ROT = 1e-3
# float32 composition vs the private _return_lateral_shifts (same code path): observed 0.0; 1e-5 relative.
TOL_F32 = 1e-5

# ----------------------------------------------------------------------------- own statement of the naming scheme
TERMS = [(1, 0), (1, 2), (2, 1), (2, 3), (3, 0), (3, 2), (3, 4), (4, 1), (4, 3), (4, 5), (5, 0), (5, 2), (5, 4), (5, 6)]
MY_POLAR = []
MY_CART = []
for _n, _m in TERMS:
    MY_POLAR.append(f"C{_n}{_m}")
    if _m:
        MY_POLAR.append(f"phi{_n}{_m}")
        MY_CART += [f"C{_n}{_m}_a", f"C{_n}{_m}_b"]
    else:
        MY_CART.append(f"C{_n}{_m}")
# alias -> (canonical symbol, sign, scale applied to d so that the effect is visible, canonical context)
MY_ALIASES = {
    "defocus": ("C10", -1.0, 1.0, {}),
    "astigmatism": ("C12", 1.0, 1.0, {"phi12": 0.37}),
    "astigmatism_angle": ("phi12", 1.0, 0.01, {"C12": 40.0}),
    "coma": ("C21", 1.0, 100.0, {"phi21": 0.37}),
    "coma_angle": ("phi21", 1.0, 0.01, {"C21": 4000.0}),
    "Cs": ("C30", 1.0, 1.0e4, {}),
    "C5": ("C50", 1.0, 1.0e7, {}),
}
DVALS = [50.0, -50.0, 123.0, -123.0]

VALUES = [0.0, 1.0, -1.0, 1234.5, -1234.5]
VALUES_Q = [0.0, 1.0, -1234.5]  # quick tier, pairs only


def angle_alphabet(m, quick_pairs=False, special=False):
    if quick_pairs:
        return [0.37, math.pi / m]
    base = [0.0, 0.37, -1.1, math.pi / m]
    if special:  # azimuths where one Cartesian component vanishes (pi/2m) or both have equal magnitude (pi/4m)
        base += [math.pi / (2 * m), -math.pi / (2 * m), math.pi / (4 * m)]
    return base


ALPHA = np.linspace(0.0, 0.03, 9)
PHI = np.linspace(-3.1, 3.1, 14)
A2, P2 = np.meshgrid(ALPHA, PHI, indexing="ij")
ENERGIES = [80e3, 300e3]


def _lams():
    from quantem.core.utils.utils import electron_wavelength_angstrom

    return [float(electron_wavelength_angstrom(e)) for e in ENERGIES]


# ----------------------------------------------------------------------------- reference series (NumPy float64)
# a coefficient set is a list of [n, m, C, phi_or_None]
def ref_surface(cs, A, P, lam):
    chi = np.zeros_like(A)
    for n, m, C, ph in cs:
        chi = chi + A ** (n + 1) / (n + 1) * (C or 0.0) * np.cos(m * (P - (ph or 0.0)))
    return 2 * np.pi / lam * chi


def ref_polar_grad(cs, A, P):
    """wavelength * d(chi)/d(alpha) and wavelength / alpha * d(chi)/d(phi), term by term."""
    dk = np.zeros_like(A)
    dp = np.zeros_like(A)
    for n, m, C, ph in cs:
        C = C or 0.0
        arg = m * (P - (ph or 0.0))
        dk = dk + A**n * C * np.cos(arg)
        dp = dp - A**n * (m / (n + 1)) * C * np.sin(arg)
    return 2 * np.pi * dk, 2 * np.pi * dp


def ref_cart_grad(cs, A, P):
    """wavelength * gradient of chi with respect to (alpha_x, alpha_y), from the Wirtinger form
    alpha^(n+1) cos(m (phi - phi0)) = Re[ w^a conj(w)^b exp(-i m phi0) ], w = alpha_x + i alpha_y, a+b = n+1, a-b = m."""
    gx = np.zeros_like(A)
    gy = np.zeros_like(A)

    def wpow(p, q):  # w^p conj(w)^q, evaluated in polar form (repeated complex multiplication loses a digit at degree 6)
        return A ** (p + q) * np.exp(1j * (p - q) * P)

    for n, m, C, ph in cs:
        C = C or 0.0
        a = (n + 1 + m) // 2
        b = (n + 1 - m) // 2
        rot = np.exp(-1j * m * (ph or 0.0))
        t1 = a * wpow(a - 1, b)
        t2 = b * wpow(a, b - 1) if b > 0 else 0.0
        gx = gx + C / (n + 1) * np.real(rot * (t1 + t2))
        gy = gy + C / (n + 1) * np.real(rot * 1j * (t1 - t2))
    return 2 * np.pi * gx, 2 * np.pi * gy


def ref_cart_coefs(cs):
    """own polar -> Cartesian conversion: {label: value}."""
    out = {}
    for n, m, C, ph in cs:
        C = C or 0.0
        if m == 0:
            out[f"C{n}{m}"] = out.get(f"C{n}{m}", 0.0) + C
        else:
            out[f"C{n}{m}_a"] = out.get(f"C{n}{m}_a", 0.0) + C * math.cos(m * (ph or 0.0))
            out[f"C{n}{m}_b"] = out.get(f"C{n}{m}_b", 0.0) + C * math.sin(m * (ph or 0.0))
    return out


def term_scale(cs, lam, power_shift=0):
    """sum over terms of the largest magnitude the term reaches on the grid (for relative tolerances)."""
    amax = float(ALPHA.max())
    s = 0.0
    for n, m, C, ph in cs:
        s += abs(C or 0.0) * amax ** (n + 1 - power_shift) / (n + 1 if power_shift == 0 else 1)
    return s * 2 * np.pi / lam


def polar_floats(cs):
    d = {}
    for n, m, C, ph in cs:
        if C is not None:
            d[f"C{n}{m}"] = float(C)
        if m and ph is not None:
            d[f"phi{n}{m}"] = float(ph)
    return d


def polar_tensors(cs):
    return {k: torch.tensor(v, dtype=torch.float64) for k, v in polar_floats(cs).items()}


def terms_of_labels(labels):
    return {(int(l[1]), int(l[2])) for l in labels}


# ----------------------------------------------------------------------------- part A: one coefficient set
def _t(x):
    return torch.tensor(x, dtype=torch.float64)


def _np(x):
    return x.detach().cpu().numpy().astype(np.float64)


def rel(a, b, scale):
    d = float(np.max(np.abs(np.asarray(a) - np.asarray(b))))
    if not np.isfinite(d):
        return float("inf")
    return d / scale if scale > 0 else d


def _snap(d):
    """bitwise snapshot of a coefficient dictionary (keys in order, tensor bytes / float values)."""
    return [(k, v.detach().clone() if isinstance(v, torch.Tensor) else v) for k, v in d.items()]


def _unchanged(d, snap):
    """'' when the dictionary is bit-identical to its snapshot, else a description of the first difference."""
    if [k for k in d.keys()] != [k for k, _ in snap]:
        return f"keys {list(d.keys())} (were {[k for k, _ in snap]})"
    for k, v0 in snap:
        v = d[k]
        if isinstance(v0, torch.Tensor):
            if not isinstance(v, torch.Tensor) or v.dtype != v0.dtype or v.shape != v0.shape or not torch.equal(v, v0):
                return f"{k}: {float(v0) if v0.numel() == 1 else v0.tolist()} -> {float(v) if isinstance(v, torch.Tensor) and v.numel() == 1 else v}"
        elif v != v0 or type(v) is not type(v0):
            return f"{k}: {v0!r} -> {v!r}"
    return ""


def surface_relations(cs, lam):
    """All relations for one coefficient set. Returns (list of (relation, relative error, detail), chi) ."""
    from quantem.diffractive_imaging import complex_probe as cp
    from quantem.diffractive_imaging.direct_ptycho_utils import ABERRATION_PRESETS

    out = []
    A = _t(A2)
    P = _t(P2)
    cof = polar_floats(cs)
    cot = polar_tensors(cs)
    sc = term_scale(cs, lam) or 1.0
    sg = term_scale(cs, 1.0, power_shift=1) or 1.0  # gradients carry no 1/wavelength
    chi_ref = ref_surface(cs, A2, P2, lam)

    # polar surface vs the independent series
    chi = cp.aberration_surface(A, P, lam, cof)
    chi_np = _np(chi)
    out.append(("polar_surface_equals_reference_series", rel(chi_np, chi_ref, sc), ""))
    chi_t = _np(cp.aberration_surface(A, P, lam, cot))
    out.append(("surface_same_for_float_and_tensor_coefficients", rel(chi_t, chi_np, sc), ""))

    # Cartesian expansion over all labels produced by the library's own conversion
    snap_cot = _snap(cot)
    cart = cp.polar_to_cartesian_aberrations(cot)
    ch = _unchanged(cot, snap_cot)
    out.append(("conversion_leaves_its_input_unmodified", float("inf") if ch else 0.0, f"polar_to_cartesian_aberrations changed its argument: {ch}" if ch else ""))
    labels = list(cart.keys())
    if sorted(labels) != sorted(MY_CART):
        out.append(("conversion_produces_the_25_labels", float("inf"), f"labels {sorted(labels)}"))
    B = cp.aberration_surface_cartesian_basis(A, P, lam, labels)
    chi2 = _np((B * torch.stack([cart[l].to(torch.float64) for l in labels])).sum(-1))
    out.append(("cartesian_expansion_equals_polar_surface", rel(chi2, chi_np, sc), ""))
    # converted coefficients vs own conversion
    mine = ref_cart_coefs(cs)
    cmax = max([abs(c[2] or 0.0) for c in cs] + [1e-300])
    worst = 0.0
    for l in labels:
        worst = max(worst, abs(float(cart[l]) - mine.get(l, 0.0)) / cmax)
    out.append(("polar_to_cartesian_equals_reference_conversion", worst, ""))
    # every basis function vs the closed form, label by label (only needs doing where it is cheap: here always)
    for i, l in enumerate(labels):
        n, m = int(l[1]), int(l[2])
        kind = l[4:] if "_" in l else ""
        ang = np.ones_like(A2) if kind == "" else (np.cos(m * P2) if kind == "a" else np.sin(m * P2))
        bref = 2 * np.pi / lam * A2 ** (n + 1) / (n + 1) * ang
        e = rel(_np(B[..., i]), bref, 2 * np.pi / lam * float(ALPHA.max()) ** (n + 1) / (n + 1))
        if e > TOL64:
            out.append(("basis_function_equals_closed_form", e, f"label {l}"))
    # preset lists: expansion over the preset = surface of the terms the preset contains
    for pname in sorted(ABERRATION_PRESETS):
        L = list(ABERRATION_PRESETS[pname])
        keep = terms_of_labels(L)
        sub = [c for c in cs if (c[0], c[1]) in keep]
        Bp = cp.aberration_surface_cartesian_basis(A, P, lam, L)
        chi_p = _np((Bp * torch.stack([cart[l].to(torch.float64) for l in L])).sum(-1))
        chi_s = _np(cp.aberration_surface(A, P, lam, polar_floats(sub)))
        out.append((f"preset_expansion_equals_polar_surface", rel(chi_p, chi_s, term_scale(sub, lam) or sc), f"preset {pname}"))

    # polar -> Cartesian -> polar
    snap_cart = _snap(cart)
    back = cp.cartesian_to_polar_aberrations(cart)
    ch = _unchanged(cart, snap_cart)
    out.append(("conversion_leaves_its_input_unmodified", float("inf") if ch else 0.0, f"cartesian_to_polar_aberrations changed its argument: {ch}" if ch else ""))
    chi3 = _np(cp.aberration_surface(A, P, lam, back))
    out.append(("polar_cartesian_polar_roundtrip_reproduces_surface", rel(chi3, chi_np, sc), ""))
    if sorted(back.keys()) != sorted(MY_POLAR):
        out.append(("roundtrip_produces_the_25_symbols", float("inf"), f"symbols {sorted(back.keys())}"))

    # gradients: polar
    Ag = _t(A2).requires_grad_(True)
    Pg = _t(P2).requires_grad_(True)
    chig = cp.aberration_surface(Ag, Pg, lam, cof)
    if chig.requires_grad:
        ga, gp = torch.autograd.grad(chig.sum(), (Ag, Pg), allow_unused=True)
        ga = np.zeros_like(A2) if ga is None else _np(ga)
        gp = np.zeros_like(A2) if gp is None else _np(gp)
    else:  # empty coefficient set: surface is a constant zero
        ga = np.zeros_like(A2)
        gp = np.zeros_like(A2)
    dk, dphi = cp.aberration_surface_polar_gradients(A, P, cof)
    dk, dphi = _np(dk), _np(dphi)
    pos = A2 > 0
    out.append(("polar_gradient_dk_equals_wavelength_times_autograd", rel(dk, lam * ga, sg), ""))
    out.append(("polar_gradient_dphi_equals_wavelength_times_autograd", rel(dphi[pos], (lam * gp / np.where(pos, A2, 1.0))[pos], sg), ""))
    rk, rp = ref_polar_grad(cs, A2, P2)
    out.append(("polar_gradient_dk_equals_closed_form", rel(dk, rk, sg), ""))
    out.append(("polar_gradient_dphi_equals_closed_form", rel(dphi, rp, sg), ""))

    # gradients: Cartesian (leaves alpha_x, alpha_y on the rows with alpha > 0)
    Ax = _t((A2 * np.cos(P2))[1:]).requires_grad_(True)
    Ay = _t((A2 * np.sin(P2))[1:]).requires_grad_(True)
    Ar = torch.sqrt(Ax.square() + Ay.square())
    Pr = torch.atan2(Ay, Ax)
    chic = cp.aberration_surface(Ar, Pr, lam, cof)
    if chic.requires_grad:
        gx, gy = torch.autograd.grad(chic.sum(), (Ax, Ay), allow_unused=True)
        gx = np.zeros(Ax.shape) if gx is None else _np(gx)
        gy = np.zeros(Ax.shape) if gy is None else _np(gy)
    else:
        gx = np.zeros(Ax.shape)
        gy = np.zeros(Ax.shape)
    dx, dy = cp.aberration_surface_cartesian_gradients(Ar.detach(), Pr.detach(), cof)
    out.append(("cartesian_gradient_dx_equals_wavelength_times_autograd", rel(_np(dx), lam * gx, sg), ""))
    out.append(("cartesian_gradient_dy_equals_wavelength_times_autograd", rel(_np(dy), lam * gy, sg), ""))
    dxf, dyf = cp.aberration_surface_cartesian_gradients(A, P, cof)
    rx, ry = ref_cart_grad(cs, A2, P2)
    out.append(("cartesian_gradient_dx_equals_closed_form", rel(_np(dxf), rx, sg), ""))
    out.append(("cartesian_gradient_dy_equals_closed_form", rel(_np(dyf), ry, sg), ""))
    return out, chi_np, sc


def merge_relations(cs_init, cs_delta, lam):
    """merge_aberration_coefficients(init polar, delta Cartesian) describes surface(init) + surface(delta)."""
    from quantem.diffractive_imaging import complex_probe as cp

    A = _t(A2)
    P = _t(P2)
    init = polar_tensors(cs_init)
    delta = {k: _t(v) for k, v in ref_cart_coefs(cs_delta).items()}
    snap_i, snap_d = _snap(init), _snap(delta)
    merged = cp.merge_aberration_coefficients(init, delta)
    ch_i, ch_d = _unchanged(init, snap_i), _unchanged(delta, snap_d)
    merged2 = cp.merge_aberration_coefficients(init, delta)  # a second call with the same objects must give the same result
    chi_m = _np(cp.aberration_surface(A, P, lam, merged))
    chi_m2 = _np(cp.aberration_surface(A, P, lam, merged2))
    chi_i = _np(cp.aberration_surface(A, P, lam, polar_floats(cs_init)))
    labels = list(delta.keys())
    if labels:
        B = cp.aberration_surface_cartesian_basis(A, P, lam, labels)
        chi_d = _np((B * torch.stack([delta[l] for l in labels])).sum(-1))
    else:
        chi_d = np.zeros_like(A2)
    sc = (term_scale(cs_init, lam) + term_scale(cs_delta, lam)) or 1.0
    out = [("merge_leaves_its_inputs_unmodified", float("inf") if (ch_i or ch_d) else 0.0, (f"initial polar coefficients changed: {ch_i}; " if ch_i else "") + (f"Cartesian deltas changed: {ch_d}" if ch_d else ""))]
    out.append(("merge_repeatable_with_the_same_arguments", rel(chi_m2, chi_m, sc), ""))
    out.append(("merge_adds_library_surfaces", rel(chi_m, chi_i + chi_d, sc), ""))
    out.append(("merge_adds_reference_surfaces", rel(chi_m, ref_surface(cs_init, A2, P2, lam) + ref_surface(cs_delta, A2, P2, lam), sc), ""))
    return out, chi_m, sc


def eval_surface(item):
    """item = {"family", "cs", "lam"} or {"family": "merge", "init", "delta", "lam"}"""
    t = Tally()
    fam = item["family"]
    try:
        if fam == "merge":
            rels, chi, sc = merge_relations(item["init"], item["delta"], item["lam"])
            nontriv = any(c[2] for c in item["init"]) and any(c[2] for c in item["delta"])
        else:
            rels, chi, sc = surface_relations(item["cs"], item["lam"])
            nontriv = any(c[2] for c in item["cs"])
    except Exception as e:  # the library refusing a canonical coefficient set is a verdict, not a harness error
        t.case(key=item, nontrivial=True, outcome="raised")
        t.fail({"part": "surface", "relation": "evaluates_without_error", "family": fam}, item, f"{fam} set {item}: raised {type(e).__name__}: {e}")
        return t
    worst = 0.0
    for name, err, detail in rels:
        if err == err and err != float("inf"):
            worst = max(worst, err)
        if not (err <= TOL64):
            t.fail(
                {"part": "surface", "relation": name, "family": fam},
                item,
                f"{name} {detail}: relative deviation {err:.3e} > {TOL64:g} for {fam} set {describe(item)} (wavelength {item['lam']:.5f} A, 9x14 grid)",
            )
    t.case(key=item, nontrivial=nontriv, outcome=[round(float(x), 9) for x in (chi / sc).ravel()[[13, 57, 125]]])
    t.extra["relations_evaluated"] += len(rels)
    t.extra[f"sets_{fam}"] += 1
    # keep the worst deviation as an integer count of 1e-18 units (Counter adds; we only want a max -> use a bucket)
    b = 40 if worst <= 0 else max(0, min(40, int(math.ceil(-math.log10(worst)))))
    t.extra[f"worst_dev_1e-{b}"] += 1
    if nontriv and (
        (fam == "full" and item["cs"][0][2] == 1234.5 and item["cs"][1][3] == 0.37)
        or (fam == "pair" and item["cs"][0] == [2, 3, 1.0, 0.37] and item["cs"][1][:3] == [4, 1, -1234.5] and item["cs"][1][3] != 0.37)
        or (fam == "merge" and item["init"] == [[1, 2, 1.0, 0.37]] and item["delta"] == [[1, 2, -1234.5, 0.37]])
    ):
        t.sample({"family": fam, "set": describe(item), "wavelength": item["lam"], "worst_relative_deviation": worst}, cap=1)
    return t


def describe(item):
    def one(cs):
        return ", ".join((f"C{n}{m}={C:g}" if C is not None else f"C{n}{m} absent") + (f"@{ph:.4g}" if (m and ph is not None) else "") for n, m, C, ph in cs) or "(empty)"

    if item.get("family") == "merge":
        return f"init [{one(item['init'])}] + delta [{one(item['delta'])}]"
    cs = item["cs"]
    if len(cs) > 4:
        return one(cs[:3]) + f", ... ({len(cs)} terms)"
    return one(cs)


# ----------------------------------------------------------------------------- part A2: label ORDER of the Cartesian basis
# The basis function of a label must not depend on its position in the list handed to
# aberration_surface_cartesian_basis (callers may pass reversed / shuffled presets, custom lists and list-of-lists groups).
def _radial_order(label):
    return int(label[1])


def order_lists(ctx):
    """(name, labels) for every enumerated label list: presets as given and reversed, every ordered pair of distinct
    labels (both orders), fixed non-monotone permutations of the full 25-label set, seeded permutations."""
    from quantem.diffractive_imaging.direct_ptycho_utils import ABERRATION_PRESETS

    out = []
    for name in sorted(ABERRATION_PRESETS):
        L = list(ABERRATION_PRESETS[name])
        out.append((f"preset {name}", L))
        out.append((f"preset {name} reversed", L[::-1]))
    full = list(MY_CART)
    out.append(("all reversed", full[::-1]))
    out.append(("all odd-even interleave", full[1::2] + full[0::2]))
    out.append(("all rotated by 7", full[7:] + full[:7]))
    out.append(("all descending order, ascending within an order", sorted(full, key=lambda l: (-_radial_order(l), full.index(l)))))
    out.append(("all alternating high/low", [x for pair in zip(full[::-1], full) for x in pair][:25]))
    for j in range(2):
        perm = ctx.rng(2, j).permutation(len(full))
        out.append((f"all seeded permutation {j}", [full[int(i)] for i in perm]))
    pairs = [(f"pair", [a, b]) for a, b in itertools.permutations(full, 2)]
    return out, pairs


_SINGLE_CACHE = {}


def _single_basis(label, lam):
    from quantem.diffractive_imaging import complex_probe as cp

    k = (label, lam)
    if k not in _SINGLE_CACHE:
        _SINGLE_CACHE[k] = _np(cp.aberration_surface_cartesian_basis(_t(A2), _t(P2), lam, [label])[..., 0])
    return _SINGLE_CACHE[k]


def _label_closed_form(label, lam):
    n, m = int(label[1]), int(label[2])
    kind = label[4:] if "_" in label else ""
    ang = np.ones_like(A2) if kind == "" else (np.cos(m * P2) if kind == "a" else np.sin(m * P2))
    return 2 * np.pi / lam * A2 ** (n + 1) / (n + 1) * ang


def _balanced_cart():
    amax = float(ALPHA.max())
    cs = [[n, m, (-1) ** k * 1234.5 / amax ** (n - 1), (0.37 if m else None)] for k, (n, m) in enumerate(TERMS)]
    return ref_cart_coefs(cs)


def order_relations(labels, lam):
    from quantem.diffractive_imaging import complex_probe as cp

    A, P = _t(A2), _t(P2)
    amax = float(ALPHA.max())
    B = _np(cp.aberration_surface_cartesian_basis(A, P, lam, list(labels)))
    out = []
    if B.shape != (*A2.shape, len(labels)):
        return [("basis_has_one_column_per_label", float("inf"), f"shape {B.shape}")], None
    cart = _balanced_cart()
    chi_exp = np.zeros_like(A2)
    sc_tot = 0.0
    w1 = w2 = 0.0
    d1 = d2 = ""
    for i, l in enumerate(labels):
        n = _radial_order(l)
        sc = 2 * np.pi / lam * amax ** (n + 1) / (n + 1)
        e1 = rel(B[..., i], _single_basis(l, lam), sc)
        e2 = rel(B[..., i], _label_closed_form(l, lam), sc)
        if e1 > w1:
            w1, d1 = e1, f"column {i} ({l})"
        if e2 > w2:
            w2, d2 = e2, f"column {i} ({l})"
        chi_exp = chi_exp + B[..., i] * cart[l]
        sc_tot += abs(cart[l]) * sc
    out.append(("basis_column_independent_of_position", w1, d1))
    out.append(("basis_column_equals_closed_form", w2, d2))
    # polar surface of the converted coefficients == basis x coefficients on the permuted list
    sub = {l: _t(cart[l]) for l in labels}
    polar = cp.cartesian_to_polar_aberrations(sub)
    chi_pol = _np(cp.aberration_surface(A, P, lam, polar))
    out.append(("cartesian_expansion_equals_polar_surface", rel(chi_exp, chi_pol, sc_tot or 1.0), ""))
    return out, chi_exp / (sc_tot or 1.0)


def eval_label_order(item):
    """item = {"family": "label_order", "name", "labels", "lam"}"""
    t = Tally()
    labels = item["labels"]
    orders = [_radial_order(l) for l in labels]
    nonmono = any(b < a for a, b in zip(orders, orders[1:]))
    try:
        rels, sig = order_relations(labels, item["lam"])
    except Exception as e:
        t.case(key=item, nontrivial=True, outcome="raised")
        t.fail({"part": "surface", "relation": "evaluates_without_error", "family": "label_order"}, item, f"basis for label list {labels}: raised {type(e).__name__}: {e}")
        return t
    for name, err, detail in rels:
        if not (err <= TOL64):
            t.fail(
                {"part": "surface", "relation": name, "family": "label_order"},
                item,
                f"{name} {detail}: relative deviation {err:.3e} > {TOL64:g} for the label list {item['name']} {labels if len(labels) <= 6 else str(labels[:6])[:-1] + ', ...]'} (wavelength {item['lam']:.5f} A)",
            )
    t.case(key=[labels, item["lam"]], nontrivial=nonmono, outcome=None if sig is None else [round(float(x), 9) for x in sig.ravel()[[13, 57, 125]]])
    t.extra["label_lists"] += 1
    t.extra["label_lists_not_ascending"] += int(nonmono)
    t.extra["relations_evaluated"] += len(rels)
    if item["name"] in ("all rotated by 7", "preset low_order reversed") and item["lam"] == _lams()[0]:
        t.sample({"family": "label_order", "list": item["name"], "labels": labels[:8], "worst_relative_deviation": max(e for _, e, _ in rels)}, cap=1)
    return t


# the same, through the least-squares fit: it accepts flat lists (kept in the given order for fit_method="global") and
# list-of-lists groups; the fitted coefficients must not depend on the order of the labels inside a group
ORDER_FIT_VARIANTS = [
    ("list-of-lists, one group", [["C10", "C12_a", "C12_b", "C30"]], [["C30", "C10", "C12_a", "C12_b"]], "global"),
    ("list-of-lists, two groups", [["C10", "C12_a", "C12_b"], ["C21_a", "C21_b", "C30"]], [["C12_b", "C12_a", "C10"], ["C30", "C21_b", "C21_a"]], "global"),
    ("flat list, global", ["C10", "C12_a", "C12_b", "C21_a", "C21_b", "C30"], ["C30", "C21_b", "C21_a", "C12_b", "C12_a", "C10"], "global"),
    ("flat list, recursive", ["C10", "C12_a", "C12_b", "C21_a", "C21_b", "C30"], ["C30", "C21_b", "C12_b", "C10", "C21_a", "C12_a"], "recursive"),
    ("flat list, sequential", ["C10", "C12_a", "C12_b", "C21_a", "C21_b", "C30"], ["C21_b", "C30", "C12_b", "C10", "C21_a", "C12_a"], "sequential"),
]
# float32 lstsq with permuted columns: worst observed difference 6.5e-7 relative (11 seeds x 5 forms); a column with the wrong
# radial power changes C10 by > 10 x |C10|.
TOL_ORDER = 1e-3


def fit_order_case(case, verbose=False):
    def run_fit(basis):
        with quiet():
            dp = make_dp({"C10": -100.0}, case["seed"])
            dp.fit_hyperparameters_least_squares(cartesian_basis=[list(g) if isinstance(g, list) else g for g in basis], fit_method=case["fit_method"], verbose=0)
        return {k: float(v) for k, v in dp.hyperparameter_state.optimized_aberrations.items()}, dp.corrected_bf.detach().numpy().copy()

    ca, ra = run_fit(case["basis_ascending"])
    cb, rb = run_fit(case["basis_permuted"])
    sc = max(abs(ca.get("C10", 0.0)), 1e-30)
    errs = {k: abs(ca.get(k, 0.0) - cb.get(k, 0.0)) / sc for k in ("C10", "C12")}
    errs["corrected_bf"] = float(np.max(np.abs(ra - rb))) / max(float(np.max(np.abs(ra))), 1e-30)
    fails = []
    bad = [k for k, v in errs.items() if not (v <= TOL_ORDER)]
    if bad:
        fails.append(({"part": "surface", "family": "label_order", "relation": "least_squares_fit_independent_of_label_order"}, f"fit_hyperparameters_least_squares({case['name']}, fit_method={case['fit_method']!r}): basis {case['basis_permuted']} gives {cb}, the same labels in ascending order {case['basis_ascending']} give {ca} (relative differences {errs})"))
    if verbose:
        print(f"  ascending {case['basis_ascending']}: {ca}\n  permuted  {case['basis_permuted']}: {cb}\n  relative differences {errs}")
    return fails, errs, ca


def eval_fit_order(case):
    t = Tally()
    try:
        fails, errs, ca = fit_order_case(case)
    except Exception as e:
        t.case(key=case, nontrivial=True, outcome="raised")
        t.fail({"part": "surface", "family": "label_order", "relation": "least_squares_fit_accepts_label_order"}, case, f"fit_hyperparameters_least_squares({case['name']}) with {case['basis_permuted']}: raised {type(e).__name__}: {e}")
        return t
    t.case(key=[case["name"], case["seed"]], nontrivial=True, outcome=[round(ca.get("C10", 0.0), 2), round(ca.get("C12", 0.0), 2)])
    for cls, msg in fails:
        t.fail(cls, case, msg)
    t.extra["fit_order_points"] += 1
    return t


def single_states(n, m, values, quick_pairs=False, with_absent=False, special=False):
    if m == 0:
        return [[n, m, v, None] for v in values]
    angs = angle_alphabet(m, quick_pairs, special=special)
    st = [[n, m, v, a] for v in values for a in angs]
    if with_absent:
        st += [[n, m, v, None] for v in values]
    return st


def build_surface_items(ctx):
    lams = _lams()
    items = []
    # singles: full alphabets, both wavelengths, angle key also absent
    for (n, m), lam in itertools.product(TERMS, lams):
        for s in single_states(n, m, VALUES, with_absent=True, special=True):
            items.append({"family": "single", "cs": [s], "lam": lam})
        if m:
            for a in angle_alphabet(m, special=True):  # angle given, coefficient absent: must be the zero surface
                items.append({"family": "single", "cs": [[n, m, None, a]], "lam": lam})
    # pairs
    vals = VALUES_Q if ctx.quick else VALUES
    plams = lams[:1]  # pairs at one wavelength (the surface is 1/wavelength-homogeneous; singles and full sets see both)
    for (t1, t2), lam in itertools.product(itertools.combinations(TERMS, 2), plams):
        for s1 in single_states(*t1, vals, quick_pairs=ctx.quick):
            for s2 in single_states(*t2, vals, quick_pairs=ctx.quick):
                items.append({"family": "pair", "cs": [s1, s2], "lam": lam})
    # merge: ordered (init term, delta term) including the same term twice
    mvals = [1.0, -1234.5] if ctx.quick else [0.0, 1.0, -1.0, 1234.5]
    for t1, t2 in itertools.product(TERMS, TERMS):
        for s1 in single_states(*t1, mvals, quick_pairs=True):
            for s2 in single_states(*t2, mvals, quick_pairs=True):
                items.append({"family": "merge", "init": [s1], "delta": [s2], "lam": lams[0]})
    # full 25-symbol sets
    fulls = []
    for v in VALUES[1:]:
        for ai in range(4):
            fulls.append([[n, m, v, (angle_alphabet(m)[ai] if m else None)] for n, m in TERMS])
    fulls.append([[n, m, VALUES[1 + (k % 4)], (angle_alphabet(m)[k % 4] if m else None)] for k, (n, m) in enumerate(TERMS)])
    amax = float(ALPHA.max())
    for ai in range(4):  # balanced: every order contributes the same magnitude at the largest angle
        fulls.append([[n, m, (-1) ** k * 1234.5 / amax ** (n - 1), (angle_alphabet(m)[ai] if m else None)] for k, (n, m) in enumerate(TERMS)])
    for j in range(4):  # seeded contents
        r = ctx.rng(1, j)
        fulls.append([[n, m, float(r.normal() * 1e3 / amax ** (n - 1)), (float(r.uniform(-math.pi, math.pi)) if m else None)] for n, m in TERMS])
    for cs, lam in itertools.product(fulls, lams):
        items.append({"family": "full", "cs": cs, "lam": lam})
    # full sets merged with full deltas
    for j in range(0, len(fulls) - 1, 2):
        items.append({"family": "merge", "init": fulls[j], "delta": fulls[j + 1], "lam": lams[0]})
    return items


# ----------------------------------------------------------------------------- part B: alias entry points
@contextlib.contextmanager
def quiet():
    with warnings.catch_warnings():
        warnings.simplefilter("ignore")
        with contextlib.redirect_stdout(io.StringIO()):
            yield


def make_dp(abers=None, seed=0, scan=(6, 7), det=(8, 8), semiangle=20.0, dk_mrad=8.0, rot=0.0, crop=True):
    """Small virtual-bright-field problem (lifted from design probe p12)."""
    from quantem.core.datastructures import Dataset2d, Dataset3d
    from quantem.diffractive_imaging.direct_ptychography import DirectPtychography

    rng = np.random.default_rng([seed, 12, 77])
    kx = np.fft.fftfreq(det[0], 1 / det[0])[:, None] * dk_mrad
    ky = np.fft.fftfreq(det[1], 1 / det[1])[None, :] * dk_mrad
    mask = np.sqrt(kx**2 + ky**2) <= semiangle
    nbf = int(mask.sum())
    vbf = (1 + 0.1 * rng.normal(size=(nbf, *scan))).astype(np.float32)
    vd = Dataset3d.from_array(vbf, units=("index", "A", "A"), sampling=(1, 0.4, 0.5))
    md = Dataset2d.from_array(mask, units=("mrad", "mrad"), sampling=(dk_mrad, dk_mrad))
    return DirectPtychography.from_virtual_bfs(
        vd, md, energy=80e3, rotation_angle=rot, aberration_coefs=dict(abers or {}), semiangle_cutoff=semiangle, verbose=0, crop_bf_mask=crop, rng=0
    )


def make_4d(seed=0):
    from quantem.core.datastructures import Dataset4dstem

    rng = np.random.default_rng([seed, 12, 78])
    det, scan = (12, 12), (5, 6)
    kr, kc = np.mgrid[: det[0], : det[1]]
    disc = ((kr - 6) ** 2 + (kc - 6) ** 2 <= 9).astype(np.float32)
    arr = (disc[None, None] * (1 + 0.1 * rng.normal(size=(*scan, *det)))).astype(np.float32) + 1e-3
    return Dataset4dstem.from_array(arr, sampling=[0.4, 0.5, 0.05, 0.05], units=["A", "A", "A^-1", "A^-1"])


KERNELS = ["ssb", "obf", "mf", "prlx", "icom"]
PROBE_BASE = {"energy": 80e3, "semiangle_cutoff": 20.0}
ROI = (8, 10)
RSAMP = (0.1, 0.08)


def _state_obs(dp):
    st = dp.hyperparameter_state
    return {
        "current_aberrations": {k: float(v) for k, v in dp.aberration_coefs.items()},
        "optimized_aberrations": {k: float(v) for k, v in st.optimized_aberrations.items()},
        "optimized_rotation_angle": None if st.optimized_rotation_angle is None else float(st.optimized_rotation_angle),
        "optimized_keys": sorted(st.optimized_keys),
        "corrected_bf": dp.corrected_bf.detach().numpy().copy(),
    }


def _probe_obs(p, kind):
    coefs = {k: float(v) for k, v in p.probe_params["aberration_coefs"].items()}
    p.set_initial_probe(ROI, np.array(RSAMP), 1.0)
    arr = (p.initial_probe if kind == "pixelated" else p.probe).detach().numpy().copy()
    return {"aberration_coefs": coefs, "probe": arr}


def ep_validate(co, seed):
    from quantem.core.utils.validators import validate_aberration_coefficients

    return {"coefs": validate_aberration_coefficients(dict(co))}


def ep_standardize(co, seed):
    from quantem.diffractive_imaging.complex_probe import standardize_aberration_coefs

    return {"coefs": {k: float(v) for k, v in standardize_aberration_coefs(dict(co)).items()}}


def ep_pix_flat(co, seed):
    from quantem.diffractive_imaging.probe_models import ProbePixelated

    return _probe_obs(ProbePixelated.from_params({**PROBE_BASE, **co}, rng=0), "pixelated")


def ep_pix_nested(co, seed):
    from quantem.diffractive_imaging.probe_models import ProbePixelated

    return _probe_obs(ProbePixelated.from_params({**PROBE_BASE, "aberration_coefs": dict(co)}, rng=0), "pixelated")


def ep_pix_setter(co, seed):
    from quantem.diffractive_imaging.probe_models import ProbePixelated

    p = ProbePixelated.from_params(dict(PROBE_BASE), rng=0)
    p.probe_params = dict(co)
    return _probe_obs(p, "pixelated")


def ep_pix_setter_nested(co, seed):
    from quantem.diffractive_imaging.probe_models import ProbePixelated

    p = ProbePixelated.from_params(dict(PROBE_BASE), rng=0)
    p.probe_params = {"aberration_coefs": dict(co)}
    return _probe_obs(p, "pixelated")


def ep_pix_from_array(co, seed):
    from quantem.diffractive_imaging.probe_models import ProbePixelated

    p = ProbePixelated.from_array(np.ones(ROI, dtype=np.complex64), probe_params={**PROBE_BASE, **co}, rng=0)
    return {"aberration_coefs": {k: float(v) for k, v in p.probe_params["aberration_coefs"].items()}}


def ep_par_flat(co, seed):
    from quantem.diffractive_imaging.probe_models import ProbeParametric

    p = ProbeParametric.from_params({**PROBE_BASE, **co}, rng=0)
    o = _probe_obs(p, "parametric")
    o["learnable"] = {k: float(v) for k, v in p.aberration_coefs.items()}
    return o


def ep_par_nested(co, seed):
    from quantem.diffractive_imaging.probe_models import ProbeParametric

    p = ProbeParametric.from_params({**PROBE_BASE, "aberration_coefs": dict(co)}, rng=0)
    o = _probe_obs(p, "parametric")
    o["learnable"] = {k: float(v) for k, v in p.aberration_coefs.items()}
    return o


def ep_state(co, seed):
    from quantem.diffractive_imaging.direct_ptychography import HyperparameterState

    a = HyperparameterState(initial_aberrations=dict(co))
    b = HyperparameterState(optimized_aberrations=dict(co))
    c = HyperparameterState(initial_aberrations={"C30": 7.0}, optimized_keys=set(co.keys()) | {"rotation_angle"})
    return {
        "initial": dict(a.initial_aberrations),
        "current_from_initial": dict(a.current_aberrations()),
        "optimized": dict(b.optimized_aberrations),
        "override": dict(c.current_aberrations(dict(co))),
        "optimized_keys": sorted(c.optimized_keys),
        "copy": dict(a.copy().initial_aberrations),
    }


def ep_from_virtual_bfs(co, seed):
    dp = make_dp(co, seed)
    o = {"current_aberrations": {k: float(v) for k, v in dp.aberration_coefs.items()}}
    for k in KERNELS:
        o["recon_" + k] = dp.reconstruct(deconvolution_kernel=k).corrected_bf.detach().numpy().copy()
    o["recon_up2"] = dp.reconstruct(deconvolution_kernel="prlx", upsampling_factor=2).corrected_bf.detach().numpy().copy()
    return o


def ep_from_dataset4d(co, seed):
    from quantem.diffractive_imaging.direct_ptychography import DirectPtychography

    dp = DirectPtychography.from_dataset4d(make_4d(seed), energy=80e3, semiangle_cutoff=20.0, aberration_coefs=dict(co), rotation_angle=0.0, verbose=0, rng=0)
    o = {"current_aberrations": {k: float(v) for k, v in dp.aberration_coefs.items()}}
    for k in ("prlx", "ssb"):
        o["recon_" + k] = dp.reconstruct(deconvolution_kernel=k).corrected_bf.detach().numpy().copy()
    return o


def ep_reconstruct_override(co, seed):
    dp = make_dp(None, seed)
    o = {}
    for k in KERNELS:
        o["recon_" + k] = dp.reconstruct(override_aberration_coefs=dict(co), deconvolution_kernel=k).corrected_bf.detach().numpy().copy()
    # an override on top of a state that already holds the canonical symbol must replace it
    dp2 = make_dp({"C10": 11.0, "C12": 5.0, "phi12": 0.2, "C21": 30.0, "phi21": 0.1, "C30": 100.0, "C50": 1000.0}, seed)
    o["recon_override_existing"] = dp2.reconstruct(override_aberration_coefs=dict(co), deconvolution_kernel="prlx").corrected_bf.detach().numpy().copy()
    return o


def ep_fit_lsq(co, seed):
    dp = make_dp(None, seed)
    dp.fit_hyperparameters_least_squares(aberration_coefs=dict(co), verbose=0)
    return _state_obs(dp)


def ep_fit_xcorr(co, seed):
    dp = make_dp(None, seed)
    dp.fit_hyperparameters_cross_correlation(aberration_coefs=dict(co), rotation_angle=0.0, bin_factors=(1,), verbose=0)
    return _state_obs(dp)


def ep_fit_xcorr_default(co, seed):
    dp = make_dp(None, seed)
    dp.fit_hyperparameters_cross_correlation(aberration_coefs=dict(co), verbose=0)
    o = _state_obs(dp)
    dp = make_dp(None, seed)
    dp.fit_hyperparameters_cross_correlation(aberration_coefs=dict(co), rotation_angle=0.1, alignment_method="pairwise", bin_factors=(2, 1), verbose=0)
    o.update({"pairwise_" + k: v for k, v in _state_obs(dp).items()})
    return o


def ep_grid_fixed(co, seed):
    from quantem.diffractive_imaging.direct_ptychography import OptimizationParameter

    dp = make_dp(None, seed)
    dp.grid_search_hyperparameters(aberration_coefs=dict(co), rotation_angle=OptimizationParameter(-0.2, 0.2, n_points=3), verbose=0)
    return _state_obs(dp)


def ep_optimize_fixed(co, seed):
    import optuna

    from quantem.diffractive_imaging.direct_ptychography import OptimizationParameter

    dp = make_dp(None, seed)
    dp.optimize_hyperparameters(
        aberration_coefs=dict(co), rotation_angle=OptimizationParameter(-0.2, 0.2), n_trials=3, sampler=optuna.samplers.TPESampler(seed=0), verbose=0
    )
    return _state_obs(dp)


def _range_of(v):
    w = 0.2 * abs(v)
    return (v - w, v + w)


def ep_grid_range(co, seed):
    """The searched coefficient is given as a range under its (alias or canonical) name; the other keys stay fixed."""
    from quantem.diffractive_imaging.direct_ptychography import OptimizationParameter

    key = co["__search__"]
    d = {k: v for k, v in co.items() if k != "__search__"}
    lo, hi = _range_of(d[key])
    d[key] = OptimizationParameter(lo, hi, n_points=3)
    dp = make_dp(None, seed)
    dp.grid_search_hyperparameters(aberration_coefs=d, verbose=0)
    o = _state_obs(dp)
    o.pop("optimized_keys")
    return o


def ep_optimize_range(co, seed):
    """Alias form: optimise over a range given under the alias name. Canonical form: reconstruct with the canonical
    symbol set to the value the study found (read back from the public study object)."""
    import optuna

    from quantem.diffractive_imaging.direct_ptychography import OptimizationParameter

    key = co["__search__"]
    d = {k: v for k, v in co.items() if k != "__search__"}
    if "__best__" in co:  # canonical counterpart
        d.pop("__best__")
        d[key] = co["__best__"]
        dp = make_dp(None, seed)
        dp.reconstruct(override_aberration_coefs=d)
        return {"corrected_bf": dp.corrected_bf.detach().numpy().copy(), "coefs": {k: float(v) for k, v in d.items()}}
    lo, hi = _range_of(d[key])
    d[key] = OptimizationParameter(lo, hi)
    dp = make_dp(None, seed)
    dp.optimize_hyperparameters(aberration_coefs=d, n_trials=3, sampler=optuna.samplers.TPESampler(seed=0), verbose=0)
    best = dict(dp.hyperparameter_state.study.best_params)
    return {"corrected_bf": dp.corrected_bf.detach().numpy().copy(), "coefs": {k: float(v) for k, v in dp.aberration_coefs.items()}, "__best__": float(best[key])}


# entry point name -> (function, how to find out whether it exists, aliases it is run for: "all" / "defocus")
def entry_points():
    eps = {}

    def have(modname, *attrs):
        try:
            import importlib

            o = importlib.import_module(modname)
            for a in attrs:
                o = getattr(o, a)
            return True
        except Exception:
            return False

    dpm = "quantem.diffractive_imaging.direct_ptychography"
    pm = "quantem.diffractive_imaging.probe_models"
    table = [
        ("validate_aberration_coefficients", ep_validate, have("quantem.core.utils.validators", "validate_aberration_coefficients"), "all"),
        ("standardize_aberration_coefs", ep_standardize, have("quantem.diffractive_imaging.complex_probe", "standardize_aberration_coefs"), "all"),
        ("ProbePixelated.from_params(flat)", ep_pix_flat, have(pm, "ProbePixelated", "from_params"), "all"),
        ("ProbePixelated.from_params(nested)", ep_pix_nested, have(pm, "ProbePixelated", "from_params"), "all"),
        ("ProbeBase.probe_params setter(flat)", ep_pix_setter, have(pm, "ProbeBase", "probe_params"), "all"),
        ("ProbeBase.probe_params setter(nested)", ep_pix_setter_nested, have(pm, "ProbeBase", "probe_params"), "all"),
        ("ProbePixelated.from_array(probe_params)", ep_pix_from_array, have(pm, "ProbePixelated", "from_array"), "all"),
        ("ProbeParametric.from_params(flat)", ep_par_flat, have(pm, "ProbeParametric", "from_params"), "all"),
        ("ProbeParametric.from_params(nested)", ep_par_nested, have(pm, "ProbeParametric", "from_params"), "all"),
        ("HyperparameterState", ep_state, have(dpm, "HyperparameterState"), "all"),
        ("DirectPtychography.from_virtual_bfs", ep_from_virtual_bfs, have(dpm, "DirectPtychography", "from_virtual_bfs"), "all"),
        ("DirectPtychography.from_dataset4d", ep_from_dataset4d, have(dpm, "DirectPtychography", "from_dataset4d"), "all"),
        ("reconstruct(override_aberration_coefs)", ep_reconstruct_override, have(dpm, "DirectPtychography", "reconstruct"), "all"),
        ("fit_hyperparameters_least_squares", ep_fit_lsq, have(dpm, "DirectPtychography", "fit_hyperparameters_least_squares"), "all"),
        ("fit_hyperparameters_cross_correlation", ep_fit_xcorr, have(dpm, "DirectPtychography", "fit_hyperparameters_cross_correlation"), "all"),
        ("fit_hyperparameters_cross_correlation(defaults, pairwise)", ep_fit_xcorr_default, have(dpm, "DirectPtychography", "fit_hyperparameters_cross_correlation"), "all"),
        ("grid_search_hyperparameters(fixed value)", ep_grid_fixed, have(dpm, "DirectPtychography", "grid_search_hyperparameters"), "all"),
        ("optimize_hyperparameters(fixed value)", ep_optimize_fixed, have(dpm, "DirectPtychography", "optimize_hyperparameters"), "all"),
        ("grid_search_hyperparameters(search range)", ep_grid_range, have(dpm, "DirectPtychography", "grid_search_hyperparameters") and have(dpm, "OptimizationParameter"), "all"),
        ("optimize_hyperparameters(search range)", ep_optimize_range, have(dpm, "DirectPtychography", "optimize_hyperparameters") and have(dpm, "OptimizationParameter"), "all"),
    ]
    for name, fn, ok, which in table:
        eps[name] = (fn, ok, which)
    return eps


def alias_dicts(alias, d):
    canon, sign, scale, context = MY_ALIASES[alias]
    v = d * scale
    return {**context, alias: v}, {**context, canon: sign * v}, dict(context), canon, sign * v


def compare_obs(a, b, path=""):
    """Returns list of differences between two observation records (nested dicts of floats/arrays/lists)."""
    diffs = []
    if isinstance(a, dict) and isinstance(b, dict):
        if sorted(a.keys()) != sorted(b.keys()):
            diffs.append(f"{path}: keys {sorted(a.keys())} vs {sorted(b.keys())}")
            return diffs
        for k in a:
            diffs += compare_obs(a[k], b[k], f"{path}.{k}" if path else str(k))
        return diffs
    if isinstance(a, np.ndarray) or isinstance(b, np.ndarray):
        a = np.asarray(a)
        b = np.asarray(b)
        if a.shape != b.shape:
            return [f"{path}: shape {a.shape} vs {b.shape}"]
        sc = max(float(np.max(np.abs(b))) if b.size else 0.0, 1e-30)
        d = float(np.max(np.abs(a - b))) if a.size else 0.0
        if not (d <= TOL_ALIAS * sc):
            diffs.append(f"{path}: arrays differ by {d:.3e} (scale {sc:.3e})")
        return diffs
    if isinstance(a, float) and isinstance(b, float):
        if not (abs(a - b) <= TOL_ALIAS * max(abs(b), 1e-30)) and not (a != a and b != b):
            diffs.append(f"{path}: {a!r} vs {b!r}")
        return diffs
    if a != b:
        diffs.append(f"{path}: {a!r} vs {b!r}")
    return diffs


def run_entry(name, co, seed):
    fn = entry_points()[name][0]
    with quiet():
        return fn(co, seed)


def alias_case(case, verbose=False):
    """case = {"entry", "alias", "d", "seed"}; returns (fails [(cls, msg)], nontrivial, outcome)."""
    name, alias, d, seed = case["entry"], case["alias"], case["d"], case["seed"]
    co_alias, co_canon, co_none, canon, cval = alias_dicts(alias, d)
    cls = {"part": "alias", "entry": name, "alias": alias}
    fails = []
    searching = "search range" in name
    if searching:
        co_alias = {**co_alias, "__search__": alias}
        co_canon = {**co_canon, "__search__": canon}
    try:
        oa = run_entry(name, co_alias, seed)
    except Exception as e:
        return [(dict(cls, relation="alias_accepted"), f"{name} with {co_alias}: raised {type(e).__name__}: {e}")], True, "raised"
    if name.startswith("optimize_hyperparameters(search"):
        # canonical counterpart: the value the study reports under the alias name, translated by the stated convention
        best = oa.pop("__best__")
        sign = MY_ALIASES[alias][1]
        co_canon = {**co_canon, "__best__": sign * best}
        co_canon[canon] = sign * best
    oc = run_entry(name, co_canon, seed)
    diffs = compare_obs(oa, oc)
    if diffs:
        fails.append((dict(cls, relation="alias_equals_canonical"), f"{name}: {{{alias!r}: {co_alias[alias]!r}}} and {{{canon!r}: {cval!r}}} (context {co_none}) give different results: " + "; ".join(diffs[:4])))
    # absolute statement where the entry point returns a coefficient dictionary
    for key in ("coefs", "aberration_coefs", "current_aberrations", "initial"):
        if key in oa and not searching:
            got = {k: v for k, v in oa[key].items() if v != 0.0 or k in co_canon}
            want = {k: float(v) for k, v in co_canon.items()}
            if key == "current_aberrations" and "optimized_aberrations" in oa:
                continue  # fitted values are merged in there
            same = sorted(got) == sorted(want) and all(abs(got[k] - want[k]) <= TOL_ALIAS * max(abs(want[k]), 1e-30) for k in want)
            if not same:
                fails.append((dict(cls, relation="alias_means_canonical_symbol"), f"{name}: {{{alias!r}: {co_alias[alias]!r}}} -> {key} = {got}, expected {want}"))
    # vacuity: does the coefficient matter at all here?
    nontrivial = True
    if not searching:
        try:
            on = run_entry(name, co_none, seed)
            nontrivial = bool(compare_obs(oc, on))
        except Exception:
            nontrivial = True
    if verbose:
        print(f"  alias form     {co_alias}: {summ(oa)}")
        print(f"  canonical form {co_canon}: {summ(oc)}")
    return fails, nontrivial, summ(oc)


def summ(o):
    out = {}
    for k, v in o.items():
        if isinstance(v, np.ndarray):
            out[k] = [round(float(np.real(v).ravel()[v.size // 3]), 8), round(float(np.abs(v).max()), 8)]
        elif isinstance(v, dict):
            out[k] = {kk: (round(vv, 6) if isinstance(vv, float) else vv) for kk, vv in v.items() if vv != 0.0}
        else:
            out[k] = v
    return out


def eval_alias(case):
    t = Tally()
    fails, nontrivial, outcome = alias_case(case)
    t.case(key=[case["entry"], case["alias"], case["d"]], nontrivial=nontrivial, outcome=outcome)
    for cls, msg in fails:
        t.fail(cls, case, msg)
    t.extra["alias_points"] += 1
    t.extra["alias_points_nontrivial"] += int(nontrivial)
    if nontrivial and case["alias"] == "defocus" and case["d"] == 123.0 and case["entry"] in ("fit_hyperparameters_cross_correlation", "grid_search_hyperparameters(search range)", "ProbePixelated.from_params(flat)"):
        t.sample({"entry": case["entry"], "alias": case["alias"], "d": case["d"], "canonical_result": outcome}, cap=1)
    return t


# ----------------------------------------------------------------------------- part B0: falsy legal values (an explicit zero is a value)
# A coefficient given as 0 is a legal value, not "unset": only None means unset. Every spelling of every coefficient (25
# canonical symbols + 7 aliases) x every numeric zero Python / NumPy / torch offer x every dictionary-taking entry point,
# alone and on top of a state that holds a NON-ZERO value for the same coefficient (where dropping the entry is visible).
# bool is left out on purpose (float(False) is accepted by the unchanged tree, but a flag is not a coefficient value).
FALSY = {
    "0": lambda: 0,
    "0.0": lambda: 0.0,
    "-0.0": lambda: -0.0,
    "np.float64(0)": lambda: np.float64(0.0),
    "np.float32(0)": lambda: np.float32(0.0),
    "np.int64(0)": lambda: np.int64(0),
    "np.array(0.0)": lambda: np.array(0.0),
    "torch.tensor(0.)": lambda: torch.tensor(0.0),
    "torch.tensor(0)": lambda: torch.tensor(0),
}
FALSY_DP = ["0.0", "0"]  # values run through a DirectPtychography object (one build per point)
FALSY_ORDER_C = {1: 150.0, 2: 4000.0, 3: 2.0e5, 4: 6.0e6, 5: 3.0e8}  # comparable phase at 30 mrad for every order
FALSY_DP_BASE = {"C10": -80.0, "C12": 40.0, "phi12": 0.37, "C21": 4000.0, "phi21": 0.5, "C30": 5.0e5, "C50": 5.0e8}
FALSY_KEYS = None  # filled below: spelling -> (canonical symbol, n, m)
_FALSY_DP_CACHE = {}


def falsy_keys():
    global FALSY_KEYS
    if FALSY_KEYS is None:
        FALSY_KEYS = {s: (s, int(s[-2]), int(s[-1])) for s in MY_POLAR}
        for a, (canon, _sign, _scale, _ctx) in MY_ALIASES.items():
            FALSY_KEYS[a] = (canon, int(canon[-2]), int(canon[-1]))
    return FALSY_KEYS


def falsy_base(seed):
    """All 25 symbols non-zero (float32-representable, so that the float32 entry point is exact); the seed fills the values."""
    rng = np.random.default_rng([seed, 12, 79])
    cs = []
    for i, (n, m) in enumerate(TERMS):
        C = FALSY_ORDER_C[n] * (1 + 0.1 * m) * (-1) ** i * (1 + 0.2 * rng.random())
        cs.append([n, m, float(np.float32(C)), float(np.float32(0.37 - 0.11 * m)) if m else None])
    return cs


def falsy_expected(cs, canon, n, m):
    out = []
    for n_, m_, C, ph in cs:
        if (n_, m_) == (n, m):
            out.append([n_, m_, C, 0.0] if canon.startswith("phi") else [n_, m_, 0.0, ph])
        else:
            out.append([n_, m_, C, ph])
    return out


def _lib_surface(co, lam):
    from quantem.diffractive_imaging.complex_probe import aberration_surface

    return _np(aberration_surface(_t(A2), _t(P2), lam, {k: float(v) for k, v in co.items()}))


def falsy_dict_case(case, verbose=False):
    """case = {"part": "falsy", "level": "dict", "key", "z", "seed"} -> (fails, [(op, nontrivial, outcome)])."""
    from quantem.core.utils.validators import validate_aberration_coefficients as V

    key, zn, seed = case["key"], case["z"], case["seed"]
    canon, n, m = falsy_keys()[key]
    eps = entry_points()
    have_S = eps["standardize_aberration_coefs"][1]
    have_H = eps["HyperparameterState"][1]
    if have_S:
        from quantem.diffractive_imaging.complex_probe import standardize_aberration_coefs as S
    if have_H:
        from quantem.diffractive_imaging.direct_ptychography import HyperparameterState as H
    lam = _lams()[0]
    base = falsy_base(seed)
    base_d = polar_floats(base)
    base_wo = {k: v for k, v in base_d.items() if k != canon}
    want_cs = falsy_expected(base, canon, n, m)
    scale = term_scale(base, lam)
    chi_want = ref_surface(want_cs, A2, P2, lam)
    chi_base = ref_surface(base, A2, P2, lam)
    visible = rel(chi_want, chi_base, scale) > 1e-3  # dropping the entry changes the surface
    fails, points = [], []
    z = FALSY[zn]

    def judge(op, fn, alone=False, want=None, unset=False):
        cls = {"part": "falsy", "op": op, "spelling": "alias" if key in MY_ALIASES else "canonical"}
        shown = "None" if unset else zn
        try:
            with quiet():
                got = fn()
            got = {k: float(v) for k, v in got.items()}
        except Exception as e:
            fails.append((dict(cls, relation="zero_accepted"), f"{op} with {{{key!r}: {shown}}}: raised {type(e).__name__}: {e}"))
            points.append((op, True, "raised"))
            return
        if alone:
            ok = (got == {}) if unset else (sorted(got) == [canon] and got[canon] == 0.0)
            if not ok:
                fails.append((dict(cls, relation="none_is_unset" if unset else "explicit_zero_is_a_value"), f"{op}({{{key!r}: {shown}}}) = {got}, expected {dict() if unset else {canon: 0.0}}"))
            points.append((op, True, sorted(got)))
            return
        target, tname = (chi_base, "the stored set") if unset else (chi_want, f"the set with {canon} = 0")
        dev = rel(_lib_surface(got, lam), target, scale)
        held = got.get(canon, None)
        ok = dev <= TOL_ALIAS and (unset or held == 0.0)
        if not ok:
            fails.append(
                (
                    dict(cls, relation="none_is_unset" if unset else "explicit_zero_replaces_stored_value"),
                    f"{op}: {{{key!r}: {shown}}} on top of a set holding {canon} = {base_d[canon]!r}: resulting {canon} = {held!r}; the surface on the 9x14 grid deviates "
                    f"from the surface of {tname} by {dev:.3e} of its scale (tolerance {TOL_ALIAS:g})",
                )
            )
        points.append((op, visible, [round(dev, 9), held]))
        if verbose:
            print(f"  {op:58s} {{{key!r}: {shown}}} -> {canon} = {held!r}, surface deviation {dev:.3e}")

    judge("validate_aberration_coefficients(alone)", lambda: V({key: z()}), alone=True)
    judge("validate_aberration_coefficients(in a full set)", lambda: V({**base_wo, key: z()}))
    if have_S:
        judge("standardize_aberration_coefs(alone)", lambda: S({key: z()}), alone=True)
        judge("standardize_aberration_coefs(in a full set)", lambda: S({**base_wo, key: z()}))
    if have_H:
        judge("HyperparameterState.current_aberrations(override)", lambda: H(initial_aberrations=dict(base_d)).current_aberrations({key: z()}))
        judge("HyperparameterState(optimized over initial)", lambda: H(initial_aberrations=dict(base_d), optimized_aberrations={key: z()}).current_aberrations())
        judge("HyperparameterState(override over optimized)", lambda: H(optimized_aberrations=dict(base_d)).current_aberrations({key: z()}))
        judge("HyperparameterState(initial, full set)", lambda: H(initial_aberrations={**base_wo, key: z()}).current_aberrations())
    if case.get("first"):  # independent of the zero's type: None means unset; names of optimised coefficients keep their meaning
        judge("validate_aberration_coefficients(None alone)", lambda: V({key: None}), alone=True, unset=True)
        if key != canon:  # an alias set to None next to its canonical symbol: the canonical value stays
            judge("validate_aberration_coefficients(alias None in a full set)", lambda: V({**base_d, key: None}), unset=True)
        if have_H:
            judge("HyperparameterState.current_aberrations(override None)", lambda: H(initial_aberrations=dict(base_d)).current_aberrations({key: None}), unset=True)
            cls = {"part": "falsy", "op": "HyperparameterState(optimized_keys)", "spelling": "alias" if key in MY_ALIASES else "canonical"}
            try:
                with quiet():
                    ks = set(H(optimized_keys={key, "rotation_angle"}).optimized_keys)
                if ks != {canon, "rotation_angle"}:
                    fails.append((dict(cls, relation="optimized_key_keeps_its_coefficient"), f"HyperparameterState(optimized_keys={{{key!r}, 'rotation_angle'}}).optimized_keys = {sorted(ks)}, expected {sorted({canon, 'rotation_angle'})}"))
                points.append((cls["op"], True, sorted(ks)))
            except Exception as e:
                fails.append((dict(cls, relation="zero_accepted"), f"HyperparameterState(optimized_keys={{{key!r}}}): raised {type(e).__name__}: {e}"))
                points.append((cls["op"], True, "raised"))
    return fails, points


def _falsy_dp_recon(dp, **kw):
    return {k: dp.reconstruct(deconvolution_kernel=k, **kw).corrected_bf.detach().numpy().copy() for k in ("prlx", "ssb")}


def falsy_dp_case(case, verbose=False):
    """An explicit zero as reconstruct(override_aberration_coefs=...) on an object whose state holds a non-zero value:
    equals the reconstruction of an object built with that coefficient zero."""
    key, zn, seed = case["key"], case["z"], case["seed"]
    canon, n, m = falsy_keys()[key]
    op = "reconstruct(override_aberration_coefs) on a stored non-zero value"
    cls = {"part": "falsy", "op": op, "spelling": "alias" if key in MY_ALIASES else "canonical"}
    with quiet():
        if (canon, seed) not in _FALSY_DP_CACHE:
            if "base" not in _FALSY_DP_CACHE:
                _FALSY_DP_CACHE["base"] = _falsy_dp_recon(make_dp(FALSY_DP_BASE, seed))
            _FALSY_DP_CACHE[(canon, seed)] = _falsy_dp_recon(make_dp({**FALSY_DP_BASE, canon: 0.0}, seed))
        want, stored = _FALSY_DP_CACHE[(canon, seed)], _FALSY_DP_CACHE["base"]
        try:
            got = _falsy_dp_recon(make_dp(FALSY_DP_BASE, seed), override_aberration_coefs={key: FALSY[zn]()})
        except Exception as e:
            return [(dict(cls, relation="zero_accepted"), f"{op} with {{{key!r}: {zn}}}: raised {type(e).__name__}: {e}")], [(op, True, "raised")]
    diffs = compare_obs(got, want)
    visible = bool(compare_obs(want, stored))
    fails = []
    if diffs:
        same_as_stored = not compare_obs(got, stored)
        fails.append(
            (
                dict(cls, relation="explicit_zero_replaces_stored_value"),
                f"{op}: override {{{key!r}: {zn}}} on an object built with {FALSY_DP_BASE} differs from the reconstruction of an object built with {canon} = 0"
                + (" (it equals the reconstruction with the stored value: the zero was dropped)" if same_as_stored else "")
                + ": "
                + "; ".join(diffs[:3]),
            )
        )
    if verbose:
        print(f"  override {{{key!r}: {zn}}}: {summ(got)}\n  object built with {canon} = 0: {summ(want)}\n  stored set: {summ(stored)}")
    return fails, [(op, visible, summ(want))]


def eval_falsy(case):
    t = Tally()
    fails, points = (falsy_dp_case if case["level"] == "dp" else falsy_dict_case)(case)
    for op, nontrivial, outcome in points:
        t.case(key=["falsy", op, case["key"], case["z"]], nontrivial=nontrivial, outcome=[op, case["key"], outcome])
        t.extra["falsy_points"] += 1
        t.extra["falsy_points_on_a_stored_nonzero_value"] += int(nontrivial and ("alone" not in op) and ("optimized_keys" not in op))
    for cls, msg in fails:
        t.fail(cls, case, msg)
    return t


def build_falsy_items(ctx, eps):
    items = []
    for key in falsy_keys():
        for i, zn in enumerate(FALSY):
            items.append({"part": "falsy", "level": "dict", "key": key, "z": zn, "first": i == 0, "seed": ctx.seed})
    if eps["reconstruct(override_aberration_coefs)"][1]:
        dp_keys = [k for k, (canon, _n, _m) in falsy_keys().items() if canon in FALSY_DP_BASE]
        for key in sorted(dp_keys, key=lambda k: falsy_keys()[k][0]):  # same canonical symbol adjacent: one reference build per worker
            for zn in FALSY_DP:
                items.append({"part": "falsy", "level": "dp", "key": key, "z": zn, "seed": ctx.seed})
    return items


# ----------------------------------------------------------------------------- part C: fit lattice
FIT_C10 =[-200.0, -50.0, 30.0, 150.0]
FIT_C12 = [0.0, 10.0, 40.0]
FIT_PHI = [-1.2, -0.4, 0.0, 0.7, 1.4]
FIT_ROT = [-1.5, -0.8, 0.0, 0.3, 1.2, 1.55]
FIT_DETS = [((8, 8), (8.0, 8.0)), ((8, 10), (8.0, 6.5))]  # (gpts, angular sampling in mrad per pixel)
FIT_MASKS = ["disc", "half_plane", "ring"]


def fit_geometry(det_i, mask_name):
    from quantem.core.utils.utils import electron_wavelength_angstrom

    gpts, dk_mrad = FIT_DETS[det_i]
    lam = float(electron_wavelength_angstrom(80e3))
    rs = tuple(d / lam / 1e3 for d in dk_mrad)  # reciprocal sampling A^-1
    sampling = tuple(1 / s / n for s, n in zip(rs, gpts))
    kx = np.fft.fftfreq(gpts[0], 1 / gpts[0])[:, None] * dk_mrad[0]
    ky = np.fft.fftfreq(gpts[1], 1 / gpts[1])[None, :] * dk_mrad[1]
    r = np.sqrt(kx**2 + ky**2)
    if mask_name == "disc":
        mask = r <= 20.0
    elif mask_name == "half_plane":
        mask = (r <= 20.0) & ((kx + 0 * ky) >= 0)
    else:
        mask = (r <= 26.0) & (r >= 9.0)
    return gpts, sampling, lam, torch.tensor(mask)


def predicted_shifts(gpts, sampling, lam, mask, rot, co):
    """The composition of public functions the private _return_lateral_shifts performs."""
    from quantem.diffractive_imaging import complex_probe as cp

    kxa, kya = cp.spatial_frequencies(gpts, sampling, rotation_angle=rot)
    k, phi = cp.polar_coordinates(kxa, kya)
    dx, dy = cp.aberration_surface_cartesian_gradients(k * lam, phi, co)
    return torch.stack((dx[mask], dy[mask]), -1) / 2 / np.pi


def fit_case(case, verbose=False):
    from quantem.diffractive_imaging.direct_ptycho_utils import fit_aberrations_from_shifts

    gpts, sampling, lam, mask = fit_geometry(case["det"], case["mask"])
    C10, C12, phi12, rot = case["C10"], case["C12"], case["phi12"], case["rot"]
    co = {"C10": C10, "C12": C12, "phi12": phi12}
    sh = predicted_shifts(gpts, sampling, lam, mask, rot, co)
    fit = fit_aberrations_from_shifts(sh, mask, lam, gpts, sampling)
    dphi = ((fit["phi12"] - phi12 + math.pi / 2) % math.pi) - math.pi / 2 if C12 > 0 else 0.0
    errs = {
        "C10": abs(fit["C10"] - C10) / abs(C10),
        "C12": abs(fit["C12"] - C12) / max(abs(C10), 1.0),
        "phi12": abs(dphi),
        "rotation_angle": abs(fit["rotation_angle"] - rot),
    }
    fails = []
    cls = {"part": "fit", "relation": "fit_returns_generating_values"}
    bad = [k for k in ("C10", "C12", "phi12") if not (errs[k] <= TOL_FIT)] + (["rotation_angle"] if not (errs["rotation_angle"] <= TOL_ROT) else [])
    if bad:
        fails.append((dict(cls, quantity=bad[0]), f"generated C10={C10}, C12={C12}, phi12={phi12}, rotation={rot} on detector {gpts} mask {case['mask']}: fitted {fit} (wrong: {bad})"))
    if verbose:
        print(f"  generated {co} rotation {rot}\n  fitted    {fit}\n  errors    {errs}")
    return fails, errs, fit


def eval_fit(item):
    """item = (det index, mask name, C10, C12): loops over phi12 and rotation."""
    t = Tally()
    det, mname, C10, C12 = item
    for phi12, rot in itertools.product(FIT_PHI, FIT_ROT):
        case = {"part": "fit", "det": det, "mask": mname, "C10": C10, "C12": C12, "phi12": phi12, "rot": rot}
        try:
            fails, errs, fit = fit_case(case)
        except Exception as e:
            t.case(key=case, nontrivial=True, outcome="raised")
            t.fail({"part": "fit", "relation": "fit_runs"}, case, f"{case}: raised {type(e).__name__}: {e}")
            continue
        t.case(key=case, nontrivial=True, outcome=[round(fit["C10"], 1), round(fit["C12"], 1), round(fit["phi12"] % math.pi, 2) if C12 else 0, round(fit["rotation_angle"], 2)])
        for cls, msg in fails:
            t.fail(cls, case, msg)
        t.extra["fit_points"] += 1
        if phi12 == 0.7 and rot == 0.3 and C12 == 10.0 and C10 == -50.0 and mname == "half_plane":
            t.sample({"fit": case, "fitted": fit}, cap=1)
    return t


# ----------------------------------------------------------------------------- part C2: fit content lattice
# The CONTENT of the coefficient set handed to the fit: axes where a Cartesian component vanishes exactly or both have the same
# magnitude (entries of the fitted symmetric matrix coincide / vanish), magnitude ratios from 0 over "below float32 resolution"
# to the edge of the identifiable domain, polar and Cartesian statement of the same set. phi12 is undefined at C12 = 0, so the
# verdict is on the Cartesian components C12 (cos 2 phi12, sin 2 phi12) and on the gradient field the fitted values reproduce.
FITC_RATIOS = [0.0, 1e-6, 1e-3, 1e-1, 0.5, 0.9]
FITC_PHI = [k * math.pi / 8 for k in range(-4, 5)]
FITC_ROT = FIT_ROT + [math.pi / 4, -math.pi / 4]
_S = math.sqrt(0.5)
FITC_DIRS = [[1.0, 0.0], [_S, _S], [0.0, 1.0], [-_S, _S], [-1.0, 0.0], [-_S, -_S], [0.0, -1.0], [_S, -_S]]  # (C12_a, C12_b) / C12
FITC_C10_Q = [-200.0, 30.0]
# float32 fit: worst observed on HEAD over the thorough lattice (12,096 polar points incl. ratio 0.99): Cartesian components
# 8.0e-7 |C10|, C10 5.3e-7 relative, rotation 5.3e-7 rad, reproduced gradient field 9.8e-7 of its maximum. The astigmatism is
# judged relative to max(C12, FITC_FLOOR |C10|): at ratio 1e-3 the observed 3.6e-7 |C10| is 3.6e-4 of C12 (28 x below TOL_FIT);
# at ratio 1e-6 the generating value is below the float32 resolution of the fit and any answer < 1e-5 |C10| is accepted.
FITC_FLOOR = 1e-3


def fit_content_coefs(case):
    """(coefficient dictionary handed to the gradient functions, generating C12_a, generating C12_b)"""
    from quantem.diffractive_imaging import complex_probe as cp

    C10 = case["C10"]
    C12 = case["ratio"] * abs(C10)
    if case["form"] == "polar":
        ph = case["phi12"]
        if ph is None:  # astigmatism keys absent altogether
            return {"C10": C10}, 0.0, 0.0
        return {"C10": C10, "C12": C12, "phi12": ph}, C12 * math.cos(2 * ph), C12 * math.sin(2 * ph)
    ua, ub = case["ab"]
    cart = {"C10": _t(C10), "C12_a": _t(C12 * ua), "C12_b": _t(C12 * ub)}
    pol = cp.cartesian_to_polar_aberrations(cart)
    return {k: float(v) for k, v in pol.items()}, C12 * ua, C12 * ub


def fit_content_case(case, verbose=False):
    from quantem.diffractive_imaging.direct_ptycho_utils import fit_aberrations_from_shifts

    gpts, sampling, lam, mask = fit_geometry(case["det"], case["mask"])
    C10, rot = case["C10"], case["rot"]
    co, ga, gb = fit_content_coefs(case)
    sh = predicted_shifts(gpts, sampling, lam, mask, rot, co)
    fit = fit_aberrations_from_shifts(sh, mask, lam, gpts, sampling)
    fa, fb = fit["C12"] * math.cos(2 * fit["phi12"]), fit["C12"] * math.sin(2 * fit["phi12"])
    C12 = math.hypot(ga, gb)
    sh_fit = predicted_shifts(gpts, sampling, lam, mask, fit["rotation_angle"], {"C10": fit["C10"], "C12": fit["C12"], "phi12": fit["phi12"]})
    errs = {
        "C10": abs(fit["C10"] - C10) / abs(C10),
        "astigmatism_cartesian_components": math.hypot(fa - ga, fb - gb) / max(C12, FITC_FLOOR * abs(C10)),
        "rotation_angle": abs(fit["rotation_angle"] - rot),
        "gradient_field": float((sh_fit - sh).abs().max() / sh.abs().max()),
    }
    errs = {k: (v if v == v else float("inf")) for k, v in errs.items()}
    bad = [k for k in ("C10", "astigmatism_cartesian_components", "gradient_field") if not (errs[k] <= TOL_FIT)] + (["rotation_angle"] if not (errs["rotation_angle"] <= TOL_ROT) else [])
    fails = []
    if bad:
        gen = f"C10={C10}, " + (f"C12_a={ga:.6g}, C12_b={gb:.6g} (Cartesian form, converted by the library to { {k: v for k, v in co.items() if v != 0.0} })" if case["form"] == "cartesian" else f"{ {k: v for k, v in co.items() if k != 'C10'} } (C12_a={ga:.6g}, C12_b={gb:.6g})")
        fails.append((
            {"part": "fit_content", "relation": "fit_returns_generating_values", "quantity": bad[0], "form": case["form"]},
            f"generated {gen}, ratio C12/|C10|={case['ratio']:g}, rotation={rot:.6g} on detector {gpts} mask {case['mask']}: fitted {fit} "
            f"i.e. C12_a={fa:.6g}, C12_b={fb:.6g} (wrong: {bad}; errors { {k: float(f'{v:.3g}') for k, v in errs.items()} })",
        ))
    if verbose:
        print(f"  generated {co} (C12_a={ga:.6g}, C12_b={gb:.6g}) rotation {rot}\n  fitted    {fit} (C12_a={fa:.6g}, C12_b={fb:.6g})\n  errors    {errs}")
    return fails, errs, fit, (fa, fb)


def fit_content_points(form, ratio):
    """axis alphabet of one (form, ratio): polar -> phi12 values (None = keys absent), Cartesian -> unit directions"""
    if form == "polar":
        return FITC_PHI + ([None] if ratio == 0.0 else [])
    return [[0.0, 0.0]] if ratio == 0.0 else FITC_DIRS


def eval_fit_content(item):
    """item = (det index, mask name, C10, form, ratio): loops over the axis alphabet and the rotation."""
    t = Tally()
    det, mname, C10, form, ratio = item
    for ax, rot in itertools.product(fit_content_points(form, ratio), FITC_ROT):
        case = {"part": "fit_content", "det": det, "mask": mname, "C10": C10, "form": form, "ratio": ratio, "rot": rot}
        case["phi12" if form == "polar" else "ab"] = ax
        try:
            fails, errs, fit, (fa, fb) = fit_content_case(case)
        except Exception as e:
            t.case(key=case, nontrivial=True, outcome="raised")
            t.fail({"part": "fit_content", "relation": "fit_runs", "form": form}, case, f"{case}: raised {type(e).__name__}: {e}")
            continue
        sc = max(abs(C10) * ratio, 1e-3 * abs(C10))
        t.case(key=case, nontrivial=True, outcome=[round(fit["C10"], 1), round(fa / sc, 1), round(fb / sc, 1), round(fit["rotation_angle"], 2)])
        for cls, msg in fails:
            t.fail(cls, case, msg)
        t.extra["fit_content_points"] += 1
        t.extra["fit_content_points_one_component_zero"] += int(ratio > 0 and (form == "cartesian" and 0.0 in ax or form == "polar" and ax is not None and round(ax / (math.pi / 8)) % 2 == 0))
        worst = max(errs["C10"], errs["astigmatism_cartesian_components"], errs["gradient_field"])  # Counter adds: bucket, not max
        t.extra[f"fitc_worst_dev_1e-{40 if worst <= 0 else max(0, min(40, int(math.ceil(-math.log10(worst)))))}"] += 1
        if form == "polar" and ratio == 0.1 and ax == math.pi / 4 and rot == 0.3 and C10 == -200.0 and mname == "disc" and det == 0:
            t.sample({"fit_content": case, "fitted": fit, "errors": errs}, cap=1)
    return t


def eval_private_shifts(item, seam=True):
    """When the private _return_lateral_shifts exists it must agree with the public composition."""
    t = Tally()
    rot, co = item
    dp = make_dp(None, 0, crop=False)
    f = getattr(dp, "_return_lateral_shifts", None)
    if f is None:
        return t
    want = predicted_shifts(tuple(dp.gpts), tuple(dp.sampling), dp.wavelength, dp.bf_mask, rot, co)
    got = f(rot, co, dp.bf_mask)
    sc = max(float(want.abs().max()), 1e-30)
    d = float((got - want).abs().max())
    case = {"part": "private_shifts", "rot": rot, "co": co}
    t.case(key=case, nontrivial=sc > 1e-20, outcome=[round(float(x), 6) for x in want.ravel()[:4]])
    if not (d <= TOL_F32 * sc):
        t.fail({"part": "fit", "relation": "private_lateral_shifts_equal_public_composition"}, case, f"_return_lateral_shifts({rot}, {co}) differs from the public composition by {d:.3e} (scale {sc:.3e})")
    t.extra["private_shift_points"] += 1
    return t


# ----------------------------------------------------------------------------- part D: call histories
# "A result must not depend on earlier calls": every history (ordered pair, thorough: triple) of calls from an alphabet
# designed to COLLIDE on coarse keys (same grid/sampling/device with different masks of equal pixel count; same mask,
# different coefficients; same everything, different wavelength / rotation; same shapes, different values) starts from
# freshly re-imported modules; the LAST call of the history is judged by the usual oracle.
HIST_MODULES = ["quantem.diffractive_imaging.complex_probe", "quantem.diffractive_imaging.direct_ptycho_utils"]
HIST_GEOM = {  # name -> (gpts, sampling in A); masks are defined in pixel frequencies, so they do not move with the wavelength
    "g88": ((8, 8), (0.65, 0.65)),
    "g810": ((8, 10), (0.65, 0.64)),
}
HIST_COEFS = [{"C10": -150.0, "C12": 20.0, "phi12": 0.4}, {"C10": 30.0, "C12": 10.0, "phi12": -1.2}]
HIST_ROT_LAM = [(0.2, 0), (-0.8, 0), (0.2, 1)]  # (rotation, index into the wavelength alphabet)
HIST_MASKS = {"g88": ["disc", "disc_shift", "ellipse", "ellipse_T", "half_x", "half_y"], "g810": ["disc", "disc_shift", "half_x"]}


def _reload_modules():
    import importlib
    import sys

    for name in HIST_MODULES:
        mod = sys.modules.get(name) or importlib.import_module(name)
        importlib.reload(mod)


def hist_mask(geom, name):
    gpts = HIST_GEOM[geom][0]
    kx = np.fft.fftfreq(gpts[0], 1 / gpts[0])[:, None] + np.zeros(gpts)
    ky = np.fft.fftfreq(gpts[1], 1 / gpts[1])[None, :] + np.zeros(gpts)
    disc = kx**2 + ky**2 <= 6.25
    if name == "disc":
        m = disc
    elif name == "disc_shift":
        m = np.roll(disc, 1, axis=0 if geom == "g88" else 1)
    elif name == "ellipse":
        m = (kx / 3.2) ** 2 + (ky / 1.6) ** 2 <= 1.0
    elif name == "ellipse_T":
        m = ((kx / 3.2) ** 2 + (ky / 1.6) ** 2 <= 1.0).T
    elif name == "half_x":
        m = disc & (kx >= 0)
    elif name == "half_y":
        m = disc & (ky >= 0)
    else:
        raise ValueError(name)
    return torch.tensor(np.ascontiguousarray(m))


def hist_fit_calls():
    calls = []
    for mk in HIST_MASKS["g88"]:
        for ci in range(len(HIST_COEFS)):
            for rot, li in HIST_ROT_LAM:
                calls.append(["fit", "g88", mk, ci, rot, li])
    for mk in HIST_MASKS["g810"]:
        calls.append(["fit", "g810", mk, 0, 0.2, 0])
    return calls


HIST_SETS = [
    [[2, 3, 1234.5, 0.37]],
    [[1, 0, -150.0, None], [1, 2, 20.0, 0.4], [3, 0, 2.0e5, None], [5, 6, 1.0e9, -1.1]],
]
HIST_LABELS = [["C10", "C12_a", "C12_b"], ["C30", "C32_b", "C32_a"], ["C12_b", "C10", "C12_a"]]
HIST_KINDS = ["surface", "basis", "polar_grad", "cart_grad", "p2c", "c2p", "merge"]


def hist_math_calls():
    # [kind, set index (basis: label-list index), grid index, wavelength index]; the two grids have the same shape
    calls = []
    for kind in HIST_KINDS:
        nsets = len(HIST_LABELS) if kind == "basis" else len(HIST_SETS)
        for si in range(nsets):
            for gi, li in ((0, 0), (1, 0), (0, 1)):
                if kind in ("p2c", "c2p") and (gi, li) != (0, 0):
                    continue  # conversions take no grid and no wavelength
                calls.append([kind, si, gi, li])
    return calls


def _hist_grid(gi):
    return (A2, P2) if gi == 0 else (0.5 * A2 + 0.001, P2[:, ::-1] * 0.9 + 0.05)


def do_call(call, check=True):
    """Execute one call on the real functions; with check=True return (relative error / tolerance, detail)."""
    from quantem.diffractive_imaging import complex_probe as cp

    kind = call[0]
    lams = _lams()
    if kind == "fit":
        from quantem.diffractive_imaging.direct_ptycho_utils import fit_aberrations_from_shifts

        _, geom, mk, ci, rot, li = call
        gpts, sampling = HIST_GEOM[geom]
        lam = lams[li]
        mask = hist_mask(geom, mk)
        co = HIST_COEFS[ci]
        sh = predicted_shifts(gpts, sampling, lam, mask, rot, co)
        fit = fit_aberrations_from_shifts(sh, mask, lam, gpts, sampling)
        if not check:
            return None
        dphi = ((fit["phi12"] - co["phi12"] + math.pi / 2) % math.pi) - math.pi / 2
        errs = [abs(fit["C10"] - co["C10"]) / abs(co["C10"]) / TOL_FIT, abs(fit["C12"] - co["C12"]) / abs(co["C10"]) / TOL_FIT, abs(dphi) / TOL_FIT, abs(fit["rotation_angle"] - rot) / TOL_ROT]
        return max(errs), f"generated {co} rotation {rot}, fitted {fit}"
    _, si, gi, li = call
    lam = lams[li]
    Ag, Pg = _hist_grid(gi)
    A, P = _t(Ag), _t(Pg)
    amax = float(Ag.max())
    if kind == "basis":
        labels = HIST_LABELS[si]
        B = _np(cp.aberration_surface_cartesian_basis(A, P, lam, list(labels)))
        if not check:
            return None
        w = 0.0
        for i, l in enumerate(labels):
            n, m = int(l[1]), int(l[2])
            knd = l[4:] if "_" in l else ""
            ang = np.ones_like(Ag) if knd == "" else (np.cos(m * Pg) if knd == "a" else np.sin(m * Pg))
            w = max(w, rel(B[..., i], 2 * np.pi / lam * Ag ** (n + 1) / (n + 1) * ang, 2 * np.pi / lam * amax ** (n + 1) / (n + 1)))
        return w / TOL64, f"basis {labels}"
    cs = HIST_SETS[si]
    sc = sum(abs(c[2]) * amax ** (c[0] + 1) / (c[0] + 1) for c in cs) * 2 * np.pi / lam
    sg = sum(abs(c[2]) * amax ** c[0] for c in cs) * 2 * np.pi
    if kind == "surface":
        got = _np(cp.aberration_surface(A, P, lam, polar_floats(cs)))
        return (rel(got, ref_surface(cs, Ag, Pg, lam), sc) / TOL64, "surface") if check else None
    if kind == "polar_grad":
        dk, dp = cp.aberration_surface_polar_gradients(A, P, polar_floats(cs))
        if not check:
            return None
        rk, rp = ref_polar_grad(cs, Ag, Pg)
        return max(rel(_np(dk), rk, sg), rel(_np(dp), rp, sg)) / TOL64, "polar gradients"
    if kind == "cart_grad":
        dx, dy = cp.aberration_surface_cartesian_gradients(A, P, polar_floats(cs))
        if not check:
            return None
        rx, ry = ref_cart_grad(cs, Ag, Pg)
        return max(rel(_np(dx), rx, sg), rel(_np(dy), ry, sg)) / TOL64, "Cartesian gradients"
    cmax = max(abs(c[2]) for c in cs)
    if kind == "p2c":
        cart = cp.polar_to_cartesian_aberrations(polar_tensors(cs))
        if not check:
            return None
        mine = ref_cart_coefs(cs)
        return max(abs(float(cart[l]) - mine.get(l, 0.0)) / cmax for l in cart) / TOL64, "polar -> Cartesian"
    if kind == "c2p":
        back = cp.cartesian_to_polar_aberrations({k: _t(v) for k, v in ref_cart_coefs(cs).items()})
        if not check:
            return None
        got = _np(cp.aberration_surface(_t(A2), _t(P2), lam, back))
        return rel(got, ref_surface(cs, A2, P2, lam), term_scale(cs, lam)) / TOL64, "Cartesian -> polar"
    if kind == "merge":
        other = HIST_SETS[(si + 1) % len(HIST_SETS)]
        merged = cp.merge_aberration_coefficients(polar_tensors(cs), {k: _t(v) for k, v in ref_cart_coefs(other).items()})
        if not check:
            return None
        got = _np(cp.aberration_surface(A, P, lam, merged))
        sc2 = sc + sum(abs(c[2]) * amax ** (c[0] + 1) / (c[0] + 1) for c in other) * 2 * np.pi / lam
        return rel(got, ref_surface(cs, Ag, Pg, lam) + ref_surface(other, Ag, Pg, lam), sc2) / TOL64, "merge"
    raise ValueError(call)


def _coarse_collision(a, b):
    """two fit calls that agree on grid, sampling and mask pixel count but use different masks"""
    return a[0] == "fit" and b[0] == "fit" and a[1] == b[1] and a[2] != b[2] and int(hist_mask(a[1], a[2]).sum()) == int(hist_mask(b[1], b[2]).sum())


def run_history(hist, verbose=False):
    """Fresh modules, all calls in order, the last one judged. Returns (ratio to tolerance, detail)."""
    _reload_modules()
    for c in hist[:-1]:
        do_call(c, check=False)
    r = do_call(hist[-1], check=True)
    if verbose:
        print(f"    history {hist[:-1]} -> last call {hist[-1]}: deviation / tolerance = {r[0]:.3e}  ({r[1]})")
    return r


def eval_history(item, depth=2, family="fit"):
    """item = first call; all histories of the given depth that start with it (depth 3: middle call from every 3rd member)."""
    t = Tally()
    calls = hist_fit_calls() if family == "fit" else hist_math_calls()
    first = list(item)
    alone = {}
    tails = [[]] + [[c] for c in calls]
    if depth >= 3:
        tails += [[m, c] for m in calls[::3] for c in calls]
    try:
        for tail in tails:
            hist = [first] + tail
            case = {"part": "history", "history": hist}
            try:
                ratio, detail = run_history(hist)
            except Exception as e:
                t.case(key=case, nontrivial=True, outcome="raised")
                t.fail({"part": "history", "relation": "history_runs", "last_call": hist[-1][0]}, case, f"history {hist}: raised {type(e).__name__}: {e}")
                continue
            collide = any(_coarse_collision(c, hist[-1]) for c in hist[:-1])
            t.case(key=case, nontrivial=len(hist) > 1 and any(c != hist[-1] for c in hist[:-1]), outcome=None)
            t.extra["histories"] += 1
            t.extra["histories_colliding_on_coarse_key"] += int(collide)
            if not (ratio <= 1.0):
                if len(hist) == 1:
                    cls = {"part": "history", "relation": "call_alone_matches_oracle", "last_call": hist[-1][0]}
                    msg = f"the single call {hist[-1]} in a fresh module deviates from its oracle by {ratio:.3e} x tolerance ({detail})"
                else:
                    key_last = json.dumps(hist[-1])
                    if key_last not in alone:
                        try:
                            alone[key_last] = run_history(hist[-1:])[0]
                        except Exception:
                            alone[key_last] = float("inf")
                    if not (alone[key_last] <= 1.0):
                        # the last call is wrong on its own: reported once as call_alone_matches_oracle (by the history that
                        # consists of that call only), not as a dependence on earlier calls
                        t.extra["histories_whose_last_call_fails_alone"] += 1
                        continue
                    cls = {"part": "history", "relation": "result_independent_of_earlier_calls", "last_call": hist[-1][0]}
                    msg = f"after the calls {hist[:-1]} the call {hist[-1]} deviates from its oracle by {ratio:.3e} x tolerance ({detail}); alone in a fresh module it agrees ({alone[key_last]:.1e} x tolerance)" + (" [the calls agree on grid, sampling and mask pixel count but use different masks]" if collide else "")
                t.fail(cls, case, msg)
            if collide and hist[-1][2] == "ellipse_T" and hist[0][2] == "ellipse" and len(hist) == 2 and hist[0][3:] == hist[1][3:] == [0, 0.2, 0]:
                t.sample({"history": hist, "deviation_over_tolerance": ratio}, cap=1)
    finally:
        _reload_modules()
    return t


# ----------------------------------------------------------------------------- part E: fit / search histories on ONE object
# A fit's result must not depend on what was fitted, searched or reconstructed before on the same DirectPtychography object:
# every ordered pair (thorough: triple) of events ending in a judged fit; the LAST fit is compared with the same fit on a
# fresh object, and - the stack being synthesised from known aberrations - the cross-correlation fit must recover them.
# Judged as last event: the cross-correlation fits, the two searches and the least-squares fit with use_initial_state=True.
# The plain least-squares fit documents that it starts from the object's CURRENT (optimized) aberrations - a refinement by
# design - so it only appears as an EARLIER event.
RH_TRUE = {"C10": -150.0, "C12": 30.0, "phi12": 0.4}
RH_ROT = 0.3
RH_SCAN = (28, 32)
RH_SCAN_SAMPLING = (0.5, 0.5)
RH_G = 9
RH_KS = 0.05
RH_EVENTS = [
    ["xcorr", "bins21"],
    ["xcorr", "seeded_bins1"],
    ["lsq", "recursive"],
    ["lsq", "global"],
    ["lsq", "sequential"],
    ["lsq_initial_state", "recursive"],
    ["grid", "C10"],
    ["optuna", "C10"],
    ["recon", "ssb"],
    ["recon", "prlx"],
    ["clear", ""],
]
RH_JUDGED = ["xcorr", "lsq_initial_state", "grid", "optuna"]
# image-based recovery (cross-correlation of 29 shifted 28x32 images, upsampling 4): observed on HEAD C10 1.2e-4, C12 3.8e-4
# (relative to |C10|), phi12 6.6e-4 rad, rotation 4.2e-4 rad (identical for every history); the seeded stale-state fit returns
# C10 = +45 for -150. C10 / C12 / phi12 use TOL_FIT (1e-2); the rotation needs 20 x 4.2e-4 -> 1e-2 rad instead of TOL_ROT.
RH_TOL_ROT = 1e-2
_RH_CACHE = {}


def make_recovery_dp():
    from quantem.core.datastructures import Dataset2d, Dataset3d
    from quantem.diffractive_imaging.direct_ptychography import DirectPtychography

    if "stack" not in _RH_CACHE:
        from quantem.core.utils.utils import electron_wavelength_angstrom

        G = RH_G
        kx = np.fft.fftfreq(G) * G
        KX, KY = np.meshgrid(kx, kx, indexing="ij")
        mask = (KX**2 + KY**2) <= 3.2**2
        lam = float(electron_wavelength_angstrom(80e3))
        sampling = (1 / (RH_KS * G), 1 / (RH_KS * G))
        sh = predicted_shifts((G, G), sampling, lam, torch.tensor(mask), RH_ROT, RH_TRUE).numpy().astype(np.float64)
        sh_px = sh / np.array(RH_SCAN_SAMPLING)
        rng = np.random.default_rng(1205)
        obj = rng.normal(size=RH_SCAN)
        qx = np.fft.fftfreq(RH_SCAN[0])[:, None]
        qy = np.fft.fftfreq(RH_SCAN[1])[None, :]
        obj = np.fft.ifft2(np.fft.fft2(obj) * np.exp(-(qx**2 + qy**2) / (2 * 0.12**2))).real
        obj = 1 + 0.3 * obj / obj.std()
        F = np.fft.fft2(obj)
        # parallax moves image k by +shift_k to undo the aberration, so the raw image sits at -shift_k
        stack = np.stack([np.fft.ifft2(F * np.exp(-2j * np.pi * (qx * (-s[0]) + qy * (-s[1])))).real for s in sh_px]).astype(np.float32)
        _RH_CACHE["stack"] = (stack, mask)
    stack, mask = _RH_CACHE["stack"]
    vd = Dataset3d.from_array(stack.copy(), name="vbf", units=("index", "A", "A"), sampling=(1,) + RH_SCAN_SAMPLING)
    md = Dataset2d.from_array(mask.copy(), name="bf", units=("A^-1", "A^-1"), sampling=(RH_KS, RH_KS))
    return DirectPtychography.from_virtual_bfs(vd, md, energy=80e3, rotation_angle=0.0, semiangle_cutoff=20.0, crop_bf_mask=False, verbose=False, rng=0)


def rh_apply(dp, ev):
    import optuna

    from quantem.diffractive_imaging.direct_ptychography import OptimizationParameter

    kind, arg = ev
    if kind == "xcorr":
        if arg == "bins21":
            dp.fit_hyperparameters_cross_correlation(rotation_angle=0.0, bin_factors=(2, 1), verbose=0)
        else:
            dp.fit_hyperparameters_cross_correlation(aberration_coefs={"C10": -100.0}, rotation_angle=0.2, bin_factors=(1,), verbose=0)
    elif kind == "lsq":
        dp.fit_hyperparameters_least_squares(aberration_coefs={"C10": -100.0}, cartesian_basis="quadratic", fit_method=arg, verbose=0)
    elif kind == "lsq_initial_state":
        dp.fit_hyperparameters_least_squares(cartesian_basis="quadratic", fit_method=arg, use_initial_state=True, verbose=0)
    elif kind == "grid":
        dp.grid_search_hyperparameters(aberration_coefs={"C10": OptimizationParameter(-200.0, -100.0, n_points=3)}, rotation_angle=0.3, verbose=0)
    elif kind == "optuna":
        dp.optimize_hyperparameters(aberration_coefs={"C10": OptimizationParameter(-200.0, -100.0)}, rotation_angle=0.3, n_trials=2, sampler=optuna.samplers.TPESampler(seed=0), verbose=0)
    elif kind == "recon":
        dp.reconstruct(deconvolution_kernel=arg, verbose=False)
    elif kind == "clear":
        dp.hyperparameter_state.clear_optimized()
    else:
        raise ValueError(ev)


def rh_observe(dp):
    st = dp.hyperparameter_state
    return {
        "optimized_aberrations": {k: float(v) for k, v in st.optimized_aberrations.items()},
        "optimized_rotation_angle": None if st.optimized_rotation_angle is None else float(st.optimized_rotation_angle),
        "corrected_bf": dp.corrected_bf.detach().numpy().copy(),
    }


def rh_history(hist, verbose=False):
    """Returns list of (cls, msg)."""
    last = hist[-1]
    key = json.dumps(last)
    with quiet():
        if key not in _RH_CACHE:
            fresh = make_recovery_dp()
            rh_apply(fresh, last)
            _RH_CACHE[key] = rh_observe(fresh)
        dp = make_recovery_dp()
        for ev in hist:
            rh_apply(dp, ev)
        got = rh_observe(dp)
    fails = []
    diffs = compare_obs(got, _RH_CACHE[key])
    if diffs and len(hist) > 1:
        fails.append(({"part": "fit_history", "relation": "fit_independent_of_earlier_events_on_the_object", "last_event": last[0]}, f"after {hist[:-1]} on the same object, {last} gives {summ(got)}; the same call on a fresh object gives {summ(_RH_CACHE[key])}: " + "; ".join(diffs[:3])))
    if last == ["xcorr", "bins21"]:
        ab, rot = got["optimized_aberrations"], got["optimized_rotation_angle"]
        dphi = ((ab.get("phi12", 0.0) - RH_TRUE["phi12"] + math.pi / 2) % math.pi) - math.pi / 2
        errs = {"C10": abs(ab.get("C10", 0.0) - RH_TRUE["C10"]) / 150.0, "C12": abs(ab.get("C12", 0.0) - RH_TRUE["C12"]) / 150.0, "phi12": abs(dphi), "rotation_angle": abs((rot or 0.0) - RH_ROT)}
        bad = [k for k in ("C10", "C12", "phi12") if not (errs[k] <= TOL_FIT)] + (["rotation_angle"] if not (errs["rotation_angle"] <= RH_TOL_ROT) else [])
        if bad:
            fails.append(({"part": "fit_history", "relation": "cross_correlation_fit_recovers_generating_values", "history_length": "1" if len(hist) == 1 else ">1"}, f"history {hist}: the stack is synthesised from {RH_TRUE}, rotation {RH_ROT}; fitted {ab}, rotation {rot} (wrong: {bad}, errors {errs})"))
        if verbose:
            print(f"    recovery errors {errs}")
    if verbose:
        print(f"    history {hist}: {summ(got)}\n    fresh object, last event only: {summ(_RH_CACHE[key])}")
    return fails


def eval_fit_history(item, depth=2):
    """item = first event; all histories of the given depth that start with it and end in a judged fit (and the single fit)."""
    t = Tally()
    first = list(item)
    lasts = [e for e in RH_EVENTS if e[0] in RH_JUDGED]
    tails = ([[]] if first[0] in RH_JUDGED else []) + [[e] for e in lasts]
    if depth >= 3:
        tails += [[m, e] for m in RH_EVENTS[::2] for e in lasts]
    for tail in tails:
        hist = [first] + tail
        case = {"part": "fit_history", "history": hist}
        try:
            fails = rh_history(hist)
        except Exception as e:
            t.case(key=hist, nontrivial=True, outcome="raised")
            t.fail({"part": "fit_history", "relation": "history_runs", "last_event": hist[-1][0]}, case, f"fit history {hist}: raised {type(e).__name__}: {str(e)[:200]}")
            continue
        t.case(key=hist, nontrivial=len(hist) > 1, outcome=None)
        t.extra["fit_histories"] += 1
        for cls, msg in fails:
            t.fail(cls, case, msg)
    return t


# ----------------------------------------------------------------------------- run / replay
def static_checks(ctx):
    """Naming schemes: the library's symbol/label/preset tables against the own statement of the convention."""
    from quantem.diffractive_imaging import complex_probe as cp
    from quantem.diffractive_imaging.direct_ptycho_utils import ABERRATION_PRESETS

    def bad(rel_, msg):
        ctx.fail({"part": "naming", "relation": rel_}, {"part": "naming", "relation": rel_}, msg)

    ctx.case(key="naming", nontrivial=True, outcome=len(cp.POLAR_SYMBOLS))
    if sorted(cp.POLAR_SYMBOLS) != sorted(MY_POLAR):
        bad("polar_symbols_are_the_25", f"POLAR_SYMBOLS = {cp.POLAR_SYMBOLS}")
    if sorted(ABERRATION_PRESETS.get("all", [])) != sorted(MY_CART):
        bad("preset_all_is_the_25_labels", f"ABERRATION_PRESETS['all'] = {ABERRATION_PRESETS.get('all')}")
    for name, L in ABERRATION_PRESETS.items():
        if not set(L) <= set(MY_CART) or len(set(L)) != len(L):
            bad("preset_labels_valid", f"preset {name}: {L}")
    for l in MY_CART:
        n, m, kind = cp.parse_cartesian_aberration_label(l)
        want = (int(l[1]), int(l[2]), (l[4:] if "_" in l else None))
        if (n, m, kind) != want:
            bad("label_parses", f"parse_cartesian_aberration_label({l!r}) = {(n, m, kind)}, expected {want}")
    unknown = sorted(set(cp.POLAR_ALIASES) - set(MY_ALIASES))
    for a, (canon, sign, _, _) in MY_ALIASES.items():
        if cp.POLAR_ALIASES.get(a) != canon:
            bad("alias_table", f"POLAR_ALIASES[{a!r}] = {cp.POLAR_ALIASES.get(a)!r}, expected {canon!r}")
    return unknown


def build_alias_items(ctx, eps):
    items = []
    for name, (fn, ok, which) in eps.items():
        if not ok:
            ctx.seam_missing.append(f"entry point {name}")
            continue
        for alias in MY_ALIASES:
            if which == "defocus" and alias != "defocus":
                continue
            ds = DVALS if (alias == "defocus" or not ctx.quick) else DVALS[2:3]
            for d in ds:
                items.append({"part": "alias", "entry": name, "alias": alias, "d": d, "seed": ctx.seed})
    return items


def run(ctx):
    warnings.simplefilter("ignore")
    ctx.assume(
        "the aberration code stays in the function class 'monomial of degree <= 6 in the angle x trigonometric polynomial of degree <= 6 in the azimuth' per coefficient; a 9x14 grid determines such a function, so grid agreement is agreement for all real arguments",
        "coefficient values {0, +-1, +-1234.5}, angles {0, 0.37, -1.1, pi/m}, wavelengths at 80 and 300 kV are alphabets (the surface is linear in every C and 1/wavelength-homogeneous)",
        "an alias and its canonical symbol are never given in the same dictionary (ambiguous, not part of the claim)",
        "fit: identifiable domain |C12| < |C10|, |rotation| < pi/2; phi12 compared modulo pi",
        "fit content lattice: the astigmatism is judged as its Cartesian components relative to max(C12, 1e-3 |C10|) (the fit works in float32: a generating C12 of 1e-6 |C10| is below its resolution); C12 >= |C10| and C10 = 0 are outside the identifiable domain and not run",
        "fit histories: the plain least-squares fit starts from the object's current (optimized) aberrations by design (refinement), so it is only an earlier event; judged last events are the cross-correlation fits, both searches and the least-squares fit with use_initial_state=True",
        "alias differential runs use one seeded 6x7-scan, 21-pixel bright-field problem at 80 kV (VERIF_SEED fills the data)",
    )
    unknown = static_checks(ctx)
    if unknown:
        ctx.coverage["aliases_in_library_without_stated_convention"] = unknown

    # determinism self-test on one representative point of every part
    def once():
        a = surface_relations([[2, 3, 1234.5, 0.37], [4, 1, -1.0, -1.1]], _lams()[0])[0]
        b = alias_case({"entry": "fit_hyperparameters_cross_correlation", "alias": "defocus", "d": 123.0, "seed": ctx.seed})
        c = fit_case({"det": 1, "mask": "ring", "C10": -50.0, "C12": 10.0, "phi12": 0.7, "rot": 0.3})[2]
        return ([(n, f"{e:.3e}") for n, e, _ in a], b[2], c)

    ctx.selftest(once)

    # ---- A
    items = build_surface_items(ctx)
    ctx.say(f"part A: {len(items)} coefficient sets x ~20 relations on a 9x14 float64 grid")
    mA = ctx.pmap(eval_surface, items, label="surface")
    # ---- A2: label order
    lists, pairs = order_lists(ctx)
    lams = _lams()
    oitems = [{"family": "label_order", "name": nm, "labels": L, "lam": lam} for (nm, L), lam in itertools.product(lists, lams)]
    oitems += [{"family": "label_order", "name": nm, "labels": L, "lam": lams[0]} for nm, L in pairs]
    mO = ctx.pmap(eval_label_order, oitems, label="label order")
    have_lsq = entry_points()["fit_hyperparameters_least_squares"][1]
    if have_lsq:
        fo = [
            {"part": "fit_order", "name": nm, "basis_ascending": a, "basis_permuted": b, "fit_method": fm, "seed": ctx.seed + k}
            for (nm, a, b, fm), k in itertools.product(ORDER_FIT_VARIANTS, range(2 if ctx.quick else 6))
        ]
        mFO = ctx.pmap(eval_fit_order, fo, chunk=1, label="label order in the least-squares fit")
    else:
        ctx.seam_missing.append("fit_hyperparameters_least_squares (label order checked on the basis function only)")
        mFO = Tally()
    if mO.extra["label_lists_not_ascending"] < 200:
        raise Broken(f"label-order lattice degenerate: only {mO.extra['label_lists_not_ascending']} lists are not ascending in radial order")
    # ---- B
    eps = entry_points()
    aitems = build_alias_items(ctx, eps)
    ctx.say(f"part B: {len(aitems)} alias points over {sum(1 for v in eps.values() if v[1])} entry points")
    mB = ctx.pmap(eval_alias, aitems, chunk=2, label="alias")
    # ---- B0: an explicit zero of any numeric type is a value (only None is unset), alone and on top of a stored non-zero value
    zitems = build_falsy_items(ctx, eps)
    mZ = ctx.pmap(eval_falsy, zitems, chunk=4, label="explicit zeros")
    if mZ.extra["falsy_points_on_a_stored_nonzero_value"] < 1000:
        raise Broken(f"explicit-zero lattice degenerate: {mZ.extra['falsy_points_on_a_stored_nonzero_value']} of {mZ.extra['falsy_points']} points replace a stored non-zero value visibly")
    # ---- C
    dets = [0, 1]
    masks = FIT_MASKS
    fitems = [(d, mk, c10, c12) for d in dets for mk in masks for c10 in FIT_C10 for c12 in FIT_C12 if abs(c12) < abs(c10)]
    if ctx.quick:  # trimmed: every detector x mask still sees every (C10, C12); phi/rot loops are complete inside
        fitems = [it for i, it in enumerate(fitems) if it[0] == 0 or it[1] == "disc"]
    mC = ctx.pmap(eval_fit, fitems, chunk=1, label="fit")
    # ---- C2: content of the coefficient set handed to the fit (special axes, magnitude ratios, polar / Cartesian statement)
    geoms = [(d, mk) for d in dets for mk in masks if not ctx.quick or d == 0 or mk == "disc"]
    c10s = FITC_C10_Q if ctx.quick else FIT_C10
    citems = [(d, mk, c10, form, r) for (d, mk) in geoms for c10 in c10s for form in ("polar", "cartesian") for r in FITC_RATIOS]
    mC2 = ctx.pmap(eval_fit_content, citems, chunk=1, label="fit content")
    if mC2.extra["fit_content_points_one_component_zero"] < 1000 or len(mC2.outcomes) < 200:
        raise Broken(f"fit content lattice degenerate: {mC2.n} points, {mC2.extra['fit_content_points_one_component_zero']} with one Cartesian component exactly zero, {len(mC2.outcomes)} distinct fits")
    # ---- E: fit / search histories on one object (last fit == the same fit on a fresh object; recovery of the generating values)
    fdepth = 2 if ctx.quick else 3
    mFH = ctx.pmap(eval_fit_history, RH_EVENTS, chunk=1, label="fit histories on one object", depth=fdepth)
    if ctx.tally.nfails == 0 and mFH.n < 50:
        raise Broken(f"fit-history part degenerate: {mFH.n} histories")
    # ---- D: call histories (fresh modules per history, last call judged)
    fcalls, mcalls = hist_fit_calls(), hist_math_calls()
    for g, names in HIST_MASKS.items():  # the alphabet must really collide on the pixel count
        counts = {n: int(hist_mask(g, n).sum()) for n in names}
        pairs_equal = [(a, b) for a, b in itertools.combinations(names, 2) if counts[a] == counts[b] and not torch.equal(hist_mask(g, a), hist_mask(g, b))]
        if len(pairs_equal) < (3 if g == "g88" else 1):
            raise Broken(f"history alphabet does not collide: mask pixel counts {counts} on {g}")
    depth = 2 if ctx.quick else 3
    mH = ctx.pmap(eval_history, fcalls, chunk=1, label="fit call histories", depth=depth, family="fit")
    mH2 = ctx.pmap(eval_history, mcalls, chunk=1, label="surface/basis/gradient/conversion/merge call histories", depth=depth, family="math")
    if mH.extra["histories_colliding_on_coarse_key"] < 100:
        raise Broken(f"only {mH.extra['histories_colliding_on_coarse_key']} fit histories collide on (grid, sampling, mask pixel count)")
    pitems = [(rot, {"C10": c10, "C12": c12, "phi12": ph}) for rot in FIT_ROT for c10 in FIT_C10[:2] for c12 in FIT_C12[1:] for ph in FIT_PHI[1:3]]
    pitems += [(0.3, {"C10": -100.0, "C12": 30.0, "phi12": 0.3, "C21": 4000.0, "phi21": 0.5, "C30": 1e5, "C34": 2e5, "phi34": 0.2, "C56": 1e9, "phi56": -0.3})]
    probe_dp = make_dp(None, 0, crop=False)
    if getattr(probe_dp, "_return_lateral_shifts", None) is None:
        ctx.seam_missing.append("DirectPtychography._return_lateral_shifts (public composition only)")
        mP = Tally()
    else:
        mP = ctx.pmap(eval_private_shifts, pitems, label="private shifts")

    worst_bucket = min([int(k.split("1e-")[1]) for k in mA.extra if k.startswith("worst_dev_1e-")] + [99])
    ctx.coverage.update(
        exhaustive=True,
        alphabet={
            "terms": [f"C{n}{m}" for n, m in TERMS],
            "values": VALUES if not ctx.quick else {"singles_full": VALUES, "pairs": VALUES_Q},
            "angles": "{0, 0.37, -1.1, pi/m}" + (" (pairs: {0.37, pi/m})" if ctx.quick else "") + "; singles also with the angle key absent",
            "wavelengths_A": _lams(),
            "grid": "9 angles in [0, 0.03] rad x 14 azimuths in [-3.1, 3.1]",
            "call_history": {
                "fit_calls": f"{len(fcalls)} = masks {HIST_MASKS} x {len(HIST_COEFS)} coefficient sets x (rotation, wavelength) {HIST_ROT_LAM}",
                "other_calls": f"{len(mcalls)} = {HIST_KINDS} x coefficient sets / label lists x 2 same-shape grids x 2 wavelengths",
                "histories": "every single call, every ordered pair" + ("" if ctx.quick else ", every triple with the middle call from every 3rd alphabet member") + "; modules re-imported before each history",
            },
            "fit_histories": {"events": RH_EVENTS, "judged_as_last_event": RH_JUDGED, "problem": f"29 bright-field images {RH_SCAN} shifted by the shifts the public gradient functions predict for {RH_TRUE}, rotation {RH_ROT}", "histories": "every single judged fit and every ordered pair ending in one" + ("" if ctx.quick else ", every triple (middle event: every 2nd member)")},
            "label_order": [nm for nm, _ in lists] + ["every ordered pair of distinct labels (600)"] + [f"least-squares fit: {v[0]} ({v[3]})" for v in ORDER_FIT_VARIANTS],
            "aliases": {a: f"{v[0]} x {v[1]:+g}" for a, v in MY_ALIASES.items()},
            "alias_values_d": DVALS,
            "explicit_zeros": {
                "spellings": list(falsy_keys()),
                "zero_values": list(FALSY) + ["None (must mean unset)"],
                "operations": ["validate_aberration_coefficients (alone / in a full set)", "standardize_aberration_coefs (alone / in a full set)", "HyperparameterState: override over initial, optimized over initial, override over optimized, initial full set, optimized_keys", "reconstruct(override_aberration_coefs) on an object built with " + json.dumps(FALSY_DP_BASE) + f" (values {FALSY_DP}, kernels prlx and ssb)"],
                "stored_set": "all 25 symbols non-zero (seeded magnitudes per order " + json.dumps(FALSY_ORDER_C) + "), surfaces compared on the 9x14 grid with the reference series",
                "left_out": "bool (a flag is not a coefficient value); the probe_params setter replaces the whole set and fills absent symbols with zero, so a dropped zero is unobservable there",
            },
            "entry_points": [n for n, v in eps.items() if v[1]],
            "fit": {"C10": FIT_C10, "C12": FIT_C12, "phi12": FIT_PHI, "rotation": FIT_ROT, "detectors": [list(d[0]) for d in FIT_DETS], "masks": FIT_MASKS},
            "fit_content": {
                "C10": c10s,
                "ratio_C12_over_abs_C10": FITC_RATIOS,
                "phi12_polar_form": "k pi/8, k = -4..4; at ratio 0 also with the astigmatism keys absent",
                "unit_directions_cartesian_form": FITC_DIRS,
                "rotation": FITC_ROT,
                "detector_x_mask": [[list(FIT_DETS[d][0]), mk] for d, mk in geoms],
                "judged_on": f"C10, Cartesian components of the astigmatism relative to max(C12, {FITC_FLOOR:g} |C10|), reproduced gradient field (all {TOL_FIT:g}), rotation ({TOL_ROT:g} rad)",
                "outside_the_identifiable_domain_not_run": "C12 >= |C10| (ratios 1, 10; C10 = 0): the matrix is not definite and the polar decomposition cannot separate it from the rotation",
            },
        },
        bounds={"tolerance_float64": TOL64, "tolerance_alias": TOL_ALIAS, "tolerance_fit": TOL_FIT, "tolerance_rotation": TOL_ROT},
        sets_surface=int(mA.n),
        label_lists=int(mO.n),
        label_lists_not_ascending=int(mO.extra["label_lists_not_ascending"]),
        fit_order_points=int(mFO.n),
        alias_points=int(mB.n),
        explicit_zero_points=int(mZ.n),
        explicit_zero_points_replacing_a_stored_nonzero_value=int(mZ.extra["falsy_points_on_a_stored_nonzero_value"]),
        fit_points=int(mC.n),
        fit_content_points=int(mC2.n),
        fit_content_points_one_cartesian_component_exactly_zero=int(mC2.extra["fit_content_points_one_component_zero"]),
        fit_content_worst_deviation_below="1e-%d" % (min([int(k.split("1e-")[1]) for k in mC2.extra if k.startswith("fitc_worst_dev_1e-")] + [99]) - 1),
        fit_histories_on_one_object=int(mFH.n),
        fit_history_depth=fdepth,
        call_histories_fit=int(mH.n),
        call_histories_fit_colliding_on_coarse_key=int(mH.extra["histories_colliding_on_coarse_key"]),
        call_histories_other_functions=int(mH2.n),
        call_history_depth=depth,
        private_shift_points=int(mP.n),
        worst_float64_deviation_below=f"1e-{worst_bucket - 1}" if worst_bucket < 99 else "0",
    )
    # vacuity guards
    if len(mA.nontrivial) < 200 or len(mA.outcomes) < 100:
        raise Broken(f"surface lattice degenerate: {len(mA.nontrivial)} non-trivial sets, {len(mA.outcomes)} distinct surfaces")
    if mB.extra["alias_points_nontrivial"] < 0.8 * mB.extra["alias_points"]:
        raise Broken(f"alias lattice mostly vacuous: {mB.extra['alias_points_nontrivial']} of {mB.extra['alias_points']} points depend on the coefficient")
    if len(mC.outcomes) < 50:
        raise Broken(f"fit lattice degenerate: {len(mC.outcomes)} distinct fits for {mC.n} points")


def replay(ctx, case):
    warnings.simplefilter("ignore")
    part = case.get("part") or ("surface" if "family" in case else None)
    if part == "alias":
        fails, nontrivial, outcome = alias_case(case, verbose=True)
        for cls, msg in fails:
            ctx.fail(cls, case, msg)
    elif part == "falsy":
        fails, points = (falsy_dp_case if case["level"] == "dp" else falsy_dict_case)(case, verbose=True)
        for cls, msg in fails:
            ctx.fail(cls, case, msg)
    elif part == "fit":
        fails, errs, fit = fit_case(case, verbose=True)
        for cls, msg in fails:
            ctx.fail(cls, case, msg)
    elif part == "fit_content":
        for cls, msg in fit_content_case(case, verbose=True)[0]:
            ctx.fail(cls, case, msg)
    elif part == "private_shifts":
        t = eval_private_shifts((case["rot"], case["co"]))
        for f in t.fails:
            ctx.fail(f["cls"], case, f["msg"])
    elif part == "naming":
        static_checks(ctx)
    elif part == "history":
        hist = case["history"]
        try:
            ratio, detail = run_history(hist, verbose=True)
            if len(hist) > 1:
                run_history(hist[-1:], verbose=True)
        finally:
            _reload_modules()
        if not (ratio <= 1.0):
            rel_ = "call_alone_matches_oracle" if len(hist) == 1 else "result_independent_of_earlier_calls"
            ctx.fail({"part": "history", "relation": rel_, "last_call": hist[-1][0]}, case, f"after the calls {hist[:-1]} the call {hist[-1]} deviates from its oracle by {ratio:.3e} x tolerance ({detail})")
    elif part == "fit_history":
        for cls, msg in rh_history(case["history"], verbose=True):
            ctx.fail(cls, case, msg)
    elif part == "fit_order":
        fails, errs, ca = fit_order_case(case, verbose=True)
        for cls, msg in fails:
            ctx.fail(cls, case, msg)
    elif case.get("family") == "label_order":
        rels = order_relations(case["labels"], case["lam"])[0]
        print(f"  label list ({case['name']}): {case['labels']}  wavelength {case['lam']}")
        for name, err, detail in rels:
            print(f"    {name:45s} {detail:22s} relative deviation {err:.3e}  (tolerance {TOL64:g})")
        for f in eval_label_order(case).fails:
            ctx.fail(f["cls"], case, f["msg"])
    else:
        t = eval_surface(case)
        if case.get("family") == "merge":
            rels = merge_relations(case["init"], case["delta"], case["lam"])[0]
        else:
            rels = surface_relations(case["cs"], case["lam"])[0]
        print(f"  set: {describe(case)}  wavelength {case['lam']}")
        for name, err, detail in rels:
            print(f"    {name:62s} {detail:14s} relative deviation {err:.3e}  (tolerance {TOL64:g})")
        for f in t.fails:
            ctx.fail(f["cls"], case, f["msg"])
