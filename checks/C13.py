"""C13 — image registration returns the applied shift with a consistent sign convention.

Shape L (configuration lattice): implementation {NumPy, torch} x image shape x image x applied shift
x upsampling factor x (NumPy only) fft_input / return_shifted_image / fft_output / max_shift.
For the shapes up to 12x12 *every integer shift of the periodic cell* is enumerated (including shifts
beyond half the size); sub-pixel shifts run over a regular grid in [-1,1]^2 composed with integer
offsets. Ground truth is an exact Fourier translation of a Nyquist-free image, so the applied shift
is known exactly. Every point runs the real estimator.
"""
from __future__ import annotations

import itertools
import warnings

import numpy as np

from mc.harness import Broken, Tally

LEVEL = "exploration"
TECHNIQUE = "exhaustive configuration lattice: every integer shift of the periodic cell x every upsampling factor x both implementations x all option combinations, exact Fourier-shift ground truth"
CLAIM = (
    "For every point of the lattice (shapes incl. odd/even/non-square, all integer shifts of the cell for shapes <= 12x12, a regular "
    "sub-pixel grid composed with integer offsets, upsampling factors 1..64, NumPy and torch estimators, Fourier/real input and output, "
    "max_shift) the estimator returns the applied shift modulo the cell: exactly for integer shifts, within 1/upsample_factor (one pixel "
    "on the code paths that do not upsample) for sub-pixel shifts; shifting the second image by the result reproduces the first; the returned aligned image "
    "equals an independent Fourier translation; identical images give zero; swapping the images negates the result; inputs are neither modified nor aliased by the result; and on REUSED buffers (the same array/tensor objects refilled in place, every ordered pair/triple of cases) each call returns the shift of the current contents."
    " Further enumerated dimensions: legal spellings / dtypes / memory layouts judged against the canonical call, refills that do not bump the tensor version (from_numpy buffers, .data), image scale 1e-30..1e+30 (float64) and 1e-8..1e+8 (float32) judged by scale invariance at generic (tie-free, guarded) shifts, torch process-wide modes (default dtype float64, no_grad, inference_mode, thread count), and re-entrant calls from an argument's __array__."
    " Further dimensions: the peak on the rim of the max_shift window (radii 0.5 to 1.5 px beyond the applied shift, shifts along the axes, the diagonal and at half the size) and call histories on short-lived arguments whose addresses the allocator hands out again (observed reuse is counted and required)."
)
NOTE = (
    "Trusted: the exact Fourier-shift ground truth (Nyquist-free, band-limited images with a checked unique correlation peak) and the "
    "image alphabet (3 seeded band-limited images + a Gaussian blob per shape); shapes above 15x18 and factors above 64 are not explored."
)
RULE = (
    "Cartesian product implementation x shape x image x shift x upsample factor (x NumPy options). A case is non-trivial when the "
    "applied shift is non-zero modulo the cell; distinct = distinct (impl, shape, image, shift, factor, options) descriptors."
)

SHAPES_SMALL = [(8, 8), (9, 9), (8, 11), (11, 8)]
SHAPES_LARGE = [(12, 16), (15, 18)]
FACTORS = [1, 2, 3, 4, 5, 7, 8, 16, 32, 64]  # odd factors matter: ceil(1.5*up) != floor(1.5*up) only there
# exactness tolerances for integer shifts: float64 NumPy path observed <= 2e-12; torch returns float32 and adds a
# parabolic term computed in float32, observed <= 3e-6. Smallest mutant effect: 1/64 px.
EXACT_TOL = {"numpy": 1e-7, "torch": 2e-4}


def fshift(im, s):
    """Exact periodic translation of a Nyquist-free real image by s = (rows, cols)."""
    M, N = im.shape
    kx = np.fft.fftfreq(M)[:, None]
    ky = np.fft.fftfreq(N)[None, :]
    return np.real(np.fft.ifft2(np.fft.fft2(im) * np.exp(-2j * np.pi * (kx * s[0] + ky * s[1]))))


def make_image(shape, which, seed):
    """Band-limited (|k| <= min(shape)//4, no Nyquist content) image with a unique autocorrelation peak."""
    M, N = shape
    y, x = np.mgrid[:M, :N].astype(float)
    if which == "blob":
        cy, cx = 0.37 * M, 0.58 * N
        dy = (y - cy + M / 2) % M - M / 2
        dx = (x - cx + N / 2) % N - N / 2
        im = np.exp(-(dy**2 / (2 * (0.17 * M) ** 2) + dx**2 / (2 * (0.13 * N) ** 2)))
    else:
        K = max(1, min(M, N) // 4)
        for attempt in range(50):
            rng = np.random.default_rng([seed, 13, M, N, int(which), attempt])
            im = np.zeros(shape)
            for ky in range(-K, K + 1):
                for kx in range(0, K + 1):
                    if kx == 0 and ky <= 0:
                        continue
                    a = rng.normal() / (1 + ky * ky + kx * kx) ** 0.25
                    ph = rng.uniform(0, 2 * np.pi)
                    im += a * np.cos(2 * np.pi * (ky * y / M + kx * x / N) + ph)
            ac = np.real(np.fft.ifft2(np.abs(np.fft.fft2(im)) ** 2))
            peak = ac[0, 0]
            ac2 = ac.copy()
            for dy_, dx_ in itertools.product((-1, 0, 1), repeat=2):
                ac2[dy_ % M, dx_ % N] = -np.inf
            if ac2.max() <= 0.6 * peak:  # unique-peak margin checked at generation
                break
        else:
            raise Broken("could not generate an image with a unique correlation peak")
    # remove Nyquist rows/cols so that a Fourier shift is an exact real translation
    F = np.fft.fft2(im)
    if M % 2 == 0:
        F[M // 2, :] = 0
    if N % 2 == 0:
        F[:, N // 2] = 0
    return np.real(np.fft.ifft2(F))


def wrapdiff(est, s, shape):
    d = np.asarray(est, float) - np.asarray(s, float)
    n = np.asarray(shape, float)
    return (d + n / 2) % n - n / 2


class InputsModified(Exception):
    pass


def estimate(impl, im_ref, im, up, opts=None):
    """Run the real estimator. Returns (shifts ndarray, aligned or None)."""
    opts = opts or {}
    import torch

    from quantem.core.utils import imaging_utils as U

    if impl == "numpy":
        a, b = im_ref, im
        if opts.get("fft_input"):
            a, b = np.fft.fft2(im_ref), np.fft.fft2(im)
        a0, b0 = a.copy(), b.copy()
        kw = dict(upsample_factor=up, fft_input=bool(opts.get("fft_input")))
        if opts.get("max_shift") is not None:
            kw["max_shift"] = opts["max_shift"]
        if opts.get("ret"):
            kw["return_shifted_image"] = True
            kw["fft_output"] = bool(opts.get("fft_output"))
            sh, img = U.cross_correlation_shift(a, b, **kw)
            img = np.asarray(img)
            # the estimator is a function of its inputs: they must come back untouched and the result must not alias them
            if not (np.array_equal(a, a0) and np.array_equal(b, b0)) or np.shares_memory(img, a) or np.shares_memory(img, b):
                raise InputsModified(f"cross_correlation_shift(fft_input={kw['fft_input']}, return_shifted_image=True, fft_output={kw['fft_output']}) modified or aliased its input arrays")
            return np.asarray(sh, float), img
        out = np.asarray(U.cross_correlation_shift(a, b, **kw), float)
        if not (np.array_equal(a, a0) and np.array_equal(b, b0)):
            raise InputsModified(f"cross_correlation_shift(fft_input={kw['fft_input']}) modified its input arrays")
        return out, None
    ta, tb = torch.tensor(im_ref, dtype=torch.float64), torch.tensor(im, dtype=torch.float64)
    out = U.cross_correlation_shift_torch(ta, tb, upsample_factor=up)
    if not (np.array_equal(ta.numpy(), im_ref) and np.array_equal(tb.numpy(), im)):
        raise InputsModified("cross_correlation_shift_torch modified its input tensors")
    return out.detach().cpu().numpy().astype(float), None


def bound(impl, up, integer):
    if integer:
        return EXACT_TOL[impl]
    if up <= 1 or (impl == "torch" and up <= 2):
        # code paths that do not upsample (NumPy factor 1; torch factors 1 and 2 return the parabolic estimate rounded
        # to half pixels): the property only promises "the parabolic-refinement accuracy", which is not a number. The
        # sound bound is one pixel: the coarse peak is right and the refinement stays inside its neighbourhood.
        # Observed worst over seeds {0,1,2,7,12345}: NumPy 0.54 px, torch 0.625 px (coarse 8x8 images, |k| <= 2).
        return 1.0 + 1e-6
    # upsampled paths: one upsampled pixel. Observed worst error / bound over the same seeds: 0.54 (NumPy), 0.53 (torch).
    return 1.0 / up + 1e-6


def check_point(t, impl, shape, which, s, up, seed, opts=None, swap=True):
    im = make_image(shape, which, seed)
    s = (float(s[0]), float(s[1]))
    integer = float(s[0]).is_integer() and float(s[1]).is_integer()
    ref = fshift(im, s)
    case = {"impl": impl, "shape": list(shape), "image": which, "shift": list(s), "upsample": up, "opts": opts or {}}
    nontrivial = bool(np.any(np.abs(wrapdiff(s, (0, 0), shape)) > 0))
    try:
        est, aligned = estimate(impl, ref, im, up, opts)
    except InputsModified as e:
        t.case(key=case, nontrivial=nontrivial)
        t.fail({"relation": "inputs_not_modified", "impl": impl}, case, f"{impl} shape={shape} shift={s} upsample={up}: {e}")
        return
    err = wrapdiff(est, s, shape)
    e = float(np.max(np.abs(err)))
    b = bound(impl, up, integer)
    t.case(key=case, nontrivial=nontrivial, outcome=[round(float(v), 3) for v in est])
    cls = {"relation": "shift_recovered", "impl": impl, "kind": "integer" if integer else "subpixel", "upsampled": bool(up > 1)}
    t.stat(f"err_over_bound_{impl}_{'int' if integer else 'sub'}", e / b)
    if not np.all(np.isfinite(est)) or e > b:
        t.fail(cls, case, f"{impl} estimator shape={shape} image={which} applied shift={s} upsample={up} opts={opts}: returned {est.tolist()}, error {e:.4g} px > bound {b:.4g}")
    # translating the second image by the returned shift reproduces the first
    back = fshift(im, est)
    scale = float(np.abs(ref).max())
    # slope bound: |d im/d s| <= 2*pi*K/N * amplitude-sum; use a measured Lipschitz estimate instead of a formula
    lip = float(np.abs(fshift(im, (s[0] + 1e-3, s[1])) - ref).max() + np.abs(fshift(im, (s[0], s[1] + 1e-3)) - ref).max()) / 1e-3
    if float(np.abs(back - ref).max()) > lip * b * 1.5 + 1e-9 * scale:
        t.fail({"relation": "shifting_second_by_result_reproduces_first", "impl": impl}, case, f"{impl}: translating the second image by the returned shift {est.tolist()} does not reproduce the first (max diff {np.abs(back - ref).max():.3g})")
    if aligned is not None:
        want = back if not (opts or {}).get("fft_output") else np.fft.fft2(back)
        d = float(np.abs(aligned - want).max()) / max(float(np.abs(want).max()), 1e-30)
        t.stat("aligned_image_rel_err", d)
        if aligned.shape != want.shape or d > 1e-9:
            t.fail({"relation": "aligned_image_matches_reference", "impl": impl}, case, f"returned aligned image differs from the independent Fourier translation by {d:.3g} (opts={opts})")
        if integer and not (opts or {}).get("fft_output"):
            d2 = float(np.abs(aligned - ref).max()) / scale
            if d2 > 1e-6:
                t.fail({"relation": "aligned_image_equals_first_image", "impl": impl}, case, f"integer shift {s}: aligned image differs from the reference image by {d2:.3g}")
    if swap:
        try:
            est2, _ = estimate(impl, im, ref, up, opts if not (opts or {}).get("ret") else {k: v for k, v in opts.items() if k not in ("ret", "fft_output")})
        except InputsModified as e:
            t.fail({"relation": "inputs_not_modified", "impl": impl}, case, f"{impl} shape={shape} shift={s} upsample={up} (swapped call): {e}")
            return
        neg = wrapdiff(est2, (-est[0], -est[1]), shape)
        e2 = float(np.max(np.abs(neg)))
        b2 = b if integer else 2 * b
        if e2 > b2:
            t.fail({"relation": "swap_negates", "impl": impl, "kind": "integer" if integer else "subpixel"}, case, f"{impl}: est(a,b)={est.tolist()} but est(b,a)={est2.tolist()} (sum {e2:.4g} > {b2:.4g})")


def w_integer(item, seed=0):
    impl, shape, which, up = item
    t = Tally()
    M, N = shape
    if M * N <= 144:
        shifts = list(itertools.product(range(M), range(N)))  # every integer shift of the cell
    else:
        rs = sorted({0, 1, 2, M // 2 - 1, M // 2, M // 2 + 1, M - 2, M - 1})
        cs = sorted({0, 1, 2, N // 2 - 1, N // 2, N // 2 + 1, N - 2, N - 1})
        shifts = list(itertools.product(rs, cs))
    for s in shifts:
        check_point(t, impl, shape, which, s, up, seed)
    # identical images give zero for every factor
    im = make_image(shape, which, seed)
    est, _ = estimate(impl, im, im, up)
    t.case(key=["identical", impl, list(shape), which, up], nontrivial=True)
    if float(np.max(np.abs(est))) > EXACT_TOL[impl]:
        t.fail({"relation": "identical_images_zero_shift", "impl": impl, "upsampled": bool(up > 1)}, {"impl": impl, "shape": list(shape), "image": which, "shift": [0, 0], "upsample": up, "opts": {}}, f"{impl}: identical images, upsample={up}: returned {est.tolist()} instead of 0")
    t.sample({"impl": impl, "shape": list(shape), "image": which, "upsample": up, "integer_shifts": len(shifts)}, cap=2)
    return t


def w_subpixel(item, seed=0, step=0.25):
    impl, shape, which, up, off = item
    t = Tally()
    g = np.arange(-1.0, 1.0 + 1e-9, step)
    for a, b in itertools.product(g, g):
        if float(a).is_integer() and float(b).is_integer():
            continue
        check_point(t, impl, shape, which, (off[0] + a, off[1] + b), up, seed, swap=(abs(a) == 0.5 or abs(b) == 0.25))
    return t


def w_options(item, seed=0):
    shape, which, up, fft_input, ret, fft_output, ms = item
    t = Tally()
    M, N = shape
    shifts = [(0, 0), (1, 0), (0, -2), (2, 3), (-3, 1), (0.5, -0.25), (1.25, 2.5), (-2.75, 0.125)]
    for s in shifts:
        opts = {"fft_input": fft_input, "ret": ret, "fft_output": fft_output}
        if ms == "larger":
            opts["max_shift"] = float(np.hypot(*s) + 2.5)
        check_point(t, "numpy", shape, which, s, up, seed, opts=opts, swap=False)
    if ms == "rim":
        # the peak on the RIM of the max_shift window: radii just larger than the applied shift (a direct neighbour of the
        # correlation peak is then excluded), for shifts along the axes, the diagonal and beyond half the size
        rim_shifts = [(1, 0), (0, -2), (3, 0), (0, 3), (-3, 0), (2, 2), (-2, 3), (M // 2, 0), (0, -(N // 2)), (2.6, 0), (0, -1.75), (1.5, 1.5)]
        for s in rim_shifts:
            for extra in (0.5, 1.0, 1.000001, 1.5):
                opts = {"fft_input": fft_input, "ret": ret, "fft_output": fft_output, "max_shift": float(np.hypot(*wrapdiff(s, (0, 0), shape)) + extra)}
                check_point(t, "numpy", shape, which, s, up, seed, opts=opts, swap=False)
    return t


def w_spellings(item, seed=0):
    """Legal alternative spellings / dtypes / memory layouts of the same request must give the canonical answer
    (every member below is accepted by the unchanged tree): the estimator is a function of the VALUES it is given."""
    import torch

    from quantem.core.utils import imaging_utils as U

    shape, which, s, up = tuple(item[0]), item[1], tuple(item[2]), item[3]
    t = Tally()
    im = make_image(shape, which, seed)
    ref = fshift(im, s)
    ii = np.round((im - im.min()) * 40)  # integer-valued copy for the integer dtypes
    ri = np.roll(ii, (int(s[0]), int(s[1])), (0, 1))
    big_r, big_i = np.zeros((2 * shape[0], 2 * shape[1])), np.zeros((2 * shape[0], 2 * shape[1]))
    big_r[::2, ::2], big_i[::2, ::2] = ref, im
    ro_r, ro_i = ref.copy(), im.copy()
    ro_r.flags.writeable = ro_i.flags.writeable = False
    npf = U.cross_correlation_shift
    tf = U.cross_correlation_shift_torch
    variants = {
        "numpy float32": lambda: npf(ref.astype(np.float32), im.astype(np.float32), upsample_factor=up),
        "numpy int16": lambda: npf(ri.astype(np.int16), ii.astype(np.int16), upsample_factor=up),
        "numpy uint8": lambda: npf(ri.astype(np.uint8), ii.astype(np.uint8), upsample_factor=up),
        "numpy int64": lambda: npf(ri.astype(np.int64), ii.astype(np.int64), upsample_factor=up),
        "numpy Fortran order": lambda: npf(np.asfortranarray(ref), np.asfortranarray(im), upsample_factor=up),
        "numpy strided view": lambda: npf(big_r[::2, ::2], big_i[::2, ::2], upsample_factor=up),
        "numpy transposed views": lambda: npf(np.ascontiguousarray(ref.T).T, np.ascontiguousarray(im.T).T, upsample_factor=up),
        "numpy read-only": lambda: npf(ro_r, ro_i, upsample_factor=up, return_shifted_image=True)[0],
        "numpy nested lists": lambda: npf(ref.tolist(), im.tolist(), upsample_factor=up),
        "numpy upsample_factor=np.int64": lambda: npf(ref, im, upsample_factor=np.int64(up)),
        "numpy upsample_factor=float": lambda: npf(ref, im, upsample_factor=float(up)),
        "numpy positional args": lambda: npf(ref, im, up),
        "numpy max_shift=np.float32": lambda: npf(ref, im, upsample_factor=up, max_shift=np.float32(abs(s[0]) + abs(s[1]) + 3)),
        "numpy max_shift=int": lambda: npf(ref, im, upsample_factor=up, max_shift=int(abs(s[0]) + abs(s[1]) + 3)),
        "numpy fft_input complex64": lambda: npf(np.fft.fft2(ref).astype(np.complex64), np.fft.fft2(im).astype(np.complex64), upsample_factor=up, fft_input=True),
        "torch float32": lambda: tf(torch.tensor(ref, dtype=torch.float32), torch.tensor(im, dtype=torch.float32), upsample_factor=up),
        "torch int64": lambda: tf(torch.tensor(ri.astype(np.int64)), torch.tensor(ii.astype(np.int64)), upsample_factor=up),
        "torch non-contiguous": lambda: tf(torch.tensor(big_r)[::2, ::2], torch.tensor(big_i)[::2, ::2], upsample_factor=up),
        "torch transposed": lambda: tf(torch.tensor(np.ascontiguousarray(ref.T)).t(), torch.tensor(np.ascontiguousarray(im.T)).t(), upsample_factor=up),
        "torch requires_grad": lambda: tf(torch.tensor(ref, requires_grad=True), torch.tensor(im), upsample_factor=up).detach(),
        "torch upsample_factor=np.int64": lambda: tf(torch.tensor(ref), torch.tensor(im), upsample_factor=np.int64(up)),
        "torch positional args": lambda: tf(torch.tensor(ref), torch.tensor(im), up),
    }
    for name, fn in variants.items():
        case = {"part": "spelling", "shape": list(shape), "image": which, "shift": list(s), "upsample": up, "variant": name}
        t.case(key=case, nontrivial=True)
        try:
            out = fn()
            est = np.asarray(out.detach().cpu().numpy() if hasattr(out, "detach") else out, dtype=float)
        except Exception as ex:
            t.fail({"relation": "legal_spelling_accepted", "variant": name}, case, f"{name}: raised {type(ex).__name__}: {str(ex)[:150]} (the unchanged tree accepts this spelling)")
            continue
        e = float(np.max(np.abs(wrapdiff(est, s, shape)))) if est.shape == (2,) else np.inf
        if not np.all(np.isfinite(est)) or e > 2e-4:  # integer shifts: float32 paths reach 3e-6
            t.fail({"relation": "legal_spelling_gives_canonical_result", "variant": name.split()[0] + ":" + " ".join(name.split()[1:])}, case, f"{name}: shape={shape} applied integer shift {list(s)} upsample={up}: returned {est.tolist()} (error {e:.4g} px)")
    return t


SCALES = {"float64": [1e-30, 1e-12, 1e-8, 1e8, 1e30], "float32": [1e-8, 1e-4, 1e4, 1e8]}
MODES = ["default_dtype_float64", "no_grad", "inference_mode", "num_threads_1", "num_threads_4"]


def w_scale_modes(item, seed=0):
    """The estimator is a function of the image CONTENT: (a) multiplying both images by a constant (values of order
    1e-30 .. 1e+30 in float64, 1e-8 .. 1e+8 in float32) must not change the returned shift — sub-pixel refinement
    included, since an absolute epsilon or threshold anywhere breaks exactly this; (b) process-wide modes of the host
    library (torch default dtype float64, no_grad / inference_mode, thread count) must not change it either. Judged
    differentially against the same call at scale 1 in the default mode, for every implementation, every factor and
    sub-pixel as well as integer shifts."""
    import torch

    from quantem.core.utils import imaging_utils as U

    shape, which, s, up = tuple(item[0]), item[1], tuple(item[2]), item[3]
    t = Tally()
    im = make_image(shape, which, seed)
    ref = fshift(im, s)

    def call(impl, dt, scale=1.0, ret=False):
        a, b = (ref * scale).astype(dt), (im * scale).astype(dt)
        if impl == "numpy":
            if ret:
                sh, img = U.cross_correlation_shift(a, b, upsample_factor=up, return_shifted_image=True)
                return np.asarray(sh, float), np.asarray(img, float) / scale
            return np.asarray(U.cross_correlation_shift(a, b, upsample_factor=up), float), None
        if impl == "torch_align":
            # the lower-level entry point: takes the Fourier transforms, returns the shift (modulo the cell)
            out = U.align_images_fourier_torch(torch.fft.fft2(torch.tensor(a)), torch.fft.fft2(torch.tensor(b)), upsample_factor=up)
            return out.detach().cpu().numpy().astype(float), None
        out = U.cross_correlation_shift_torch(torch.tensor(a), torch.tensor(b), upsample_factor=up)
        return out.detach().cpu().numpy().astype(float), None

    for impl in ("numpy", "torch", "torch_align"):
        for dt in ("float64", "float32"):
            tol = 1e-6 if dt == "float64" else 2e-3  # observed on the unchanged tree: 0 / <= 1e-4 px (float32 round-off of the scaled data)
            itol = 1e-6 if dt == "float64" else 2e-3
            try:
                base = call(impl, dt, ret=(impl == "numpy"))
            except Exception as ex:
                t.fail({"relation": "canonical_call_accepted", "impl": impl, "dtype": dt}, {"part": "scale", "shape": list(shape), "image": which, "shift": list(s), "upsample": up}, f"{impl} {dt}: raised {type(ex).__name__}: {str(ex)[:150]}")
                continue
            iscale = max(float(np.abs(base[1]).max()), 1e-30) if base[1] is not None else 1.0
            for scale in SCALES[dt]:
                case = {"part": "scale", "shape": list(shape), "image": which, "shift": list(s), "upsample": up, "impl": impl, "dtype": dt, "scale": scale}
                t.case(key=case, nontrivial=True)
                try:
                    got = call(impl, dt, scale, ret=(impl == "numpy"))
                except Exception as ex:
                    t.fail({"relation": "result_independent_of_image_scale", "impl": impl, "dtype": dt, "symptom": "raises"}, case, f"{impl} {dt} images x {scale:g}: raised {type(ex).__name__}: {str(ex)[:150]}")
                    continue
                e = float(np.max(np.abs(wrapdiff(got[0], base[0], shape)))) if got[0] is not None else 0.0
                ei = float(np.abs(got[1] - base[1]).max()) / iscale if got[1] is not None else 0.0
                t.stat(f"scale_shift_diff_{dt}", e)
                t.stat(f"scale_image_diff_{dt}", ei)
                if not (e <= tol and ei <= itol):
                    t.fail({"relation": "result_independent_of_image_scale", "impl": impl, "dtype": dt, "upsampled": up > 1, "small": scale < 1}, case, f"{impl} {dt}: shape={shape} shift={list(s)} upsample={up}: images x {scale:g} give shift {None if got[0] is None else got[0].tolist()} vs {None if base[0] is None else base[0].tolist()} at scale 1 (diff {e:.3g} px), aligned image differs by {ei:.3g} of max")
            if impl == "numpy":
                continue
            for mode in MODES:
                case = {"part": "mode", "shape": list(shape), "image": which, "shift": list(s), "upsample": up, "impl": impl, "dtype": dt, "mode": mode}
                t.case(key=case, nontrivial=True)
                old_dt, old_thr = torch.get_default_dtype(), torch.get_num_threads()
                try:
                    if mode == "default_dtype_float64":
                        torch.set_default_dtype(torch.float64)
                        got = call(impl, dt)
                    elif mode == "no_grad":
                        with torch.no_grad():
                            got = call(impl, dt)
                    elif mode == "inference_mode":
                        with torch.inference_mode():
                            got = call(impl, dt)
                    else:
                        torch.set_num_threads(int(mode.rsplit("_", 1)[1]))
                        got = call(impl, dt)
                except Exception as ex:
                    t.fail({"relation": "result_independent_of_global_mode", "impl": impl, "dtype": dt, "mode": mode, "symptom": "raises"}, case, f"{impl} {dt} under {mode}: raised {type(ex).__name__}: {str(ex)[:150]} (shape={shape} shift={list(s)} upsample={up})")
                    continue
                finally:
                    torch.set_default_dtype(old_dt)
                    torch.set_num_threads(old_thr)
                e = float(np.max(np.abs(wrapdiff(got[0], base[0], shape)))) if got[0] is not None else 0.0
                ei = float(np.abs(got[1] - base[1]).max()) / iscale if got[1] is not None else 0.0
                t.stat(f"mode_shift_diff_{dt}", e)
                # some internal coordinate tensors are created in torch's DEFAULT dtype, so float64 images are partly
                # processed in float32 in the default mode and fully in float64 under default_dtype_float64 (observed
                # 1e-6 px): every mode comparison uses the float32 tolerance
                mtol = 2e-3
                if not (e <= mtol and ei <= mtol):
                    t.fail({"relation": "result_independent_of_global_mode", "impl": impl, "dtype": dt, "mode": mode}, case, f"{impl} {dt} under {mode}: shape={shape} shift={list(s)} upsample={up}: shift {None if got[0] is None else got[0].tolist()} vs {None if base[0] is None else base[0].tolist()} in the default mode (diff {e:.3g} px), aligned image differs by {ei:.3g} of max")
    return t


REUSE_CASES = [("0", (0, 0)), ("0", (3, -5)), ("blob", (-2, 1)), ("1", (1, 4)), ("0", (0, 2))]


def w_buffer_reuse(item, seed=0, depth=2):
    """Call HISTORIES on reused buffers: the same array / tensor OBJECTS are refilled in place between calls (a running
    reference, a preallocated frame buffer). Every call must return the shift of the CURRENT contents — the estimator
    is a function of the values it is given, not of the identity of the objects holding them."""
    import torch

    from quantem.core.utils import imaging_utils as U

    impl, shape, up, first = item
    shape = tuple(shape)
    t = Tally()
    tails = [[b] for b in range(len(REUSE_CASES))] if depth == 2 else [[b, c] for b in range(len(REUSE_CASES)) for c in range(len(REUSE_CASES))]
    for tail in tails:
        hist = [first] + tail
        if impl.startswith("torch"):
            ref_np, im_np = np.zeros(shape), np.zeros(shape)
            if impl == "torch:from_numpy":  # tensors that share memory with NumPy buffers: refilling the buffer
                ref_buf, im_buf = torch.from_numpy(ref_np), torch.from_numpy(im_np)  # does not bump the tensor version
            else:
                ref_buf = torch.zeros(shape, dtype=torch.float64)
                im_buf = torch.zeros(shape, dtype=torch.float64)
        else:
            ref_buf = np.zeros(shape)
            im_buf = np.zeros(shape)
        est = None
        seen_ptrs = set()
        for step, ci in enumerate(hist):
            which, s = REUSE_CASES[ci]
            im = make_image(shape, which, seed)
            ref = fshift(im, s)
            if impl.endswith(":fresh"):
                # OBJECT IDENTITY reuse: short-lived arguments. The previous call's arrays / tensors are released before the
                # next ones are allocated, so the allocator hands out the same addresses (and CPython the same id()) again
                # for new contents; observed reuse is counted and required (see run()).
                ref_buf = im_buf = None
                if impl == "torch:fresh":
                    ref_buf = torch.tensor(ref)
                    im_buf = torch.tensor(im)
                    ptr = (ref_buf.data_ptr(), im_buf.data_ptr())
                    est = U.cross_correlation_shift_torch(ref_buf, im_buf, upsample_factor=up).detach().cpu().numpy().astype(float)
                else:
                    ref_buf = np.array(ref)
                    im_buf = np.array(im)
                    ptr = (ref_buf.ctypes.data, im_buf.ctypes.data)
                    est = np.asarray(U.cross_correlation_shift(ref_buf, im_buf, upsample_factor=up), float)
                t.extra["address_reused"] += int(bool(set(ptr) & seen_ptrs))
                seen_ptrs |= set(ptr)
                continue
            if impl.startswith("torch"):
                if impl == "torch:from_numpy":
                    np.copyto(ref_np, ref)
                    np.copyto(im_np, im)
                elif impl == "torch:data":  # same tensor objects, new storage assigned through .data (no version bump)
                    ref_buf.data = torch.tensor(ref)
                    im_buf.data = torch.tensor(im)
                else:
                    ref_buf.copy_(torch.tensor(ref))
                    im_buf.copy_(torch.tensor(im))
                est = U.cross_correlation_shift_torch(ref_buf, im_buf, upsample_factor=up).detach().cpu().numpy().astype(float)
            else:
                np.copyto(ref_buf, ref)
                np.copyto(im_buf, im)
                est = np.asarray(U.cross_correlation_shift(ref_buf, im_buf, upsample_factor=up), float)
        which, s = REUSE_CASES[hist[-1]]
        case = {"part": "buffer_reuse", "impl": impl, "shape": list(shape), "upsample": up, "history": [[REUSE_CASES[c][0], list(REUSE_CASES[c][1])] for c in hist]}
        e = float(np.max(np.abs(wrapdiff(est, s, shape))))
        t.case(key=case, nontrivial=len(set(hist)) > 1, outcome=[round(float(v), 3) for v in est])
        if not np.all(np.isfinite(est)) or e > EXACT_TOL[impl.split(":")[0]]:
            t.fail({"relation": "result_depends_only_on_current_contents", "impl": impl}, case, f"{impl}: buffers refilled in place, history {case['history']}: the last call returned {est.tolist()}, applied shift {list(s)} (error {e:.4g} px)")
    return t


def w_reentrant(item, seed=0):
    """RE-ENTRANT use: an argument is a lazy array-like whose __array__ (NumPy estimator) calls the estimator again — on
    images of the same shape, of another shape — before it hands over its pixels; the argument may be the reference or
    the moving image. Outer and inner results must be the results of the same two calls made one after the other."""
    from quantem.core.utils import imaging_utils as U

    shape, up = tuple(item[0]), int(item[1])
    t = Tally()
    im = make_image(shape, "0", seed)
    s = (3, -2)
    ref = fshift(im, s)
    for inner_shape in (shape, (shape[0] + 1, shape[1])):
        im2 = make_image(inner_shape, "blob", seed)
        s2 = (-1, 2)
        ref2 = fshift(im2, s2)
        for lazy_arg in ("im", "im_ref"):
            box = {}

            class Lazy:
                def __init__(self, arr):
                    self.arr = arr
                    self.shape, self.dtype, self.ndim = arr.shape, arr.dtype, arr.ndim

                def __array__(self, dtype=None, copy=None):
                    if "inner" not in box:
                        box["inner"] = np.asarray(U.cross_correlation_shift(ref2.copy(), im2.copy(), upsample_factor=up), float)
                    return self.arr if dtype is None else self.arr.astype(dtype)

            case = {"part": "reentrant", "shape": list(shape), "upsample": up, "inner_shape": list(inner_shape), "lazy_argument": lazy_arg}
            try:
                a, b = (Lazy(ref.copy()), im.copy()) if lazy_arg == "im_ref" else (ref.copy(), Lazy(im.copy()))
                est = np.asarray(U.cross_correlation_shift(a, b, upsample_factor=up), float)
            except Exception as ex:  # noqa: BLE001 - an array-like the tree under test does not take: counted
                t.extra[f"lazy_array_like_rejected:{type(ex).__name__}"] += 1
                continue
            t.case(key=case, nontrivial=True, outcome=[round(float(v), 3) for v in est])
            e = float(np.max(np.abs(wrapdiff(est, s, shape)))) if est.shape == (2,) else np.inf
            ei = float(np.max(np.abs(wrapdiff(box["inner"], s2, inner_shape)))) if "inner" in box else 0.0
            if e > EXACT_TOL["numpy"] or ei > EXACT_TOL["numpy"]:
                t.fail({"relation": "reentrant_call_does_not_disturb_the_running_call", "same_shape": tuple(inner_shape) == shape, "lazy_argument": lazy_arg}, case, f"numpy estimator, shape={shape} upsample={up}: a nested call (shape {inner_shape}) made from {lazy_arg}.__array__: outer call returned {est.tolist()} for applied {list(s)} (error {e:.3g} px), inner error {ei:.3g} px")
    return t


def run(ctx):
    q = ctx.quick
    ctx.assume(
        "ground truth = exact Fourier translation of Nyquist-free band-limited images whose autocorrelation side lobes are <= 0.6 of the peak (checked at generation)",
        "results are compared modulo the periodic cell (a shift of exactly half an even axis has two equivalent representations)",
        "paths that do not upsample (NumPy factor 1; torch factors 1 and 2, which return the parabolic estimate rounded to half pixels) are only required to be within one pixel: the property gives no number for the parabolic-refinement accuracy",
        "max_shift is only exercised with a radius larger than the applied shift (by 0.5 ... 2.5 px: the peak may lie on the rim of the window), as the quantifier states",
    )

    def once():
        # harness-owned determinism only (image builder, independent Fourier translation): the estimators themselves are
        # the behaviour under test, and an estimator that answers differently on a second identical call must surface as
        # a VIOLATION of the histories below, not as a broken harness
        im = make_image((8, 11), "0", ctx.seed)
        ref = fshift(im, (2.25, -1.5))
        return (im.tobytes(), ref.tobytes(), make_image((9, 9), "1", ctx.seed).tobytes(), wrapdiff((7.5, -6.0), (0, 0), (9, 9)).tobytes())

    ctx.selftest(once)
    images = ["0", "blob"] if q else ["0", "1", "2", "blob"]
    factors = [1, 2, 3, 4, 8, 64] if q else FACTORS
    shapes = SHAPES_SMALL + (SHAPES_LARGE[:1] if q else SHAPES_LARGE)
    impls = ["numpy", "torch"]
    ctx.coverage["bounds"] = {"shapes": [list(s) for s in shapes], "images": images, "factors": factors, "implementations": impls}
    ctx.pmap(w_integer, list(itertools.product(impls, shapes, images, factors)), chunk=1, label="integer shifts (whole cell)", seed=ctx.seed)
    step = 0.25 if q else 0.125
    offs = [(0, 0), (2, -3)] if q else [(0, 0), (2, -3), (-4, 4)]
    sub_shapes = [(8, 8), (9, 9), (8, 11)] if q else shapes
    sub_images = ["0"] if q else ["0", "1", "blob"]
    ctx.coverage["bounds"]["subpixel_step"] = step
    ctx.coverage["bounds"]["subpixel_offsets"] = [list(o) for o in offs]
    ctx.pmap(w_subpixel, list(itertools.product(impls, sub_shapes, sub_images, factors, offs)), chunk=1, label="sub-pixel grid", seed=ctx.seed, step=step)
    opt_items = list(itertools.product([(8, 11), (9, 9)] if q else shapes, ["0"] if q else ["0", "blob"], [1, 3, 16] if q else FACTORS, [False, True], [False, True], [False, True], ["none", "larger", "rim"]))
    opt_items = [o for o in opt_items if o[4] or not o[5]]  # fft_output only matters with return_shifted_image
    ctx.pmap(w_options, opt_items, label="NumPy options", seed=ctx.seed)
    sp = [((8, 11), "0", (2, -3), 4), ((9, 9), "blob", (-1, 4), 3)] if q else [(sh, w, sft, u) for sh in [(8, 11), (9, 9), (8, 8)] for w in ("0", "blob") for sft in ((2, -3), (0, 0), (-1, 4)) for u in (1, 3, 8)]
    ctx.pmap(w_spellings, sp, chunk=1, label="alternative spellings / dtypes / layouts", seed=ctx.seed)
    # Shifts for the differential comparison must not sit on a decision boundary of the estimator: at a component exactly
    # midway between two points of the (upsampled) correlation grid — 0.5 at factor 1, 0.3 at factor 5, ... — two
    # correlation values tie by symmetry and round-off decides, legitimately differently at another scale (first
    # thorough runs: 62 + 31 false alarms, all at such midpoints). Generic components, guarded below.
    sm_shifts = [(3.3251, -2.4009), (2.0, -3.0)] if q else [(3.3251, -2.4009), (2.0, -3.0), (0.0, 0.0), (-1.6749, 4.6676), (0.3251, 0.6676)]
    sm_factors = [1, 2, 3, 8] if q else [1, 2, 3, 4, 5, 8, 16]
    for sft in sm_shifts:
        for c in sft:
            for u in sm_factors:
                if abs((c * u) % 1.0 - 0.5) < 0.04:
                    raise Broken(f"shift component {c} is within 0.04 upsampled pixels of a grid midpoint at factor {u}: the scale comparison would be a coin toss")
    sm = [(sh, w, sft, u) for sh in ([(8, 11)] if q else [(8, 11), (9, 9), (12, 16)]) for w in (["0"] if q else ["0", "blob"]) for sft in sm_shifts for u in sm_factors]
    ctx.coverage["bounds"]["scale_modes"] = {"scales": SCALES, "modes": MODES, "points": len(sm)}
    ctx.pmap(w_scale_modes, sm, chunk=1, label="image scale / process-wide modes", seed=ctx.seed)
    ctx.pmap(w_reentrant, [((8, 11), 1), ((8, 11), 4)] if q else [(sh, u) for sh in [(8, 11), (9, 9)] for u in (1, 3, 8)], chunk=1, label="re-entrant calls", seed=ctx.seed)
    reuse = list(itertools.product(list(impls) + ["torch:from_numpy", "torch:data", "torch:fresh", "numpy:fresh"], [(8, 11)] if q else [(8, 11), (9, 9)], [1, 4] if q else [1, 3, 8], range(len(REUSE_CASES))))
    ctx.coverage["bounds"]["buffer_reuse"] = {"cases": [[w, list(sh)] for w, sh in REUSE_CASES], "depth": 2 if q else 3}
    mr = ctx.pmap(w_buffer_reuse, reuse, chunk=1, label="reused buffers / short-lived arguments (call histories)", seed=ctx.seed, depth=2 if q else 3)
    ctx.coverage["address_reuse_observed"] = int(mr.extra["address_reused"])
    if mr.extra["address_reused"] == 0:
        raise Broken("no address was handed out twice in the short-lived-argument histories: the identity-reuse dimension is vacuous")
    if len(ctx.tally.outcomes) < 50:
        raise Broken("too few distinct outcomes: shifts did not vary")


def replay(ctx, case):
    t = Tally()
    if case.get("part") == "spelling":
        r = w_spellings((case["shape"], case["image"], case["shift"], case["upsample"]), seed=ctx.seed)
        for f in r.fails:
            if f["case"]["variant"] == case["variant"]:
                print("  ", f["msg"])
                ctx.fail(f["cls"], f["case"], f["msg"])
        return
    if case.get("part") in ("scale", "mode"):
        r = w_scale_modes((case["shape"], case["image"], case["shift"], case["upsample"]), seed=ctx.seed)
        for f in r.fails:
            if all(f["case"].get(k) == case.get(k) for k in ("impl", "dtype", "scale", "mode")):
                print("  ", f["msg"])
                ctx.fail(f["cls"], f["case"], f["msg"])
        return
    if case.get("part") == "reentrant":
        r = w_reentrant((case["shape"], case["upsample"]), seed=ctx.seed)
        for f in r.fails:
            if f["case"]["inner_shape"] == case["inner_shape"] and f["case"]["lazy_argument"] == case["lazy_argument"]:
                print("  ", f["msg"])
                ctx.fail(f["cls"], f["case"], f["msg"])
        return
    if case.get("part") == "buffer_reuse":
        idx = [[i for i, (w, sh) in enumerate(REUSE_CASES) if w == c[0] and list(sh) == list(c[1])][0] for c in case["history"]]
        r = w_buffer_reuse((case["impl"], case["shape"], case["upsample"], idx[0]), seed=ctx.seed, depth=len(idx))
        for f in r.fails:
            if f["case"]["history"] == case["history"]:
                print("  ", f["msg"])
                ctx.fail(f["cls"], f["case"], f["msg"])
        return
    check_point(t, case["impl"], tuple(case["shape"]), case["image"], tuple(case["shift"]), case["upsample"], ctx.seed, opts=case.get("opts") or None)
    im = make_image(tuple(case["shape"]), case["image"], ctx.seed)
    est, _ = estimate(case["impl"], fshift(im, case["shift"]), im, case["upsample"], case.get("opts") or None)
    print(f"  applied {case['shift']}  returned {est.tolist()}  (modulo cell {case['shape']})")
    for f in t.fails:
        ctx.fail(f["cls"], f["case"], f["msg"])
