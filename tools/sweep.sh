#!/bin/bash
# tools/sweep.sh <tier> <seed> [<seed> ...] : every registered check for every seed, without touching the evidence
tier=$1; shift
cd "$(dirname "$0")/.."
for s in "$@"; do VERIF_SEED=$s tools/run_all.sh $tier --no-evidence; done
