import numpy as np, warnings, time, itertools, hashlib, copy
warnings.simplefilter("ignore")
from quantem.core.datastructures import Dataset, Dataset2d, Dataset3d, Dataset4d
from quantem.core.datastructures.dataset4dstem import Dataset4dstem
REG={2:Dataset2d,3:Dataset3d,4:Dataset4d}
class Mod:  # reference model
    def __init__(s,a,o,sm,u,cls): s.a=a; s.o=np.asarray(o,float).copy(); s.s=np.asarray(sm,float).copy(); s.u=list(u); s.cls=cls
    def copy(s): return Mod(s.a.copy(),s.o,s.s,s.u,s.cls)
def canon(d):
    h=hashlib.blake2b(digest_size=12); a=np.ascontiguousarray(d.array)
    for x in (type(d).__name__,str(a.dtype),str(a.shape)): h.update(x.encode())
    h.update(a.tobytes()); h.update(np.asarray(d.origin,float).tobytes()); h.update(np.asarray(d.sampling,float).tobytes()); h.update("|".join(d.units).encode()); return h.digest()
def eq(d,m):
    if type(d) is not m.cls: return f"class {type(d).__name__} != {m.cls.__name__}"
    if d.array.shape!=m.a.shape: return f"shape {d.array.shape} vs {m.a.shape}"
    if not np.allclose(d.array,m.a,atol=1e-5,equal_nan=True): return "array values"
    if len(d.origin)!=d.ndim or len(d.sampling)!=d.ndim or len(d.units)!=d.ndim: return "calibration length"
    if not np.allclose(np.asarray(d.origin,float),m.o): return f"origin {d.origin} vs {m.o}"
    if not np.allclose(np.asarray(d.sampling,float),m.s): return f"sampling {d.sampling} vs {m.s}"
    if list(d.units)!=m.u: return "units"
    return None
def dft_resample(a,axes,out):
    a=a.astype(complex) if not np.iscomplexobj(a) else a.copy()
    real_in=True
    for ax,no in zip(axes,out):
        n=a.shape[ax]; F=np.fft.fftshift(np.fft.fft(a,axis=ax),axes=ax)
        oc=n//2 if n%2==0 else (n-1)//2; nc=no//2 if no%2==0 else (no-1)//2
        idx=np.arange(no)-nc+oc; valid=(idx>=0)&(idx<n)
        G=np.zeros(F.shape[:ax]+(no,)+F.shape[ax+1:],complex)
        sl=[slice(None)]*a.ndim; sl2=[slice(None)]*a.ndim; sl[ax]=np.where(valid)[0]; sl2[ax]=idx[valid]
        G[tuple(sl)]=F[tuple(sl2)]
        a=np.fft.ifft(np.fft.ifftshift(G,axes=ax),axis=ax)*no/n
    return a
def index_alphabet(nd):
    per=[0,-1,slice(None),slice(1,None),slice(None,None,2),slice(None,None,-1),[0,1],Ellipsis]
    out=[]
    for L in range(1,nd+1):
        for tup in itertools.product(per,repeat=L):
            if sum(t is Ellipsis for t in tup)>1 or sum(isinstance(t,list) for t in tup)>1: continue
            if sum(isinstance(t,int) for t in tup)>=nd: continue
            out.append(tup if L>1 else tup[0])
    return out
def model_getitem(m,ix):
    a=m.a[ix if not isinstance(ix,list) else ix]
    t=ix if isinstance(ix,tuple) else (ix,)
    if any(x is Ellipsis for x in t):
        p=[i for i,x in enumerate(t) if x is Ellipsis][0]; t=t[:p]+(slice(None),)*(m.a.ndim-(len(t)-1))+t[p+1:]
    t=t+(slice(None),)*(m.a.ndim-len(t))
    kept=[i for i,x in enumerate(t) if not isinstance(x,(int,np.integer))]
    o=m.o[kept]; s=m.s[kept].copy(); u=[m.u[i] for i in kept]
    for j,i in enumerate(kept):
        if isinstance(t[i],slice) and t[i].step not in (None,1): s[j]*=t[i].step
    cls=m.cls if a.ndim==m.a.ndim else REG.get(a.ndim,Dataset)
    return Mod(a,o,s,u,cls)
def ops(nd,shape):
    O=[("copy",lambda d:d.copy(),lambda m:m.copy(),False)]
    for ip in (False,True):
        def mk(name,fi,fm,ip=ip): O.append((f"{name} ip={ip}",(lambda d,fi=fi,ip=ip:fi(d,ip)),fm,ip))
        mk("pad1",lambda d,ip:d.pad(pad_width=1,modify_in_place=ip),lambda m:Mod(np.pad(m.a,1),m.o,m.s,m.u,m.cls))
        mk("padout",lambda d,ip:d.pad(output_shape=tuple(s+1+i for i,s in enumerate(d.shape)),modify_in_place=ip),lambda m:Mod(np.pad(m.a,[((1+i)//2,(1+i)-(1+i)//2) for i in range(m.a.ndim)]),m.o,m.s,m.u,m.cls))
        mk("crop ax0",lambda d,ip:d.crop(((1,0),),axes=(0,),modify_in_place=ip),lambda m:Mod(m.a[1:],m.o,m.s,m.u,m.cls))
        def mbin(m,f=2,axes=None,mean=False):
            axes=range(m.a.ndim) if axes is None else axes; a=m.a; o=m.o.copy(); s=m.s.copy()
            for ax in axes:
                L=(a.shape[ax]//f)*f; a=np.take(a,range(L),axis=ax); sh=list(a.shape); sh[ax:ax+1]=[L//f,f]; a=a.reshape(sh).sum(axis=ax+1); o[ax]+=0.5*(f-1)*s[ax]; s[ax]*=f
            if mean: a=a/(f**len(list(axes)))
            return Mod(a,o,s,m.u,m.cls)
        mk("bin2",lambda d,ip:d.bin(2,modify_in_place=ip),mbin)
        mk("bin2 last mean",lambda d,ip:d.bin(2,axes=(d.ndim-1,),reducer="mean",modify_in_place=ip),lambda m:mbin(m,2,[m.a.ndim-1],True))
        def mfr(m,out,axes):
            a=dft_resample(m.a,axes,out); a=a if np.iscomplexobj(m.a) else a.real
            o=m.o.copy(); s=m.s.copy()
            for ax,no in zip(axes,out):
                n=m.a.shape[ax]; s[ax]=m.s[ax]*n/no; o[ax]=m.o[ax]+(n-1)/2*m.s[ax]-(no-1)/2*s[ax]
            return Mod(a,o,s,m.u,m.cls)
        mk("fr+1",lambda d,ip:d.fourier_resample(out_shape=tuple(s+1 for s in d.shape),modify_in_place=ip),lambda m:mfr(m,[s+1 for s in m.a.shape],list(range(m.a.ndim))))
        mk("fr x2 ax0",lambda d,ip:d.fourier_resample(factors=2,axes=(0,),modify_in_place=ip),lambda m:mfr(m,[max(1,int(round(m.a.shape[0]*2)))],[0]))
    O.append(("set origin 2.0",lambda d:setattr(d,"origin",2.0),lambda m:Mod(m.a,np.full(m.a.ndim,2.0),m.s,m.u,m.cls),True))
    O.append(("set units str",lambda d:setattr(d,"units","nm"),lambda m:Mod(m.a,m.o,m.s,["nm"]*m.a.ndim,m.cls),True))
    for ix in index_alphabet(nd): O.append((f"getitem {ix}",lambda d,ix=ix:d[ix],lambda m,ix=ix:model_getitem(m,ix),False))
    return O
def explore(init,depth):
    m0=Mod(init.array.copy(),init.origin,init.sampling,init.units,type(init))
    seen={canon(init)}; frontier=[(init,m0,[])]; trans=0; viol={}; t0=time.time()
    for dep in range(depth):
        nxt=[]
        for d,m,hist in frontier:
            for name,fi,fm,inplace in ops(d.ndim,d.shape):
                x=d.copy(); before=canon(x)
                ie=me=None
                try: r=fi(x)
                except Exception as e: ie=type(e).__name__
                try: mm=fm(m)
                except Exception as e: me=type(e).__name__
                trans+=1
                if ie or me:
                    if bool(ie)!=bool(me): viol.setdefault(("EXC mismatch",name.split(" ")[0],ie,me),hist+[name])
                    continue
                res=x if r is None else r
                if res.array.size==0: continue
                e=eq(res,mm)
                if e: viol.setdefault((name.split(" ip")[0] if "getitem" not in name else "getitem",e.split(" ")[0]),(hist+[name],e)); continue
                if not inplace and canon(x)!=before: viol.setdefault(("SOURCE MODIFIED",name),hist+[name])
                k=canon(res)
                if k not in seen: seen.add(k); nxt.append((res,mm,hist+[name]))
        frontier=nxt
    return len(seen),trans,round(time.time()-t0,1),viol
inits=[Dataset.from_array(np.arange(5.,dtype=np.float32),origin=[1],sampling=[0.5],units=["a"]),
 Dataset2d.from_array(np.arange(20.,dtype=np.float32).reshape(4,5),origin=[1,2],sampling=[0.5,0.25],units=["a","b"]),
 Dataset.from_array((np.arange(12)+1j).astype(np.complex64).reshape(3,4),origin=[0,1],sampling=[1,2],units=["a","b"]),
 Dataset3d.from_array(np.arange(24,dtype=np.int16).reshape(2,3,4),origin=[0,1,2],sampling=[1,2,3],units=["a","b","c"]),
 Dataset4dstem.from_array(np.arange(48.,dtype=np.float32).reshape(2,2,3,4),origin=[0,1,2,3],sampling=[1,2,3,4],units=["a","b","c","d"]),
 Dataset.from_array(np.arange(32.).reshape(2,2,2,2,2))]
for i,(init,dep) in enumerate(zip(inits,[2,2,2,1,1,1])):
    st,tr,t,viol=explore(init,dep)
    print(type(init).__name__,init.shape,init.dtype,"depth",dep,"states",st,"trans",tr,"t",t,"violations",len(viol))
    for k,v in list(viol.items())[:6]: print("    ",k,v)
