import numpy as np, warnings, torch
warnings.simplefilter("ignore")
import quantem.core.utils.imaging_utils as IU
def dft_upsample_fixed(F, up, shift, device="cpu"):
    xp=np
    M,N=F.shape
    du=np.ceil(1.5*up).astype(int)
    row=np.arange(-du,du+1); col=np.arange(-du,du+1)
    kr=xp.fft.ifftshift(xp.arange(M))-M//2
    kc=xp.fft.ifftshift(xp.arange(N))-N//2
    kern_row=np.exp(2j*np.pi/(M*up)*np.outer(row+shift[0]*up, kr))
    kern_col=np.exp(2j*np.pi/(N*up)*np.outer(kc, col+shift[1]*up))
    return xp.real(kern_row@F@kern_col)
src=open(IU.__file__).read()
# emulate the two-part fix: kernels + centre offset (peak - du)
IU.dft_upsample=dft_upsample_fixed
import inspect, types
code=inspect.getsource(IU.cross_correlation_shift).replace("(np.array(peak) - upsample_factor) / upsample_factor","(np.array(peak) - np.ceil(1.5 * upsample_factor)) / upsample_factor")
ns={}; exec(code, IU.__dict__, ns); ccs=ns["cross_correlation_shift"]
exec(open("/verif/design_probes/p4.py").read().split('print("== cross correlation")')[0])
for shape in [(16,16),(15,18),(9,12),(8,11)]:
    ref=bandlimited(shape)
    for up in [1,2,3,4,8,16,64]:
        errs=[]
        for s in [(0,0),(1,0),(0,-2),(3,4),(7,-5),(0.5,0.25),(1.3,-2.7),(-0.125,3.375),(shape[0]//2+1,1),(0.49,-0.51)]:
            im=fshift(ref,(-s[0],-s[1]))
            est=np.array(ccs(ref,im,upsample_factor=up))
            d=(est-np.array(s)+np.array(shape)/2)%np.array(shape)-np.array(shape)/2
            errs.append(np.abs(d).max())
        print(shape,"up",up,"fixed np max err",np.round(errs,4), "bound 1/up",round(1/up,4))
