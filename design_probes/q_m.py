import numpy as np, warnings, torch, itertools
warnings.simplefilter("ignore"); torch.manual_seed(0)
from quantem.diffractive_imaging.probe_models import ProbePixelated
from quantem.core.datastructures import Dataset4dstem
from quantem.diffractive_imaging.origin_models import CenterOfMassOriginModel
from quantem.diffractive_imaging.ptycho_utils import fit_origin, sum_patches
print("== _apply_weights")
for M in [1,2,3]:
    for w in [None,[1]*M,[5,1,1][:M]]:
        for mi in [1e-3,1.0,1e4]:
            arr=(torch.randn(M,6,8,dtype=torch.complex64)).numpy()
            pm=ProbePixelated.from_array(arr,probe_params={"energy":80e3},initial_probe_weights=w,rng=0)
            pm.set_initial_probe((6,8),np.array([0.05,0.04]),mi)
            P=pm.initial_probe
            tot=float((torch.fft.fft2(P,norm="ortho").abs()**2).sum()); shares=((P.abs()**2).sum((1,2))/ (P.abs()**2).sum()).numpy()
            want=pm.initial_probe_weights.numpy()
            print(M,w,mi,"total/mean",round(tot/mi,6),"shares err",float(np.abs(shares-want).max()))
print("== propagators")
pm=ProbePixelated.from_array(torch.randn(1,7,10,dtype=torch.complex64).numpy(),probe_params={"energy":300e3},rng=0)
x=torch.randn(7,10,dtype=torch.complex64)
def prop(x,dz,tilt=(0,0)):
    pm.probe_tilt=torch.tensor(tilt,dtype=torch.float32)
    P=pm._compute_propagator_arrays((0.3,0.25),2,np.array([dz]))[0]
    return torch.fft.ifft2(torch.fft.fft2(x)*P),P
for tilt in [(0,0),(3.,-2.)]:
    y,P=prop(x,3.0,tilt); z,_=prop(y,-3.0,tilt); a,_=prop(x,1.0,tilt); b,_=prop(a,2.0,tilt)
    print("tilt",tilt,"|P|-1",float((P.abs()-1).abs().max()),"energy",float((y.abs()**2).sum()/(x.abs()**2).sum()-1),"inverse",float((z-x).abs().max()),"additive",float((b-y).abs().max()))
print("== adjoint")
obj=torch.randn(2,9,11,dtype=torch.complex128); idx=torch.randint(0,99,(5,4,6)); y=torch.randn(2,5,4,6,dtype=torch.complex128)
g=obj.reshape(2,-1)[:,idx]; lhs=(g.conj()*y).sum(); rhs=sum((obj[s].conj()*sum_patches(y[s],idx,(9,11))).sum() for s in range(2)); print("adjoint rel",abs(lhs-rhs)/abs(lhs))
print("== origin fits / shift")
rng=np.random.default_rng(0)
for sshape,dshape in [((3,4),(6,8)),((4,3),(7,7))]:
    arr=rng.random((*sshape,*dshape)).astype(np.float32)+0.1
    ds=Dataset4dstem.from_array(arr)
    om=CenterOfMassOriginModel.from_dataset(ds)
    xx,yy=np.meshgrid(np.arange(sshape[0]),np.arange(sshape[1]),indexing="ij")
    planes=np.stack([2+0.5*xx-0.25*yy, 3-0.25*xx+0.5*yy],-1).reshape(-1,2).astype(np.float32)
    om.origin_measured=torch.tensor(planes); om.fit_origin_background(fit_method="plane"); print("plane fit err",float((om.origin_fitted-torch.tensor(planes)).abs().max()))
    om.origin_measured=torch.tensor([[2.0,3.0]]); om.fit_origin_background(fit_method="constant"); print("const fit err",float((om.origin_fitted-torch.tensor([2.,3.])).abs().max()))
    qr,qc,_,_=fit_origin((planes[:,0].reshape(sshape).astype(float),planes[:,1].reshape(sshape).astype(float)),fit_function="plane",mask=np.ones(sshape,bool)); print("fit_origin plane err",np.abs(qr.ravel()-planes[:,0]).max(),np.abs(qc.ravel()-planes[:,1]).max())
    worst=0
    for o in itertools.product(range(dshape[0]),range(dshape[1])):
        om.origin_fitted=torch.tensor([[float(o[0]),float(o[1])]]); om.shift_origin_to((0,0)); s=om.shifted_tensor.numpy()
        ref=np.roll(arr,(-o[0],-o[1]),axis=(-2,-1)); worst=max(worst,np.abs(s-ref).max())
    print("shift=roll worst",worst)
