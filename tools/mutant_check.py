#!/venv/bin/python
"""Re-run the hand-made mutants of a property: every /verif/mutants/<PROP>/*.diff is applied to a fresh scratch worktree
of /repo HEAD (under /tmp, removed afterwards) and the property's quick check is run against it (VERIF_REPO,
--no-evidence). Expected: exit 1, except for files whose name contains NOT_A_VIOLATION / not_a_violation / NONVIOLATING
(expected exit 0). Prints one line per mutant; exit 1 if any expectation is not met.

    mutant_check.py PROP [PROP ...] [--jobs N]
"""
import concurrent.futures as cf
import glob
import os
import subprocess
import sys

PY = "/venv/bin/python"
VERIF = os.path.dirname(os.path.dirname(os.path.abspath(__file__)))


def sh(cmd, env=None, timeout=7200):
    e = dict(os.environ)
    if env:
        e.update(env)
    p = subprocess.run(cmd, shell=True, env=e, capture_output=True, text=True, timeout=timeout)
    return p.returncode, p.stdout + p.stderr


def one(arg):
    prop, diff = arg
    name = os.path.basename(diff)
    wt = f"/tmp/mc-{prop}-{os.getpid()}-{abs(hash(name)) % 10**8}"
    rc, o = sh(f"git -C /repo worktree add --detach {wt} HEAD -q")
    if rc != 0:
        return prop, name, "worktree failed", ""
    try:
        rc, o = sh(f"git -C {wt} apply {diff}")
        if rc != 0:
            rc, o = sh(f"git -C {wt} apply --3way {diff}")
        if rc != 0:
            return prop, name, "does not apply to HEAD", ""
        rcc, oc = sh(f"{PY} -u {VERIF}/run.py {prop} --tier quick --no-evidence --jobs 4", env={"VERIF_REPO": wt})
        first = next((l.strip() for l in oc.splitlines() if "violation class=" in l), "")
        return prop, name, f"exit {rcc}", first[:150]
    finally:
        sh(f"git -C /repo worktree remove --force {wt}")


def main():
    args = [a for a in sys.argv[1:] if not a.startswith("--")]
    jobs = 4
    if "--jobs" in sys.argv:
        jobs = int(sys.argv[sys.argv.index("--jobs") + 1])
        args = [a for a in args if a != str(jobs)]
    work = [(p, d) for p in args for d in sorted(glob.glob(os.path.join(VERIF, "mutants", p, "*.diff")))]
    bad = 0
    with cf.ThreadPoolExecutor(jobs) as ex:
        for prop, name, res, first in ex.map(one, work):
            nonviol = any(s in name for s in ("NOT_A_VIOLATION", "not_a_violation", "NONVIOLATING", "nonviolating"))
            ok = res == ("exit 0" if nonviol else "exit 1")
            bad += (not ok) and res != "does not apply to HEAD"
            print(f"{prop} {name}: {res} {'OK' if ok else ('(skipped)' if res.startswith('does not') else 'UNEXPECTED')} {first}", flush=True)
    sys.exit(1 if bad else 0)


if __name__ == "__main__":
    main()
