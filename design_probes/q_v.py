import numpy as np, warnings, itertools, time, copy, hashlib
warnings.simplefilter("ignore")
from quantem.core.datastructures.vector import Vector
# ---------- reference model: nested python lists of float64 arrays (or None), fields, units
class M:
    def __init__(s, shape, fields, units=None):
        s.shape=tuple(shape); s.fields=list(fields); s.units=list(units) if units else ["none"]*len(fields)
        def mk(sh): return None if not sh else [mk(sh[1:]) for _ in range(sh[0])]
        s.data=mk(s.shape)
    def cells(s): return list(itertools.product(*[range(n) for n in s.shape]))
    def get(s,idx):
        r=s.data
        for i in idx: r=r[i]
        return r
    def put(s,idx,val):
        r=s.data
        for i in idx[:-1]: r=r[i]
        r[idx[-1]]=val
def canon_impl(v):
    h=hashlib.blake2b(digest_size=10); h.update(repr((v.shape,v.fields,v.units)).encode())
    def walk(d):
        if isinstance(d,np.ndarray): h.update(b"A"+str(d.shape).encode()+np.ascontiguousarray(d,dtype=float).tobytes())
        elif isinstance(d,list):
            h.update(b"[");[walk(x) for x in d]; h.update(b"]")
        else: h.update(b"N")
    walk(v._data); return h.digest()
def same(v,m):
    if tuple(v.shape)!=m.shape or list(v.fields)!=m.fields or list(v.units)!=m.units: return "schema"
    for c in m.cells():
        a=v[c] if len(c)>1 else v[c[0]]; b=m.get(c)
        if (a is None)!=(b is None): return f"cell {c} None mismatch"
        if a is not None:
            if a.ndim!=2 or a.shape[1]!=len(m.fields): return f"cell {c} shape {a.shape}"
            if a.shape!=b.shape or not np.allclose(a,b): return f"cell {c} values"
    for fi,f in enumerate(m.fields):
        exp=[m.get(c)[:,fi] for c in m.cells() if m.get(c) is not None]
        exp=np.concatenate(exp) if exp else np.empty((0,))
        got=v[f].flatten()
        if got.shape!=exp.shape or not np.allclose(got,exp): return f"flatten {f}"
    return None
def rows(n,nf,seed): return (np.arange(n*nf,dtype=float).reshape(n,nf)+10*seed)
def ops(m):
    nf=len(m.fields); O=[]
    cells=m.cells()
    for c in cells[:3]:
        for n in (0,1,3):
            O.append((f"set{c}n{n}", lambda v,c=c,n=n: v.__setitem__(c if len(c)>1 else c[0], rows(n,len(v.fields),sum(c)+n)), lambda mm,c=c,n=n: mm.put(c,rows(n,len(mm.fields),sum(c)+n))))
    for f in m.fields[:2]:
        O.append((f"{f}+=2", lambda v,f=f: v.__setitem__(f, v[f].__iadd__(2.0)), lambda mm,f=f: [mm.put(c, (lambda a:(a.__setitem__((slice(None),mm.fields.index(f)),a[:,mm.fields.index(f)]+2.0),a)[1])(mm.get(c).copy())) for c in mm.cells() if mm.get(c) is not None]))
        O.append((f"{f}*=3", lambda v,f=f: v.__setitem__(f, v[f].__imul__(3.0)), lambda mm,f=f: [mm.put(c, (lambda a:(a.__setitem__((slice(None),mm.fields.index(f)),a[:,mm.fields.index(f)]*3.0),a)[1])(mm.get(c).copy())) for c in mm.cells() if mm.get(c) is not None]))
        O.append((f"roundtrip {f}", lambda v,f=f: v[f].set_flattened(v[f].flatten()), lambda mm,f=f: None))
    O.append(("add g", lambda v: v.add_fields("g") , lambda mm: (mm.fields.append("g"), mm.units.append("none"), [mm.put(c,np.hstack([mm.get(c),np.zeros((mm.get(c).shape[0],1))])) for c in mm.cells() if mm.get(c) is not None]) ) if "g" not in m.fields else None)
    if len(m.fields)>1:
        f0=m.fields[0]
        O.append((f"remove {f0}", lambda v,f0=f0: v.remove_fields(f0), lambda mm,f0=f0: (lambda i:(mm.fields.pop(i),mm.units.pop(i),[mm.put(c,np.delete(mm.get(c),i,axis=1)) for c in mm.cells() if mm.get(c) is not None]))(mm.fields.index(f0))))
    return [o for o in O if o]
def bfs(shape,nf,depth):
    v0=Vector.from_shape(shape,num_fields=nf); m0=M(shape,[f"field_{i}" for i in range(nf)])
    seen={canon_impl(v0)}; frontier=[(v0,m0)]; trans=0; viol=[]; t0=time.time()
    for d in range(depth):
        nxt=[]
        for v,m in frontier:
            for name,fi,fm in ops(m):
                v2=v.copy(); m2=copy.deepcopy(m)
                try: fi(v2)
                except Exception as e: viol.append((shape,name,"EXC "+type(e).__name__+str(e)[:50])); continue
                fm(m2); trans+=1
                r=same(v2,m2)
                if r: viol.append((shape,name,r)); continue
                if same(v,m): viol.append((shape,name,"SOURCE CHANGED via copy")); 
                k=canon_impl(v2)
                if k not in seen: seen.add(k); nxt.append((v2,m2))
        frontier=nxt
    return len(seen),trans,round(time.time()-t0,1),viol[:5],len(viol)
for shape,nf,depth in [((2,),2,3),((2,2),2,3),((2,2,2),1,2)]:
    print(shape,nf,"depth",depth,bfs(shape,nf,depth))
