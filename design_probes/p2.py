import numpy as np, warnings, traceback
warnings.simplefilter("ignore")
from quantem.core.datastructures.vector import Vector
from quantem.core import config
print("== Vector")
v1 = Vector.from_shape((3,), num_fields=2)
for i in range(3): v1[i] = np.arange(2*(i+1),dtype=float).reshape(-1,2)
try:
    s = v1[0:2]; print("1-D slice ok", s.shape, [c for c in s._data])
except Exception as e: print("1-D slice EXC", type(e).__name__, e)
try:
    print("1-D get_data slice", v1.get_data(slice(0,2)))
except Exception as e: print("1-D get_data slice EXC", type(e).__name__, e)
v3 = Vector.from_shape((2,2,2), num_fields=1)
for idx in np.ndindex(2,2,2): v3[idx] = np.full((1,1), float(idx[0]*4+idx[1]*2+idx[2]))
try:
    s = v3[0:2, 1, 0:2]; print("3-D slice", s.shape, s._data)
except Exception as e: print("3-D slice EXC", type(e).__name__, e)
a = Vector.from_shape((2,), num_fields=1); b = Vector.from_shape((2,), num_fields=1)
a.metadata["k"]=1; print("shared metadata:", b.metadata)
c = a.copy(); print("copy metadata:", c.metadata, c.metadata is a.metadata)
v2 = Vector.from_shape((2,2), fields=["x","y"])
v2[0,0]=np.ones((2,2)); v2[1,1]=np.zeros((0,2))
print("flatten x", v2["x"].flatten(), v2.flatten().shape)
try:
    v2["x"] += 3; print("iadd ok", v2["x"].flatten())
except Exception as e: print("iadd EXC", type(e).__name__, e)
try:
    v2[[0],0] = [np.ones((1,2))]; print("singleton list set ok")
except Exception as e: print("singleton list set EXC", type(e).__name__, e)
try:
    print("fancy get [0,1],0 ->", v2[[0,1],0].shape)
except Exception as e: print("fancy EXC", type(e).__name__, e)
print("== config")
try:
    before = config.get("verbose")
    with config.set({"verbose": 5}):
        print("inside", config.get("verbose"))
    print("after", config.get("verbose"), "before", before)
except Exception as e: print("ctx EXC", type(e).__name__, e)
config.set({"foo-bar": 1}); print(config.get("foo_bar")); config.set(foo_bar=2); print(config.get("foo-bar"), {k:v for k,v in config.config.items() if k.startswith("foo")})
config.set({"a.b": 1}); config.set({"a.c": 2}); print(config.get("a"))
config.set(a__d=3); print(config.get("a"))
for dev in ["cuda:0","gpu","mps","tpu",-1,3.5,"cuda:x", 0, None, "cpu:1"]:
    try:
        config.set({"device": dev}); print("device", dev, "->", config.get("device"))
    except Exception as e: print("device", dev, "EXC", type(e).__name__, str(e)[:60], "| stored:", config.get("device"))
config.refresh(); print("after refresh a" , config.get("a", None), config.get("verbose"))
