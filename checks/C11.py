"""C11 — ragged Vector keeps its structural invariants under any operation history.

Shape H (operation histories), level model_checking: explicit-state BFS over histories of public
`quantem.core.datastructures.vector.Vector` operations. A state is a triple of live objects
(main Vector v, a copy c made by the history through v.copy(), an independently created Vector w)
plus a boring reference model of each (nested Python lists of float64 arrays or None, field list,
unit list, metadata dict). Every transition is executed on the real objects *and* on the model and
the whole triple is compared (cells, fields, units, metadata), so a mutation of one object that
becomes visible in another is a failure of that transition. Read-only members of the alphabet
(cell get, get_data, slicing to a new Vector, flatten, flatten/set_flattened round trip) are run as
"observers" in every new state and compared with what the model predicts.

Everything is read through the public API: v.shape / v.fields / v.units / v.metadata / v[int index]
/ v[expr] / v.get_data / v.flatten / v[f].flatten / v[f].set_flattened / add_fields / remove_fields /
copy / from_shape / from_data. Live states are cloned with pickle (one dump of the whole triple, so
sharing between the three objects — the thing under test — survives cloning); the determinism
self-test replays a history from scratch and demands the same canonical state as the pickled path.

Values: every array handed to the library is a fresh copy of a table entry
5 + vid*32 + row*8 + col + noise/4 (noise in {0,1,2,3} seeded from VERIF_SEED): all entries of all tables are
distinct and dyadic rationals, the arithmetic operands are 2, 0.5, 3, 2 (+= -= *= /=), so every value
reachable in <= 8 steps is exact in float64 (|numerator| < 2^40). Comparison is therefore EXACT
(tolerance 0; worst deviation observed on the unchanged tree over seeds 0,1,2,7,12345: 0; smallest
mutant effect: 0.25).

Semantics pinned for the model: in a mixed index such as v[0:2, 1] the integer axis is kept with
length 1; a partial index is padded with full slices; get_data returns the addressed cells in
row-major order of the index product (a bare cell when every axis addresses one position).

Two further dimensions run outside the BFS, each with its own complete enumeration (see the sections "identity" and
"content of field names"): ONE array object sitting in several cells of a Vector (index lists that name a position
twice, one object assigned to several cells), judged by a model that keeps a group label per cell and accepts every
reading the property leaves open for a repeated array while staying exact for all other cells; and field lists made
of look-alike names (case, blanks, Unicode forms, numeric spellings, prefixes, metacharacters), where every
name-addressed operation must act on exactly the named column and look-alikes that are absent must not resolve.
"""
from __future__ import annotations

import contextlib
import copy as _copy
import hashlib
import io
import itertools
import json
import pickle
import warnings

import numpy as np

from mc.explore import deviation_histories
from mc.harness import Broken, Tally

LEVEL = "model_checking"
TECHNIQUE = "explicit-state BFS over Vector operation histories on the real objects, canonical-state dedup, list-of-lists reference model compared on every transition, deviation-bounded length-8 histories"
CLAIM = (
    "Every history of Vector operations (cell / slice / list / Vector-valued assignment through __setitem__ and set_data, "
    "field += -= *= /=, set_flattened and v[field] = values, add_fields, remove_fields incl. missing names and all-but-one, "
    "copy and mutations of the copy, mutations of an independently created Vector, metadata writes, kept slices s = v[idx] "
    "spelled with implicit and explicit trailing axes followed by whole-cell replacements on either object) up to depth 3 (quick) or 4 (thorough, on one initial state per dimensionality "
    "plus from_data) from 22 initial states (from_shape for (2,), (3,), (2,2), (2,3), (2,2,2) x 1..3 fields, from_data with "
    "ragged rows incl. zero-row cells, and four Vectors with exactly one populated cell: shapes (1,), (1,1), (1,1,1), (2,2)) is executed on the real class; after every transition the main Vector, the copy "
    "and the independent Vector equal a pure-Python reference model cell by cell (exact), and in every new state every "
    "populated cell is 2-D with num_fields columns, fields are unique and 1:1 with units, v[f].flatten() and v.flatten() "
    "are the row-major concatenation over all cells and independent snapshots (no memory shared with a cell; kept across "
    "every in-place field operation and written back they restore the data), writing a flattened field back changes nothing, and slicing / get_data "
    "return exactly the addressed cells for 1, 2 and 3 fixed dimensions. In every expanded state every operation the library "
    "refuses (about 45: wrong-length / wrong-typed flattened input, unknown fields, invalid cell values, wrong index counts, "
    "out-of-range indices, wrong array counts or an invalid array in multi-cell assignment, bad field names) is tried on one "
    "live object: it must raise, leave copy / independent Vector and the main Vector's schema and metadata untouched and change "
    "nothing outside its own footprint (inside it only old or requested values), and the history continues exactly from the "
    "observed state; then the cross-object operations: between main, copy, independent Vector, copy.deepcopy / pickle copies of main "
    "(used alternately with it), a shallow copy.copy and a kept slice as sources, for every ordered pair with compatible rows and "
    "for the same and a different field name, dst[f] = src[g] (field view), = src[g].flatten(), dst[f].set_flattened(src[g]), "
    "dst[f] += src[g], dst[cell] = src[cell], dst.set_data(src.get_data(..)): dst holds src's current values, everything else is unchanged. Width dimension: Vectors with 9, 10, 12, 17 and 33 fields (distinct value per column, row and cell), every "
    "removal of 1, 2, n-2, n-1 fields and of all-but-K for families of small K incl. survivors of index >= 8, add_fields, field "
    "set / arithmetic / get by name, copy, as roots of depth 1-2, the names given sorted, reversed and in two fixed shuffles and "
    "as str / list / tuple / set / dict keys. Global-mode dimension: from six initial states (float, int64, uint8 and bool cells) "
    "and their depth-1 successors every event and every refused operation is executed under warnings-as-errors and under "
    "np.errstate(all='raise'): it must give the default-mode result, or — if the mode turns it into an exception — satisfy the "
    "refused-operation oracle plus the structural invariants (names, units and cell columns agree; flatten consistent). Identity dimension: "
    "from four initial states (1-3 fixed dimensions) ONE array object is brought into several cells — by index lists that name a position twice "
    "(v[[1, 1, 2, 0]], [0, 0], [2, 0, 2], lists and arrays, on every axis; unsorted lists as controls), by assigning one object to two / three cells, "
    "v[i] = v[j], slice / list / set_data assignment of a list holding one object twice, from_data([a, b, a]), equal content in distinct objects, "
    "v[0:n] = v[[..repeated..]] — and every sequence of up to 2 (thorough: 3; 2 after the index lists only thorough adds) of flatten round trip, set_flattened, v[f] = values, += -= *= /=, add_fields, "
    "remove_fields, copy, whole-cell replacement follows: cells whose array sits in one cell are exact, flatten is the concatenation over all cells "
    "counting a repeated array once per cell, the source of a slice and the source of a copy stay intact. Field-name dimension: field lists drawn from "
    "13 families of look-alike names (differing only in case / casefold, surrounding blanks, Unicode normalisation form, numeric spelling, prefixes of "
    "one another, blanks / dots / non-ASCII letters, glob / regex metacharacters, attribute names of the class) in every order, built with from_shape and from_data: every "
    "name-addressed operation (get, flatten, field view index, v[f] = values, set_flattened, += -= *= /=, remove_fields as str / list / all-but-one, "
    "add_fields of every absent look-alike, copy) for every name, depth 1-2, acts on exactly that name's column, and get / set / arithmetic with an "
    "absent look-alike of an existing name raise and change nothing. Model checking is the right level because the "
    "property quantifies over all operation histories of a small state machine."
)
NOTE = (
    "Trusted: the reference model in checks/C11.py (about 150 lines: nested lists + column operations written independently of "
    "vector.py), the event alphabet and the depth bound; float64 cell data in the main search, integer / unsigned / bool cells "
    "only in the global-mode dimension (depth <= 2; the model stores into a cell with numpy's own casting, so the truncation of "
    "a float result in an integer cell is numpy semantics, not judged); torch is not involved in vector.py, so no torch mode; the property does not promise that a REFUSED operation is atomic, so refused "
    "operations are judged by a footprint oracle (partial application inside the addressed cells / column is counted in the "
    "evidence, not flagged); propagation of in-place field operations between a kept slice and its parent is not judged "
    "(only whole-cell replacements must be local); singleton lists in assignments and removing every field are outside the alphabet; whether "
    "copy() carries metadata over is not pinned (empty or equal-by-value are both accepted, sharing is not); when one array object sits in k cells of a Vector, "
    "whether an in-place field operation acts once or k times on it and which of k different requested values it keeps is not pinned (every reading accepted, "
    "counted); empty / blank-only field names are looked up but never created. Seams: only the "
    "public API; cells are read through the public `data` property on the hot path (fallback v[int index], which is itself "
    "compared with the model for every cell in every expanded state); live states are cloned with pickle, cross-checked "
    "against a replay from scratch by the self-test."
)
RULE = (
    "BFS with canonical-state dedup (shape, fields, units, cell bytes, metadata of main/copy/independent Vector plus the "
    "object-sharing pattern of their cells) over all histories of enabled events up to the stated depth from every initial "
    "state, sharded by (initial state, first event) with the depth-2 states deduplicated globally; every transition compared "
    "with the reference model; observers in every new state (index expressions over a 9-member per-axis alphabet for "
    "slicing and get_data: full Cartesian product incl. partial indices in the initial states and, in thorough, in all "
    "depth-1 states; a one-axis-at-a-time set of 10-30 expressions in deeper states; one mixed expression in states of "
    "the last level; flatten, field flatten and the flatten/set_flattened round trip everywhere); in every expanded state "
    "the battery of refused operations on one live object, then observers and one legal event from the observed state; a "
    "kept slice is only taken when another event can follow and only whole-cell replacements are enabled while it is alive. thorough adds all "
    "width sequences and global-mode executions are enumerated completely as stated in bounds; thorough adds every keep-3 removal for 33 fields and all "
    "length-8 histories that deviate from a varied default history in <= 2 positions (and from a repeated += in <= 2 / <= 1). Identity dimension: every "
    "(initial state, source of a repeated array object) pair x every sequence of enabled operations up to the stated length, each executed from scratch on one live "
    "object; field-name dimension: every ordered selection of >= 2 names of each family (plus a neutral name in between) x construction x every operation for every "
    "name (depth 2 after each structural first operation). A transition is non-trivial when it "
    "reaches a canonical state not seen before; distinct outcomes = distinct canonical states over all shards."
)

# ----------------------------------------------------------------------------- lazy binding
_VEC = None


def V():
    global _VEC
    if _VEC is None:
        from quantem.core.datastructures.vector import Vector

        _VEC = Vector
    return _VEC


# ----------------------------------------------------------------------------- value tables
NVID = 48
_TABLES = {}


def tables(seed):
    """(T, F): T[vid] is a (3, 8) block, F[k] a length-40 vector; all entries distinct dyadic rationals."""
    if seed not in _TABLES:
        rng = np.random.default_rng([int(seed), 11, 0])
        vid = np.arange(NVID)[:, None, None] * 32.0
        r = np.arange(3)[None, :, None] * 8.0
        c = np.arange(8)[None, None, :] * 1.0
        # offset 5: no table entry is a fixed point of an operation (0 for *= /=) or makes two operations coincide (1: x*3 == x+2)
        T = 5.0 + vid + r + c + rng.integers(0, 4, size=(NVID, 3, 8)) / 4.0
        F = 4096.0 + np.arange(4)[:, None] * 64.0 + np.arange(40)[None, :] + rng.integers(0, 4, size=(4, 40)) / 4.0
        _TABLES[seed] = (T, F)
    return _TABLES[seed]


def val(T, vid, n, nf):
    return np.array(T[vid, :n, :nf], dtype=np.float64, copy=True)


# value ids
VID_SET = {"first": 0, "last": 1}
VID_SLICE = 4  # + 2*axis + k
VID_LIST = 10  # + 2*axis + k
VID_ALL = 16  # + k (<= 8 cells)
VID_CSET, VID_WSET = 24, 25
VID_INIT_V, VID_INIT_W = 26, 30  # + cell
ROWS_SLICE = (1, 3)
ROWS_LIST = (3, 0)
ROWS_ALL = (1, 0, 3, 1, 3, 0, 1, 3)

ARITH = {"add": 2, "sub": 0.5, "mul": 3, "div": 2}

# ----------------------------------------------------------------------------- initial states
SHAPES = [(2,), (3,), (2, 2), (2, 3), (2, 2, 2)]
INITS = [("shape", s, nf) for s in SHAPES for nf in (1, 2, 3)] + [
    ("data", (2, 0, 3), 2),  # ragged rows with a zero-row cell, ndarray input, explicit fields + units
    ("data", (1, 3), 1),  # list-of-lists input, num_fields only
    ("data", (0, 1, 1), 3),  # zero-row FIRST cell, explicit fields, default units
    # exactly ONE populated cell (3 rows): single-cell shapes with 1, 2, 3 fixed dimensions, and a (2,2) Vector whose
    # other three cells are unset — the case in which "concatenate over all cells" degenerates to a single array
    ("one", (1,), 2),
    ("one", (1, 1), 1),
    ("one", (1, 1, 1), 2),
    ("one", (2, 2), 2),
]
# initial states explored to the larger depth in thorough: one per dimensionality + from_data
DEEP_INITS = [("shape", (3,), 2), ("shape", (2, 2), 1), ("shape", (2, 2, 2), 1), ("data", (2, 0, 3), 2)]
FIELDS = ["x", "y", "z"]
UNITS = ["u0", "u1", "u2"]


# ----------------------------------------------------------------------------- reference model
MODE_ACTIVE = [False]  # a global mode (warnings as errors, np.errstate raise) is switched on for the LIBRARY call


def _neutral(fn):
    """The reference model never runs under a global mode of the process: its arithmetic is shielded."""

    def wrapper(*a, **k):
        if not MODE_ACTIVE[0]:
            return fn(*a, **k)
        with warnings.catch_warnings(), np.errstate(all="ignore"):
            warnings.simplefilter("ignore")
            return fn(*a, **k)

    return wrapper


class Model:
    """Nested Python lists of float64 arrays (or None), field list, unit list, metadata dict.
    No operation mutates an array in place, so clones may share arrays."""

    __slots__ = ("shape", "fields", "units", "data", "meta", "_cells", "_bytes")

    def __init__(self, shape, fields, units):
        self.shape = tuple(shape)
        self.fields = list(fields)
        self.units = list(units)

        def mk(sh):
            return None if not sh else [mk(sh[1:]) for _ in range(sh[0])]

        self.data = mk(self.shape)
        self.meta = {}
        self._bytes = None  # cache of model_bytes(); every mutator resets it
        self._cells = list(itertools.product(*[range(n) for n in self.shape]))

    def clone(self):
        m = Model.__new__(Model)
        m.shape = self.shape
        m.fields = list(self.fields)
        m.units = list(self.units)

        def cp(d):
            return [cp(x) for x in d] if isinstance(d, list) else d

        m.data = cp(self.data)
        m.meta = json.loads(json.dumps(self.meta)) if self.meta else {}
        m._cells = self._cells
        m._bytes = self._bytes
        return m

    def touch(self):
        self._bytes = None

    @property
    def nf(self):
        return len(self.fields)

    def cells(self):
        return self._cells

    def get(self, idx):
        r = self.data
        for i in idx:
            r = r[i]
        return r

    def put(self, idx, arr):
        r = self.data
        for i in idx[:-1]:
            r = r[i]
        r[idx[-1]] = arr
        self._bytes = None

    def populated(self):
        return [(c, self.get(c)) for c in self._cells if self.get(c) is not None]

    def total_rows(self):
        return sum(a.shape[0] for _, a in self.populated())

    @_neutral
    def column(self, fi):
        cols = [a[:, fi] for _, a in self.populated()]
        return np.concatenate(cols) if cols else np.empty((0,))

    @_neutral
    def stacked(self):
        arrs = [a for _, a in self.populated()]
        return np.vstack(arrs) if arrs else np.empty((0, self.nf))

    @_neutral
    def add(self, names):
        self._bytes = None
        self.fields += list(names)
        self.units += ["none"] * len(names)
        for c, a in self.populated():
            self.put(c, np.concatenate([a, np.zeros((a.shape[0], len(names)))], axis=1))

    @_neutral
    def remove(self, names):
        drop = {n for n in names if n in self.fields}
        keep = [i for i, f in enumerate(self.fields) if f not in drop]
        self._bytes = None
        self.fields = [self.fields[i] for i in keep]
        self.units = [self.units[i] for i in keep]
        for c, a in self.populated():
            self.put(c, np.stack([a[:, i] for i in keep], axis=1) if keep else np.empty((a.shape[0], 0)))

    @_neutral
    def arith(self, fi, op, operand):
        for c, a in self.populated():
            b = a.copy()
            col = a[:, fi]
            b[:, fi] = {"add": col + operand, "sub": col - operand, "mul": col * operand, "div": col / operand}[op]
            self.put(c, b)

    @_neutral
    def set_flat(self, fi, values):
        cur = 0
        for c, a in self.populated():
            b = a.copy()
            b[:, fi] = values[cur : cur + a.shape[0]]
            cur += a.shape[0]
            self.put(c, b)

    def check_self(self):
        """The model must satisfy the invariants by construction; anything else is a bug of this check."""
        if len(set(self.fields)) != len(self.fields) or len(self.units) != len(self.fields):
            raise Broken(f"reference model broke its own schema invariant: {self.fields} / {self.units}")
        for c, a in self.populated():
            if a.ndim != 2 or a.shape[1] != self.nf or a.dtype.kind not in "fiub":
                raise Broken(f"reference model cell {c} has shape {a.shape}, {self.nf} fields")


# ----------------------------------------------------------------------------- index expressions
MEMBERS = ["0", "L", "s02", "s1", "all", "step2", "l0L", "lL0", "aL0"]
NONINT = [m for m in MEMBERS if m not in ("0", "L")]


def member_index(m, n):
    """The Python object handed to the library for alphabet member m on an axis of size n."""
    return {
        "0": 0,
        "L": n - 1,
        "s02": slice(0, 2),
        "s1": slice(1, None),
        "all": slice(None),
        "step2": slice(None, None, 2),
        "l0L": [0, n - 1],
        "lL0": [n - 1, 0],
        "aL0": np.array([n - 1, 0]),
    }[m]


def member_positions(m, n):
    """What the model says member m addresses on an axis of size n (plain Python, no numpy)."""
    if m == "0":
        return [0]
    if m == "L":
        return [n - 1]
    if m == "s02":
        return [i for i in range(n) if i < 2]
    if m == "s1":
        return [i for i in range(n) if i >= 1]
    if m == "all":
        return list(range(n))
    if m == "step2":
        return [i for i in range(n) if i % 2 == 0]
    if m == "l0L":
        return [0, n - 1]
    if m in ("lL0", "aL0"):
        return [n - 1, 0]
    raise ValueError(m)


def lib_index(expr, shape):
    idx = [member_index(m, n) for m, n in zip(expr, shape)]
    return idx[0] if len(idx) == 1 else tuple(idx)


def model_axes(expr, shape):
    axes = [member_positions(m, n) for m, n in zip(expr, shape)]
    for n in shape[len(expr) :]:
        axes.append(list(range(n)))  # a partial index is padded with full slices
    return axes


_EXPRS = {}


def exprs_for(shape, tier):
    """Index expressions (tuples of member names) run as observers in a state, by observer tier."""
    key = (shape, tier)
    if key in _EXPRS:
        return _EXPRS[key]
    nd = len(shape)
    out = []
    if tier == "full":
        out = [tuple(e) for e in itertools.product(MEMBERS, repeat=nd)]
        for k in range(1, nd):  # partial indices
            out += [tuple(e) for e in itertools.product(MEMBERS, repeat=k)]
    elif tier == "reduced":
        for a in range(nd):
            for m in ("s02", "s1", "step2", "lL0", "aL0"):  # "all" / "l0L" come with the all-axes expressions below
                out.append(tuple(m if k == a else ("L" if k < a else "0") for k in range(nd)))
        out.append(tuple("l0L" for _ in range(nd)))
        out.append(tuple("all" for _ in range(nd)))
        out.append(tuple("s02" for _ in range(nd)))
        out.append(tuple("0" for _ in range(nd)))
        out.append(tuple("L" for _ in range(nd)))
        if nd >= 2:
            out += [("0",), ("s1",), ("lL0",)]
            out.append(tuple("s02" if k % 2 == 0 else "L" for k in range(nd)))
            out.append(tuple("lL0" if k % 2 == 1 else "s1" for k in range(nd)))
        if nd >= 3:
            out += [("s02", "L"), ("L", "lL0")]
    elif tier == "mini":
        out.append(tuple("lL0" if k % 2 == 0 else "L" for k in range(nd)))
    else:
        raise ValueError(tier)
    seen, res = set(), []
    for e in out:
        if e not in seen:
            seen.add(e)
            res.append(e)
    _EXPRS[key] = res
    return res


# ----------------------------------------------------------------------------- events
# kept-slice spellings per number of fixed dimensions: (index expression, spelling). "implicit": fewer index entries
# than dimensions (trailing axes taken whole implicitly); "explicit": every axis spelled out.
SLICES = {
    1: [(("s02",), "explicit"), (("lL0",), "explicit")],
    2: [(("s02",), "implicit_trailing_axes"), (("s02", "all"), "explicit"), (("lL0",), "implicit_trailing_axes"), (("lL0", "all"), "explicit")],
    3: [(("s02",), "implicit_trailing_axes"), (("s02", "all"), "implicit_trailing_axes"), (("s02", "all", "all"), "explicit"),
        (("lL0",), "implicit_trailing_axes"), (("lL0", "all", "all"), "explicit"), (("L", "s02"), "implicit_trailing_axes"), (("L", "s02", "all"), "explicit")],
}
VID_SSET = 34  # + {first: 0, last: 1}
VID_NEG = 36


def events_for(shape):
    """The event alphabet for vectors with this fixed shape, simplest first. Events are flat tuples of str/int."""
    nd = len(shape)
    ev = []
    for which in ("first", "last"):
        for n in (1, 0, 3):
            ev.append(("set", which, n))
    ev += [("setd", "first", 1), ("setd", "last", 3)]
    ev += [("arith", "add", "f0"), ("arith", "sub", "flast"), ("arith", "mul", "flast"), ("arith", "div", "f0")]
    ev += [("setflat", "f0"), ("setfield", "flast")]
    ev += [("flat_rt", "mul", "f0"), ("flat_rt", "sub", "flast")]  # flatten, change the field in place, write the saved array back
    ev += [("add", "g"), ("add", "hi")]
    ev += [("rm", k) for k in ("first", "last", "missing", "all_but_last", "all_but_first", "first_and_missing")]
    for a in range(nd):
        ev += [("asg_slice", a), ("asg_list", a)]
    for a in range(nd):
        ev += [("setd_slice", a), ("setd_list", a)]
    ev += [("asg_all",), ("asg_vec_self",), ("asg_vec_w",)]
    ev += [("set_neg",)]  # v[-1, 0, ..] = array: the library accepts a negative integer (Python list semantics), so it is an ordinary event
    # kept slices: s = v[idx] stays alive in the state; the same selection spelled with implicit and explicit trailing axes
    ev += [("slice", k) for k in range(len(SLICES[nd]))]
    ev += [("s_set", "first"), ("s_set", "last"), ("s_setd", "first")]
    ev += [("meta", "a"), ("meta", "b")]
    ev += [("copy",), ("c_set",), ("c_arith",), ("c_add",), ("c_rm",), ("c_setflat",), ("c_meta",)]
    ev += [("w_set",), ("w_arith",), ("w_add",), ("w_meta",)]
    return ev


TARGET = {"c_": "copy", "w_": "independent", "s_": "slice"}
# whole-cell replacements: the only events enabled (BFS) while a kept slice is alive; every other event would first
# drop the slice and then behave exactly as in the state without it
REPL = ("set", "setd", "set_neg", "asg_all", "s_set", "s_setd")


def target_of(ev):
    return TARGET.get(ev[0][:2], "main")


class State:
    """Live objects v (main), c (copy), w (independent), s (kept slice of v) + their models; sk = spelling index of s."""

    __slots__ = ("v", "c", "w", "s", "mv", "mc", "mw", "ms", "sk", "parts")

    def triple(self):
        return (("main", self.v, self.mv), ("copy", self.c, self.mc), ("independent", self.w, self.mw), ("slice", self.s, self.ms))

    def models(self):
        return (self.mv, self.mc, self.mw, self.ms, self.sk)

    def drop_slice(self):
        self.s, self.ms, self.sk = None, None, None


def cell_idx(c):
    return c[0] if len(c) == 1 else c


def multi_index(shape, axis, member):
    """Index with `member` on `axis` and integers elsewhere (last position below the axis, 0 above)."""
    return tuple(member if k == axis else ("L" if k < axis else "0") for k in range(len(shape)))


def vec_self_exprs(shape):
    """v[1:n0, 0, ...] = v[0:n0-1, 0, ...] — the documented 'copy one region to another' usage."""
    n0 = shape[0]
    rest = (0,) * (len(shape) - 1)
    dst = (slice(1, n0),) + rest
    src = (slice(0, n0 - 1),) + rest
    src_cells = [(i,) + rest for i in range(0, n0 - 1)]
    dst_cells = [(i,) + rest for i in range(1, n0)]
    fix = lambda t: t[0] if len(t) == 1 else t
    return fix(dst), fix(src), dst_cells, src_cells


def enabled(ev, S, bfs=True):
    """Enabledness is decided on the reference model only."""
    k = ev[0]
    m = S.mv
    if k == "slice":
        if S.ms is not None:
            return False
        return all(len(a) >= 1 for a in model_axes(SLICES[len(m.shape)][ev[1]][0], m.shape))
    if k.startswith("s_"):
        return S.ms is not None
    if S.ms is not None and bfs and (k not in REPL or ev in (("set", "first", 0), ("set", "first", 3), ("set", "last", 0), ("set", "last", 1))):
        return False  # with a kept slice alive: one replacement per cell and API is enough (the row count is immaterial)
    if k == "arith":
        return True  # with one field, "flast" is the first field
    if k == "setfield":
        return True
    if k == "add":
        names = ["g"] if ev[1] == "g" else ["h", "i"]
        return not any(n in m.fields for n in names) and m.nf + len(names) <= 6
    if k == "rm":
        if ev[1] in ("missing",):
            return True
        return m.nf >= 2  # never remove every field
    if k == "asg_vec_self":
        _, _, _, src_cells = vec_self_exprs(m.shape)
        return m.shape[0] >= 2 and all(m.get(c) is not None for c in src_cells)
    if k in ("setd_slice", "setd_list"):
        # set_data treats an index that addresses ONE cell as a single-cell assignment (wants a bare array): keep the
        # list form to selections of >= 2 positions
        member = "s02" if k == "setd_slice" else "lL0"
        return len(member_positions(member, m.shape[ev[1]])) >= 2
    if k == "asg_vec_w":
        first = m.cells()[0]
        return S.mw.get(first) is not None and S.mw.nf == m.nf
    if k.startswith("c_"):
        if S.mc is None:
            return False
        if k == "c_rm":
            return S.mc.nf >= 2
        if k == "c_add":
            return "zc" not in S.mc.fields
        return True
    if k == "w_add":
        return "zw" not in S.mw.fields
    return True


def take_flat(v, m):
    """What a caller keeps: v[f].flatten() for every field and v.flatten(), each with the model's value at that moment."""
    kept = [(f"v[{f!r}].flatten()", v[f].flatten(), m.column(fi)) for fi, f in enumerate(m.fields)]
    kept.append(("v.flatten()", v.flatten(), m.stacked()))
    return kept


def check_kept(kept, S):
    """Arrays returned by flatten() earlier are snapshots: still bitwise what they were, and no window onto any cell
    of the main / copy / independent Vector. Returns None or (relation, message)."""
    cells = []
    for who, vec, mod in S.triple():
        if vec is not None:
            cells += [(who, c, a) for c, a in zip(mod.cells(), read_cells(vec, mod.shape, mod.cells())) if isinstance(a, np.ndarray)]
    for label, got, exp in kept:
        if not isinstance(got, np.ndarray):
            continue  # judged by the flatten observers
        if got.shape != exp.shape or got.tobytes() != np.ascontiguousarray(exp).tobytes():
            return ("flatten_returns_independent_copy", f"the array returned earlier by {label} changed under a later operation on the Vector: now {got.tolist()!r}, it was {exp.tolist()!r}")
        for who, c, a in cells:
            if np.shares_memory(got, a):
                return ("flatten_returns_independent_copy", f"the array returned by {label} shares memory with cell {c} of the {who} Vector")
    return None


KEEP_EVENTS = ("arith", "setflat", "setfield")  # the events that write into existing cell arrays in place


def quiet_remove(vec, names):
    with contextlib.redirect_stdout(io.StringIO()):  # the library prints a warning for missing names
        vec.remove_fields(names)


def apply_event(S, ev, T, F):
    """Apply one enabled event to the live objects and to the model.

    Returns None or (relation, message) when the library's immediate reaction is already wrong
    (raised on a legitimate operation / accepted an operation the property forbids). Whether the
    resulting state is right is decided by the caller's comparison of the whole triple."""
    k = ev[0]
    v, m = S.v, S.mv
    cells = m.cells()
    nf = m.nf
    shape = m.shape
    must_raise = False
    problem = None
    try:
        if k in ("set", "setd"):
            c = cells[0] if ev[1] == "first" else cells[-1]
            vid = VID_SET[ev[1]]
            if k == "set":
                v[cell_idx(c)] = val(T, vid, ev[2], nf)
            else:
                v.set_data(val(T, vid, ev[2], nf), *c)
            m.put(c, val(T, vid, ev[2], nf))
        elif k == "arith":
            fi = 0 if ev[2] == "f0" else nf - 1
            f = m.fields[fi]
            operand = ARITH[ev[1]]
            if ev[1] == "add":
                v[f] += operand
            elif ev[1] == "sub":
                v[f] -= operand
            elif ev[1] == "mul":
                v[f] *= operand
            else:
                v[f] /= operand
            m.arith(fi, ev[1], operand)
        elif k == "flat_rt":
            # keep what flatten() returned, change the field in place, write the kept array back: the data are restored
            # (the model does not move), and the kept arrays are still what they were and share no memory with a cell
            fi = 0 if ev[2] == "f0" else nf - 1
            f = m.fields[fi]
            kept = take_flat(v, m)
            if ev[1] == "mul":
                v[f] *= 3
            else:
                v[f] -= 0.5
            problem = check_kept(kept, S)
            v[f].set_flattened(kept[fi][1])
        elif k == "setflat":
            vals = np.array(F[0, : m.total_rows()], copy=True)
            v[m.fields[0]].set_flattened(vals)
            m.set_flat(0, F[0])
        elif k == "setfield":
            vals = [float(x) for x in F[1, : m.total_rows()]]  # a plain list: ArrayLike
            v[m.fields[nf - 1]] = vals
            m.set_flat(nf - 1, F[1])
        elif k == "add":
            if ev[1] == "g":
                v.add_fields("g")
                m.add(["g"])
            else:
                v.add_fields(["h", "i"])
                m.add(["h", "i"])
        elif k == "rm":
            kind = ev[1]
            if kind == "first":
                names = m.fields[0]
            elif kind == "last":
                names = [m.fields[-1]]
            elif kind == "missing":
                names = "nope"
            elif kind == "all_but_last":
                names = tuple(m.fields[:-1])
            elif kind == "all_but_first":
                names = list(reversed(m.fields[1:]))
            else:
                names = ["nope", m.fields[0]]
            quiet_remove(v, names)
            m.remove([names] if isinstance(names, str) else list(names))
        elif k in ("asg_slice", "asg_list", "setd_slice", "setd_list"):
            a = ev[1]
            member = "s02" if k.endswith("slice") else "lL0"
            expr = multi_index(shape, a, member)
            axes = model_axes(expr, shape)
            targets = list(itertools.product(*axes))
            base = VID_SLICE if k.endswith("slice") else VID_LIST
            rows = ROWS_SLICE if k.endswith("slice") else ROWS_LIST
            values = [val(T, base + 2 * a + j, rows[j], nf) for j in range(len(targets))]
            if k.startswith("asg"):
                v[lib_index(expr, shape)] = values
            else:
                v.set_data(values, *[member_index(mm, n) for mm, n in zip(expr, shape)])
            for j, c in enumerate(targets):
                m.put(c, val(T, base + 2 * a + j, rows[j], nf))
        elif k == "asg_all":
            values = [val(T, VID_ALL + j, ROWS_ALL[j], nf) for j in range(len(cells))]
            idx = tuple(slice(None) for _ in shape)
            v[idx[0] if len(idx) == 1 else idx] = values
            for j, c in enumerate(cells):
                m.put(c, val(T, VID_ALL + j, ROWS_ALL[j], nf))
        elif k == "asg_vec_self":
            dst, src, dst_cells, src_cells = vec_self_exprs(shape)
            v[dst] = v[src]
            new = [m.get(c) for c in src_cells]
            for c, a in zip(dst_cells, new):
                m.put(c, a)
        elif k == "asg_vec_w":
            first = cells[0]
            e = tuple(slice(0, 1) if i == 0 else 0 for i in range(len(shape)))
            e = e[0] if len(e) == 1 else e
            v[e] = S.w[e]
            m.put(first, S.mw.get(first))
        elif k == "set_neg":
            c = (shape[0] - 1,) + (0,) * (len(shape) - 1)
            vid, n = (VID_SET["last"], 1) if len(shape) == 1 else (VID_NEG, 2)  # 1-d: the very state ("set","last",1) reaches
            v[cell_idx((-1,) + (0,) * (len(shape) - 1))] = val(T, vid, n, nf)
            m.put(c, val(T, vid, n, nf))
        elif k == "slice":
            expr, _ = SLICES[len(shape)][ev[1]]
            S.s = v[lib_index(expr, shape)]
            axes = model_axes(expr, shape)
            S.ms = Model(tuple(len(a) for a in axes), m.fields, m.units)
            for out in S.ms.cells():
                S.ms.put(out, m.get(tuple(axes[i][out[i]] for i in range(len(shape)))))
            S.sk = ev[1]
        elif k in ("s_set", "s_setd"):
            ms = S.ms
            c = ms.cells()[0] if ev[1] == "first" else ms.cells()[-1]
            vid = VID_SSET + (0 if ev[1] == "first" else 1)
            if k == "s_set":
                S.s[cell_idx(c)] = val(T, vid, 2, ms.nf)
            else:
                S.s.set_data(val(T, vid, 2, ms.nf), *c)
            ms.put(c, val(T, vid, 2, ms.nf))
        elif k == "meta":
            if ev[1] == "a":
                v.metadata["a"] = 1
                m.meta["a"] = 1
            else:
                v.metadata.setdefault("b", []).append(2)
                m.meta.setdefault("b", []).append(2)
            m.touch()
        elif k == "copy":
            S.c = v.copy()
            S.mc = m.clone()
            # whether copy() carries metadata over is not pinned: empty or equal by value are both fine
            cm = dict(S.c.metadata)
            S.mc.meta = {} if cm == {} else json.loads(json.dumps(m.meta))
            S.mc.touch()
        elif k.startswith("c_") or k.startswith("w_"):
            x, mx = (S.c, S.mc) if k.startswith("c_") else (S.w, S.mw)
            tag = k[0]
            op = k[2:]
            xc = mx.cells()
            if op == "set":
                vid = VID_CSET if tag == "c" else VID_WSET
                x[cell_idx(xc[0])] = val(T, vid, 2, mx.nf)
                mx.put(xc[0], val(T, vid, 2, mx.nf))
            elif op == "arith":
                operand = 5 if tag == "c" else 7
                f = mx.fields[0]
                x[f] += operand
                mx.arith(0, "add", operand)
            elif op == "add":
                name = "z" + tag
                x.add_fields(name)
                mx.add([name])
            elif op == "rm":
                quiet_remove(x, mx.fields[0])
                mx.remove([mx.fields[0]])
            elif op == "setflat":
                row = 2 if tag == "c" else 3
                x[mx.fields[-1]].set_flattened(np.array(F[row, : mx.total_rows()], copy=True))
                mx.set_flat(mx.nf - 1, F[row])
            elif op == "meta":
                x.metadata[tag] = 3
                mx.meta[tag] = 3
                mx.touch()
            else:
                raise ValueError(ev)
        else:
            raise ValueError(ev)
    except (Broken, AssertionError):
        raise
    except Exception as e:  # the library's reaction IS the behaviour under test
        if must_raise:
            return None
        return ("legitimate_operation_raised", f"{describe(ev, shape)} raised {type(e).__name__}: {str(e)[:160]}")
    if must_raise:
        return ("invalid_operation_rejected", f"{describe(ev, shape)} was accepted (the property needs it rejected: cell width / unique field names)")
    return problem


def describe(ev, shape):
    k = ev[0]
    nd = len(shape)
    if k in ("asg_slice", "asg_list", "setd_slice", "setd_list"):
        member = "s02" if k.endswith("slice") else "lL0"
        idx = lib_index(multi_index(shape, ev[1], member), shape)
        return f"{'v[%r] = [arrays]' % (idx,) if k.startswith('asg') else 'v.set_data([arrays], *%r)' % (idx,)}"
    if k == "asg_vec_self":
        dst, src, _, _ = vec_self_exprs(shape)
        return f"v[{dst!r}] = v[{src!r}]"
    if k == "asg_vec_w":
        return "v[0:1, 0..] = w[0:1, 0..]"
    return f"{ev!r} on a {nd}-d Vector"


# ----------------------------------------------------------------------------- refused operations
def refusals(S, T, F):
    """Every operation of the alphabet that the library refuses in this state: (name, call, footprint).

    Established on /repo HEAD: each of them raises. The property does not promise that a refused operation is
    atomic, so the oracle is a FOOTPRINT oracle (see judge_refusal): footprint = None (nothing may change),
    ("cells", {cell: requested array or None}) or ("column", field index, {cell: requested column or None})."""
    v, m, w = S.v, S.mv, S.w
    shape, nf, nd = m.shape, m.nf, len(m.shape)
    cells = m.cells()
    first, last = cells[0], cells[-1]
    n0 = shape[0]
    rest = (0,) * (nd - 1)
    ci = cell_idx
    tot = m.total_rows()
    pop = m.populated()
    f0, fl_ = m.fields[0], m.fields[-1]
    good = lambda vid, n=1: val(T, vid, n, nf)
    wide = lambda vid, n=1: val(T, vid, n, nf + 1)
    out = []

    def column_request(values, fi):
        """What set_flattened would write where, cell by cell (row-major cursor); a length-1 slice broadcasts."""
        req, cur = {}, 0
        for c, a in pop:
            sl = values[cur : cur + a.shape[0]]
            cur += a.shape[0]
            try:
                sl = np.asarray(sl, dtype=float)
            except (TypeError, ValueError):
                conv = []
                for x in sl:
                    try:
                        conv.append(float(x))
                    except (TypeError, ValueError):
                        conv.append(np.nan)
                sl = np.asarray(conv, dtype=float)
            if sl.shape[0] == a.shape[0]:
                req[c] = sl
            elif sl.shape[0] == 1:
                req[c] = np.full(a.shape[0], sl[0])
            else:
                req[c] = None
        return req

    def flat(name, values, fi=0, via="set_flattened"):
        f = m.fields[fi]
        vals = values
        if via == "set_flattened":
            out.append((name, lambda: v[f].set_flattened(vals), ("column", fi, column_request(np.asarray(values, dtype=object) if isinstance(values, list) else values, fi))))
        else:
            out.append((name, lambda: v.__setitem__(f, vals), ("column", fi, column_request(np.asarray(values, dtype=object) if isinstance(values, list) else values, fi))))

    # --- wrong-length / wrong-shaped flattened input
    flat("setflat_too_long", np.array(F[0, : tot + 1], copy=True))
    if tot >= 1:
        flat("setflat_too_short", np.array(F[0, : tot - 1], copy=True))
        flat("setflat_len0", np.empty((0,)))
        flat("setfield_too_short", [float(x) for x in F[1, : tot - 1]], nf - 1, via="setitem")
        if not any(a.dtype.kind == "b" for _, a in pop):  # a bool cell takes any non-empty string as True
            flat("setflat_strings", ["a"] * tot)
        out.append(("setflat_2d", lambda: v[f0].set_flattened(np.zeros((tot, 1))), None))
    if pop and pop[-1][1].shape[0] >= 2:  # too short, but the tail that is left for the last cell has length 1 and would broadcast
        flat("setflat_tail_broadcasts", np.array(F[0, : tot - pop[-1][1].shape[0] + 1], copy=True))
    if tot >= 2 and not any(a.dtype.kind == "b" for _, a in pop):
        flat("setflat_strings_bad_tail", [repr(float(x)) for x in F[0, : tot - 1]] + ["z"])
    flat("setfield_too_long", [float(x) for x in F[1, : tot + 1]], nf - 1, via="setitem")
    out.append(("setflat_scalar", lambda: v[f0].set_flattened(3.0), None))
    # --- unknown field names
    out.append(("get_unknown_field", lambda: v["nope"], None))
    out.append(("setfield_unknown_field", lambda: v.__setitem__("nope", np.array(F[0, :tot], copy=True)), None))
    out.append(("arith_unknown_field", lambda: v["nope"].__iadd__(1), None))
    # --- field arithmetic with an operand that cannot be applied to every cell
    if any(a.shape[0] >= 0 for _, a in pop):
        out.append(("arith_str_operand", lambda: v[f0].__iadd__("a"), ("column", 0, {c: None for c, _ in pop})))
    if len(pop) >= 2 and pop[0][1].shape[0] >= 2 and any(a.shape[0] != pop[0][1].shape[0] for _, a in pop[1:]):
        r1 = pop[0][1].shape[0]
        operand = np.arange(1.0, r1 + 1.0)
        out.append(("arith_array_operand", lambda: v[f0].__iadd__(operand), ("column", 0, {c: (a[:, 0] + operand if a.shape[0] == r1 else None) for c, a in pop})))
    # --- single-cell values the cell invariant forbids, wrong number of indices, out-of-range indices
    one = ("cells", {first: None})
    out.append(("set_wide", lambda: v.__setitem__(ci(first), wide(2)), one))
    out.append(("set_narrow", lambda: v.__setitem__(ci(first), val(T, 2, 1, nf - 1)), one))
    out.append(("set_1d", lambda: v.__setitem__(ci(last), np.array(T[2, 0, :nf], copy=True)), ("cells", {last: None})))
    out.append(("set_3d", lambda: v.__setitem__(ci(first), good(2).reshape(1, nf, 1)), one))
    out.append(("set_list", lambda: v.__setitem__(ci(first), good(2).tolist()), one))
    out.append(("set_none", lambda: v.__setitem__(ci(first), None), one))
    out.append(("setd_wide", lambda: v.set_data(wide(2, 3), *first), one))
    out.append(("setd_list", lambda: v.set_data(good(2).tolist(), *first), one))
    out.append(("set_too_many_indices", lambda: v.__setitem__(first + (0,), good(2)), one))
    if nd >= 2:
        out.append(("set_too_few_indices", lambda: v.__setitem__(ci(first[:-1]), good(2)), None))
        out.append(("setd_too_few_indices", lambda: v.set_data(good(2), *first[:-1]), None))
    out.append(("set_oob", lambda: v.__setitem__(ci((n0,) + rest), good(2)), None))
    out.append(("set_oob_last_axis", lambda: v.__setitem__(ci(first[:-1] + (shape[-1],)), good(2)), None))
    out.append(("setd_oob", lambda: v.set_data(good(2), *((n0,) + rest)), None))
    out.append(("setd_negative", lambda: v.set_data(good(2), *((-1,) + rest)), None))
    out.append(("get_oob", lambda: v[ci((n0,) + rest)], None))
    out.append(("getd_oob", lambda: v.get_data(*((n0,) + rest)), None))
    out.append(("getd_list_oob", lambda: v.get_data(*(([0, n0],) + rest)), None))
    out.append(("slice_list_oob", lambda: v[ci(([0, n0],) + rest)], None))
    out.append(("slice_zero_length", lambda: v[ci((slice(n0, None),) + rest)], None))
    # --- multi-cell assignment: wrong number of arrays, an invalid array among valid ones, out-of-range / negative list index
    if n0 >= 2:
        t0, t1 = (0,) + rest, (1,) + rest
        sl = ci((slice(0, 2),) + rest)
        args = (slice(0, 2),) + rest
        a0, a1 = good(VID_SLICE, 1), good(VID_SLICE + 1, 3)
        both = lambda x, y: ("cells", {t0: x, t1: y})
        out.append(("asg_slice_count_short", lambda: v.__setitem__(sl, [good(VID_SLICE)]), both(a0, None)))
        out.append(("asg_slice_count_long", lambda: v.__setitem__(sl, [good(VID_SLICE), good(VID_SLICE + 1, 3), good(2)]), both(a0, a1)))
        out.append(("asg_slice_first_wide", lambda: v.__setitem__(sl, [wide(2), good(VID_SLICE + 1, 3)]), both(None, a1)))
        out.append(("asg_slice_second_wide", lambda: v.__setitem__(sl, [good(VID_SLICE), wide(3)]), both(a0, None)))
        out.append(("asg_slice_second_none", lambda: v.__setitem__(sl, [good(VID_SLICE), None]), both(a0, None)))
        out.append(("asg_slice_not_a_list", lambda: v.__setitem__(sl, good(2, 2)), both(None, None)))
        out.append(("asg_list_oob", lambda: v.__setitem__(ci(([0, n0],) + rest), [good(VID_SLICE), good(VID_SLICE + 1, 3)]), ("cells", {t0: a0})))
        out.append(("asg_list_negative", lambda: v.__setitem__(ci(([0, -1],) + rest), [good(VID_SLICE), good(VID_SLICE + 1, 3)]), ("cells", {t0: a0, (n0 - 1,) + rest: a1})))
        out.append(("setd_slice_count_short", lambda: v.set_data([good(VID_SLICE)], *args), both(a0, None)))
        out.append(("setd_slice_count_long", lambda: v.set_data([good(VID_SLICE), good(VID_SLICE + 1, 3), good(2)], *args), both(a0, a1)))
        out.append(("setd_slice_second_wide", lambda: v.set_data([good(VID_SLICE), wide(3)], *args), both(a0, None)))
        out.append(("setd_list_oob", lambda: v.set_data([good(VID_SLICE), good(VID_SLICE + 1, 3)], *(([0, n0],) + rest)), ("cells", {t0: a0})))
        dst, src, dst_cells, src_cells = vec_self_exprs(shape)
        if any(m.get(c) is None for c in src_cells):
            out.append(("asg_vec_unset_source", lambda: v.__setitem__(dst, v[src]), ("cells", {d: m.get(c) for d, c in zip(dst_cells, src_cells)})))
    if S.mw.get(first) is not None and S.mw.nf != nf:
        e = ci((slice(0, 1),) + rest)
        out.append(("asg_vec_wrong_width_source", lambda: v.__setitem__(e, w[e]), one))
    # --- field names
    out.append(("add_existing", lambda: v.add_fields([fl_]), None))
    out.append(("add_new_and_existing", lambda: v.add_fields(["q", f0]), None))
    out.append(("add_duplicate_input", lambda: v.add_fields(["k", "k"]), None))
    return out


def judge_refusal(name, footprint, S):
    """FOOTPRINT oracle for the main Vector after a refused operation: shape / fields / units / metadata unchanged;
    outside the footprint nothing changed; inside it every cell (every column entry) is either its old value or the
    value the operation requested for it — no third value, no row-count change. Returns (problem, partially_applied);
    on success the reference model is set to the observed contents, so that later events are still compared exactly."""
    v, m = S.v, S.mv
    shape, fields, units, cells, meta = read_one(v, m)
    if view_bytes(shape, fields, units, cells, meta) == model_bytes(m):
        return None, False
    if shape != m.shape or fields != m.fields or units != m.units or dict(meta) != m.meta:
        return f"shape / fields / units / metadata changed: {shape} {fields} {units} {dict(meta)}, before {m.shape} {m.fields} {m.units} {m.meta}", False
    kind = footprint[0] if footprint else None
    new = {}
    for c, o in zip(m.cells(), cells):
        old = m.get(c)
        if same_cell(o, old) and (o is None or o.dtype == old.dtype):
            continue
        if kind == "cells" and c in footprint[1]:
            reqd = footprint[1][c]
            if reqd is not None and same_cell(o, reqd) and o.dtype == np.float64:
                new[c] = np.array(o, copy=True)
                continue
            return f"cell {c} = {show(o)} is neither its old value {show(old)} nor the requested {show(reqd)}", False
        if kind == "column" and old is not None and isinstance(o, np.ndarray) and o.shape == old.shape and o.dtype == old.dtype:
            fi = footprint[1]
            others = [k for k in range(old.shape[1]) if k != fi]
            reqd = footprint[2].get(c)
            if reqd is not None and old.dtype != np.float64:
                with np.errstate(all="ignore"):
                    reqd = np.asarray(reqd).astype(old.dtype)  # what the write would store in a cell of that dtype
            if np.array_equal(o[:, others], old[:, others]) and all(o[r, fi] == old[r, fi] or (reqd is not None and o[r, fi] == reqd[r]) for r in range(old.shape[0])):
                new[c] = np.array(o, copy=True)
                continue
            return f"cell {c} = {show(o)}: column {fi} holds a value that is neither the old one {show(old)} nor the requested one {show(reqd)}, or another column / the row count changed", False
        return f"cell {c} outside the operation's footprint changed: {show(o)}, before {show(old)}", False
    for c, a in new.items():
        m.put(c, a)
    return None, True


def refusal_battery(reload, T, F, hist, spec, t, counts, share, only=None, before=(), case_extra=None):
    """All refused operations, one after the other on ONE live object (the history continues after each exception).

    Fast path: the main Vector is judged after every refusal (footprint oracle), the other objects (copy, independent,
    kept slice: must be bit-identical) once at the end; if that final comparison fails the battery is repeated with a
    whole-state comparison after every refusal to attribute the failure. Returns the live state after the battery
    (model = observed contents) or None when something failed."""
    case0 = {"init": list(spec), "history": [list(e) for e in hist]}
    if case_extra:
        case0.update(case_extra)
    where = f"init {spec!r} after {[tuple(e) for e in hist]!r}"

    def run(S, every):
        # in-place writes reach a kept slice through the arrays it shares with its parent (by design, not judged),
        # and a refused field operation may be partly applied: the battery runs without the kept slice
        S.drop_slice()
        done = list(before)
        failed = False
        tried = set()
        todo = refusals(S, T, F)
        while todo:
            name, call, footprint = todo.pop(0)
            if name in tried or (only is not None and name not in only):
                continue
            tried.add(name)
            problem = None
            rel = "refused_operation_stays_in_footprint"
            try:
                with contextlib.redirect_stdout(io.StringIO()):
                    call()
                problem, rel = "was ACCEPTED (on /repo HEAD it raises)", "refused_operation_is_refused"
            except (Broken, AssertionError):
                raise
            except Exception:
                pass
            counts["transitions"] += 1
            counts["ev_refused"] += 1
            t.n += 1
            partial = False
            if problem is None:
                try:
                    problem, partial = judge_refusal(name, footprint, S)
                except Exception as e:
                    problem = f"the main Vector is unreadable afterwards: {type(e).__name__}: {str(e)[:100]}"
            if partial:
                counts["refused_but_partially_applied_" + name] += 1
                todo = refusals(S, T, F)  # requests and enabledness are computed from the model, which just moved
            if problem is None and every:
                fl = []
                compare(S, None, fl)
                if fl:
                    rel = "refused_operation_leaves_other_objects_untouched"
                    problem = "; ".join(msg for _, msg, _ in fl[:2])
            if problem is not None:
                cls = {"relation": rel, "event": "refused", "refusal": name, "ndim": len(S.mv.shape), "aliasing": share}
                t.fail(cls, dict(case0, refusal=name, refusals_before=list(done)), f"{where}: refused operation {name}: {problem}")
                failed = True
                S = reload()  # carry on with the remaining refusals from the untouched state
                S.drop_slice()
                done = list(before)
                todo = refusals(S, T, F)
                continue
            done.append(name)
        return S, failed, done

    S, failed, done = run(reload(), False)
    fl = []
    parts, sig, sh = compare(S, None, fl)
    if fl and not failed:
        S, failed, done = run(reload(), True)
        if not failed:  # cannot be attributed to one refusal: report the battery as a whole
            t.fail({"relation": "refused_operation_leaves_other_objects_untouched", "event": "refused", "refusal": "battery", "ndim": len(S.mv.shape), "aliasing": share}, dict(case0, refusals_before=list(done)), f"{where}: after the refused operations {done}: {fl[0][1]}")
            failed = True
    if failed or fl:
        return None, done
    S.parts = parts
    return S, done


# ----------------------------------------------------------------------------- reading the live objects
SEAM = {"data_fallback": 0}


def _walk(d, shape, k, out):
    if not isinstance(d, list) or len(d) != shape[k]:
        return False
    if k == len(shape) - 1:
        out.extend(d)
        return True
    for x in d:
        if not _walk(x, shape, k + 1, out):
            return False
    return True


def read_cells(vec, shape, cells):
    """All cells in row-major order. Hot path: the public `data` property (documented: the nested list structure
    holding the cells). If it is missing or not a nested list of the Vector's shape, fall back to one v[int index]
    per cell (counted, reported as seam_missing). v[int index] itself is compared with the model for every cell
    in every expanded state (observer tiers 'full' and 'reduced')."""
    d = getattr(vec, "data", None)
    out = []
    if isinstance(d, list) and _walk(d, shape, 0, out):
        return out
    SEAM["data_fallback"] += 1
    return [vec[cell_idx(c)] for c in cells]


def read_one(vec, m):
    """One pass over the public API: shape, fields, units, every cell, metadata."""
    shape = tuple(vec.shape)
    return (shape, list(vec.fields), list(vec.units), read_cells(vec, shape if shape == m.shape else m.shape, m.cells()), vec.metadata)


def view_bytes(shape, fields, units, cells, meta):
    h = [repr((tuple(shape), list(fields), list(units))).encode(), json.dumps(meta, sort_keys=True, default=repr).encode() if meta else b"{}"]
    for a in cells:
        if a is None:
            h.append(b"N")
        elif isinstance(a, np.ndarray):
            h.append(b"A" + repr(a.shape).encode() + a.dtype.str.encode())
            h.append(np.ascontiguousarray(a).tobytes())
        else:
            h.append(b"X" + type(a).__name__.encode())
    return b"|".join(h)


def model_bytes(m):
    if m._bytes is None:
        m._bytes = view_bytes(m.shape, m.fields, m.units, [m.get(c) for c in m.cells()], m.meta)
    return m._bytes


def diff_one(who, vec, m):
    """First discrepancy between a live Vector and its model: (relation, message) or None."""
    if vec is None:
        return None
    if tuple(vec.shape) != m.shape:
        return ("shape", f"{who}: shape {vec.shape!r}, model {m.shape!r}")
    fields, units = list(vec.fields), list(vec.units)
    if len(set(fields)) != len(fields) or len(units) != len(fields) or vec.num_fields != len(fields):
        return ("fields_unique_and_1to1_with_units", f"{who}: fields {fields!r} units {units!r} num_fields {vec.num_fields}")
    if fields != m.fields:
        return ("fields_equal_model", f"{who}: fields {fields!r}, model {m.fields!r}")
    if units != m.units:
        return ("units_follow_fields", f"{who}: fields {fields!r} have units {units!r}, model says {m.units!r}")
    for c in m.cells():
        a, b = vec[cell_idx(c)], m.get(c)
        if a is None or b is None:
            if (a is None) != (b is None):
                return ("cells_equal_model", f"{who}: cell {c} is {'unset' if a is None else 'populated ' + repr(getattr(a, 'shape', a))}, model says {'unset' if b is None else 'populated ' + repr(b.shape)}")
            continue
        if not isinstance(a, np.ndarray) or a.ndim != 2 or a.shape[1] != len(fields):
            return ("cell_is_2d_with_num_fields_columns", f"{who}: cell {c} is {type(a).__name__} of shape {getattr(a, 'shape', None)!r} with {len(fields)} fields")
        if a.shape != b.shape or not np.array_equal(a, b):
            return ("cells_equal_model", f"{who}: cell {c} = {np.asarray(a).tolist()!r}, model says {b.tolist()!r}")
        if a.dtype != b.dtype:
            return ("cells_equal_model", f"{who}: cell {c} has dtype {a.dtype}, model float64")
    if dict(vec.metadata) != m.meta:
        return ("metadata_equal_model", f"{who}: metadata {dict(vec.metadata)!r}, model says {m.meta!r}")
    return None


def compare(S, ev, fails):
    """Whole-triple comparison after event ev (None: no event, e.g. after observers).

    Reads every object once through the public API. Returns (parts, sig, share): the canonical bytes
    per object, and the object-sharing pattern of the cells of main / copy / independent — part of the
    canonical state (states with different sharing have different futures) and of the failure class.
    Equality of the canonical bytes with the model's implies the structural invariants, because the
    model satisfies them by construction (Model.check_self): every populated cell 2-D with num_fields
    columns, fields unique, one unit per field."""
    tgt = target_of(ev) if ev is not None else None
    parts = []
    first = {}
    sig = []
    flags = set()
    pos = 0
    for who, vec, m in S.triple():
        if vec is None:
            parts.append(b"-")
            sig.append(-1)
            continue
        try:
            shape, fields, units, cells, meta = read_one(vec, m)
            ib = view_bytes(shape, fields, units, cells, meta)
        except Exception as e:
            fails.append(("readable", f"{who}: reading shape/fields/units/cells raised {type(e).__name__}: {str(e)[:120]}", who))
            parts.append(b"?")
            sig.append(-3)
            continue
        for a in cells:
            if isinstance(a, np.ndarray):
                prev = first.get(id(a))
                if prev is None:
                    first[id(a)] = (who, pos)
                    sig.append(pos)
                else:
                    sig.append(prev[1])
                    flags.add("within_" + who if prev[0] == who else prev[0] + "_with_" + who)
            else:
                sig.append(-2)
            pos += 1
        parts.append(ib)
        if ib != model_bytes(m):
            try:
                d = diff_one(who, vec, m)
            except Exception as e:
                d = ("readable", f"{who}: reading the state raised {type(e).__name__}: {str(e)[:120]}")
            if d is None:
                d = ("state_equals_model", f"{who}: canonical bytes differ from the model")
            rel, msg = d
            if tgt is not None and who != tgt:
                if {tgt, who} == {"main", "slice"}:
                    rel = "whole_cell_replacement_is_local"
                    msg = f"replacing a whole cell of the {tgt} Vector changed what the {'kept slice' if who == 'slice' else 'parent (main) Vector'} holds — {msg}"
                else:
                    rel = "mutation_not_visible_in_other_vector"
                    msg = f"an operation on the {tgt} Vector changed the {who} Vector — {msg}"
            fails.append((rel, msg, who))
    return parts, tuple(sig), "+".join(sorted(flags)) or "none"


def state_key(parts, sig, sk=None):
    h = hashlib.blake2b(b"#".join(parts), digest_size=8)
    h.update(repr((sig, sk)).encode())  # the spelling of a kept slice is part of the state: fine canonicalisation
    return int.from_bytes(h.digest(), "little")


# ----------------------------------------------------------------------------- observers
def same_cell(a, b):
    if a is None or b is None:
        return a is None and b is None
    return isinstance(a, np.ndarray) and a.shape == b.shape and np.array_equal(a, b)


def show(a):
    return "unset" if a is None else (np.asarray(a).tolist() if isinstance(a, np.ndarray) else repr(a))


def observe(S, tier, fails, counts):
    """Read-only members of the alphabet on the main Vector, each compared with the model.
    fails gets (relation, message, extra-cls) entries."""
    v, m = S.v, S.mv
    Vector = V()
    shape, nd = m.shape, len(m.shape)
    # flatten / field flatten = row-major concatenation, and what they return is a snapshot, not a window onto the
    # Vector's storage (the same returned arrays serve both checks)
    kept = []
    try:
        got = v.flatten()
        exp = m.stacked()
        counts["obs_flatten"] += 1
        kept.append(("v.flatten()", got, exp))
        if not (isinstance(got, np.ndarray) and got.shape == exp.shape and np.array_equal(got, exp)):
            fails.append(("flatten_is_row_major_concatenation", f"v.flatten() = {show(got)}, model says {exp.tolist()}", {"observer": "flatten"}))
    except Exception as e:
        fails.append(("flatten_is_row_major_concatenation", f"v.flatten() raised {type(e).__name__}: {str(e)[:120]}", {"observer": "flatten"}))
    for fi, f in enumerate(m.fields):
        try:
            got = v[f].flatten()
            exp = m.column(fi)
            counts["obs_field_flatten"] += 1
            kept.append((f"v[{f!r}].flatten()", got, exp))
            if not (isinstance(got, np.ndarray) and got.shape == exp.shape and np.array_equal(got, exp)):
                fails.append(("field_flatten_is_row_major_concatenation", f"v[{f!r}].flatten() = {show(got)}, model says {exp.tolist()}", {"observer": "field_flatten"}))
        except Exception as e:
            fails.append(("field_flatten_is_row_major_concatenation", f"v[{f!r}].flatten() raised {type(e).__name__}: {str(e)[:120]}", {"observer": "field_flatten"}))
    if not fails:
        try:
            p = check_kept(kept, S)
            counts["obs_flatten_independent"] += 1
            if p:
                fails.append((p[0], p[1], {"observer": "flatten_independent", "populated_cells": len(m.populated())}))
        except Exception:
            pass
    # every cell through v[int index] (the hot-path comparison reads the cells through the `data` property)
    if tier != "mini":
        for c in m.cells():
            try:
                got = v[cell_idx(c)]
                counts["obs_cell_get"] += 1
                if not same_cell(got, m.get(c)):
                    fails.append(("cell_get_equals_model", f"v[{cell_idx(c)!r}] = {show(got)}, model says {show(m.get(c))}", {"observer": "cell_get", "ndim": nd}))
            except Exception as e:
                fails.append(("cell_get_equals_model", f"v[{cell_idx(c)!r}] raised {type(e).__name__}: {str(e)[:120]}", {"observer": "cell_get", "ndim": nd}))
    # index expressions: slicing to a new Vector / cell get, and get_data
    for expr in exprs_for(shape, tier):
        axes = model_axes(expr, shape)
        all_int = len(expr) == nd and all(mm in ("0", "L") for mm in expr)
        lens = tuple(len(a) for a in axes)
        if 0 in lens:
            continue  # zero-length selections are outside the alphabet
        idx = lib_index(expr, shape)
        cls_extra = {"observer": "slice", "ndim": nd, "mixed_int_and_multi": (not all_int) and any(mm in ("0", "L") for mm in expr), "partial_index": len(expr) < nd}
        try:
            s = v[idx]
            counts["obs_slice"] += 1
            if all_int:
                exp = m.get(tuple(a[0] for a in axes))
                if not same_cell(s, exp):
                    fails.append(("cell_get_equals_model", f"v[{idx!r}] = {show(s)}, model says {show(exp)}", {"observer": "cell_get", "ndim": nd}))
                elif tier != "mini":
                    col = v[m.fields[-1]][idx]  # field view indexed with integers: that column of the cell (None when unset)
                    counts["obs_field_view_index"] += 1
                    if not same_cell(col, None if exp is None else exp[:, m.nf - 1]):
                        fails.append(("field_view_index_returns_addressed_column", f"v[{m.fields[-1]!r}][{idx!r}] = {show(col)}, model says {show(None if exp is None else exp[:, m.nf - 1])}", {"observer": "field_view_index", "ndim": nd}))
            else:
                if not isinstance(s, Vector):
                    fails.append(("slice_returns_vector", f"v[{idx!r}] returned {type(s).__name__}", cls_extra))
                elif tuple(s.shape) != lens:
                    fails.append(("sliced_vector_holds_addressed_cells", f"v[{idx!r}].shape = {tuple(s.shape)!r}, model says {lens!r} (integer axes are kept with length 1)", cls_extra))
                elif list(s.fields) != m.fields or list(s.units) != m.units:
                    fails.append(("sliced_vector_keeps_schema", f"v[{idx!r}] has fields {s.fields!r} units {s.units!r}, source {m.fields!r} {m.units!r}", cls_extra))
                else:
                    outs = list(itertools.product(*[range(n) for n in lens]))
                    got_cells = read_cells(s, lens, outs)
                    for out, got in zip(outs, got_cells):
                        exp = m.get(tuple(axes[k][out[k]] for k in range(nd)))
                        if not same_cell(got, exp):
                            fails.append(("sliced_vector_holds_addressed_cells", f"v[{idx!r}] cell {out} = {show(got)}, model says source cell {tuple(axes[k][out[k]] for k in range(nd))} = {show(exp)}", cls_extra))
                            break
                    else:
                        if tier != "mini":
                            # the same through flatten() of the sliced Vector and through the field view v[f][expr]
                            pop = [a for a in (m.get(c) for c in itertools.product(*axes)) if a is not None]
                            exp_flat = np.vstack(pop) if pop else np.empty((0, m.nf))
                            got_flat = s.flatten()
                            if not (isinstance(got_flat, np.ndarray) and got_flat.shape == exp_flat.shape and np.array_equal(got_flat, exp_flat)):
                                fails.append(("sliced_vector_holds_addressed_cells", f"v[{idx!r}].flatten() = {show(got_flat)}, model says {exp_flat.tolist()}", cls_extra))
                            got_col = v[m.fields[-1]][idx].flatten()
                            counts["obs_field_view_index"] += 1
                            if not (isinstance(got_col, np.ndarray) and got_col.shape == (exp_flat.shape[0],) and np.array_equal(got_col, exp_flat[:, m.nf - 1])):
                                fails.append(("field_view_index_returns_addressed_column", f"v[{m.fields[-1]!r}][{idx!r}].flatten() = {show(got_col)}, model says {exp_flat[:, m.nf - 1].tolist()}", {"observer": "field_view_index", "ndim": nd}))
        except Exception as e:
            fails.append(("sliced_vector_holds_addressed_cells", f"v[{idx!r}] raised {type(e).__name__}: {str(e)[:120]}", cls_extra))
        if len(expr) == nd and tier != "mini":
            args = [member_index(mm, n) for mm, n in zip(expr, shape)]
            cls_g = {"observer": "get_data", "ndim": nd, "multi": not all_int}
            try:
                got = v.get_data(*args)
                counts["obs_get_data"] += 1
                exp = [m.get(c) for c in itertools.product(*axes)]
                if all(n == 1 for n in lens):
                    # every axis addresses one position: the library returns the bare cell; a list of one is accepted too
                    ok = same_cell(got, exp[0]) or (isinstance(got, list) and len(got) == 1 and same_cell(got[0], exp[0]))
                else:
                    ok = isinstance(got, list) and len(got) == len(exp) and all(same_cell(g, e) for g, e in zip(got, exp))
                if not ok:
                    fails.append(("get_data_returns_addressed_cells", f"v.get_data(*{args!r}) = {[show(g) for g in got] if isinstance(got, list) else show(got)}, model says {[show(e) for e in exp]}", cls_g))
            except Exception as e:
                fails.append(("get_data_returns_addressed_cells", f"v.get_data(*{args!r}) raised {type(e).__name__}: {str(e)[:120]}", cls_g))


def roundtrip(S, fails, counts, whole=True):
    """Writing a flattened field back changes nothing. The write goes through the main Vector; afterwards the
    whole triple is compared with the model (whole=True) or, in states of the last BFS level, the main Vector
    only (the values written are the values already there, so no other object can change either)."""
    v, m = S.v, S.mv
    for fi, f in enumerate(m.fields):
        try:
            if fi % 2 == 0:
                v[f].set_flattened(v[f].flatten())
            else:
                v[f] = v[f].flatten()
            counts["obs_roundtrip"] += 1
        except Exception as e:
            fails.append(("flatten_roundtrip_restores_data", f"writing v[{f!r}].flatten() back raised {type(e).__name__}: {str(e)[:120]}", {"observer": "roundtrip"}))
            return
    sub = []
    if whole:
        compare(S, None, sub)
    else:
        try:
            if view_bytes(*read_one(v, m)) != model_bytes(m):
                d = diff_one("main", v, m) or ("state_equals_model", "main: canonical bytes differ from the model")
                sub.append((d[0], d[1], "main"))
        except Exception as e:
            sub.append(("readable", f"main: {type(e).__name__}: {str(e)[:120]}", "main"))
    for rel, msg, who in sub:
        fails.append(("flatten_roundtrip_restores_data", f"after writing every field's flattened view back: {msg}", {"observer": "roundtrip"}))


# ----------------------------------------------------------------------------- building / cloning states
def build_init(spec, seed):
    kind, a, nf = spec
    T, F = tables(seed)
    Vector = V()
    # restore module-level mutable state through the public API: should Vectors ever share one metadata
    # dict (the defect fixed by cd9d2b6), what an earlier execution wrote into it must not leak into this one
    Vector.from_shape((1,), num_fields=1).metadata.clear()
    S = State()
    S.c, S.mc = None, None
    S.s, S.ms, S.sk = None, None, None
    if kind == "one":
        shape = tuple(a)
        cell = (0, 1) if shape == (2, 2) else (0,) * len(shape)

        def mk1(vid):
            if nf == 1:
                vec, mod = Vector.from_shape(shape, num_fields=1), Model(shape, ["field_0"], ["none"])
            else:
                vec, mod = Vector.from_shape(shape=shape, fields=FIELDS[:nf], units=UNITS[:nf]), Model(shape, FIELDS[:nf], UNITS[:nf])
            vec[cell_idx(cell)] = val(T, vid, 3, nf)
            mod.put(cell, val(T, vid, 3, nf))
            return vec, mod

        S.v, S.mv = mk1(VID_INIT_V)
        S.w, S.mw = mk1(VID_INIT_W)
    elif kind == "shape":
        shape = tuple(a)

        def mk():
            if nf == 1:
                return Vector.from_shape(shape, num_fields=1), Model(shape, ["field_0"], ["none"])
            if nf == 2:
                return Vector.from_shape(shape=shape, fields=FIELDS[:2], units=UNITS[:2]), Model(shape, FIELDS[:2], UNITS[:2])
            return Vector.from_shape(shape, num_fields=3, fields=tuple(FIELDS), units=tuple(UNITS), name="vec"), Model(shape, FIELDS, UNITS)

        S.v, S.mv = mk()
        S.w, S.mw = mk()
    else:
        rows = tuple(a)
        shape = (len(rows),)
        dt = kind[5:] if kind.startswith("data_") else None  # "data_int64" / "data_uint8" / "data_bool": integer-typed cells

        def cast(x):
            if dt is None:
                return x
            return (np.floor(x) % 2 == 1) if dt == "bool" else np.floor(x).astype(dt)

        def mk(base):
            arrs = [cast(val(T, base + i, n, nf)) for i, n in enumerate(rows)]
            if nf == 2:
                vec = Vector.from_data(arrs, fields=FIELDS[:2], units=UNITS[:2], name="ragged")
                mod = Model(shape, FIELDS[:2], UNITS[:2])
            elif nf == 1:
                vec = Vector.from_data([x.tolist() for x in arrs], num_fields=1)
                mod = Model(shape, ["field_0"], ["none"])
            else:
                vec = Vector.from_data(arrs, fields=list(FIELDS))
                mod = Model(shape, FIELDS, ["none"] * 3)
            for i, n in enumerate(rows):
                mod.put((i,), cast(val(T, base + i, n, nf)))
            return vec, mod

        S.v, S.mv = mk(VID_INIT_V)
        S.w, S.mw = mk(VID_INIT_W)
    return S


def dump(S):
    """One pickle of all live objects: objects shared between them (cell arrays, row lists) stay shared after loading."""
    return pickle.dumps((S.v, S.c, S.w, S.s), protocol=pickle.HIGHEST_PROTOCOL)


def load(blob, M, target=None):
    """Live objects from a pickle + models M = State.models(). A model object is only ever mutated by apply_event, and
    only the model of the object the event addresses, so only that one needs a private clone (target=None: all)."""
    mv, mc, mw, ms, sk = M
    S = State()
    S.v, S.c, S.w, S.s = pickle.loads(blob)
    S.mv = mv.clone() if target in (None, "main") else mv
    S.mc = mc.clone() if (mc is not None and target in (None, "copy")) else mc
    S.mw = mw.clone() if target in (None, "independent") else mw
    S.ms = ms.clone() if (ms is not None and target in (None, "slice")) else ms
    S.sk = sk
    return S


def frozen_models(S):
    return (S.mv.clone(), S.mc.clone() if S.mc is not None else None, S.mw.clone(), S.ms.clone() if S.ms is not None else None, S.sk)


def mk_cls(rel, ev, S_shape, share, extra=None):
    cls = {"relation": rel, "event": ev[0] if ev else "init", "ndim": len(S_shape), "aliasing": share}
    if ev and ev[0] in ("asg_slice", "asg_list", "setd_slice", "setd_list"):
        cls["first_axis"] = ev[1] == 0
    if rel == "whole_cell_replacement_is_local":
        cls.pop("aliasing", None)  # the oracle is deliberately independent of whether slice and parent share arrays
    if extra:
        cls.update(extra)
    return cls


def step(S, ev, seed, hist, spec, t, counts, obs_tier, pre_share, case_extra=None):
    """One transition on a live state (in place). Returns (ok, key, sharing). Failures are recorded on t."""
    T, F = tables(seed)
    shape = S.mv.shape
    case = {"init": list(spec), "history": [list(e) for e in hist]}
    if case_extra:
        case.update(case_extra)
    where = f"init {spec!r} after {[tuple(e) for e in hist]!r}"
    kept = None
    if ev[0] in KEEP_EVENTS:
        try:
            kept = take_flat(S.v, S.mv)
        except Exception:
            kept = None  # a failing flatten is reported by the observers of the pre-state
    imm = apply_event(S, ev, T, F)
    if kept is not None and imm is None:
        try:
            imm = check_kept(kept, S)
            counts["kept_flatten_checks"] += 1
        except Exception as e:
            imm = ("readable", f"reading the cells after {ev!r} raised {type(e).__name__}: {str(e)[:120]}")
    # the byte cache of a model may only ever serve the objects the event did NOT address
    tgt = target_of(ev)
    for who, vec, m in S.triple():
        if m is not None and (who == tgt or ev[0] in ("copy", "slice")):
            m.touch()
    ok = True
    if imm is not None:
        t.fail(mk_cls(imm[0], ev, shape, pre_share), case, f"{where}: {imm[1]}")
        ok = False
    fl = []
    parts, sig, share = compare(S, ev, fl)
    for rel, msg, who in fl:
        extra = {"object": who}
        if rel == "whole_cell_replacement_is_local" and S.sk is not None:
            extra["spelling"] = SLICES[len(shape)][S.sk][1]
            msg += f" [slice taken as v[{lib_index(SLICES[len(shape)][S.sk][0], shape)!r}]]"
        t.fail(mk_cls(rel, ev, shape, pre_share, extra), case, f"{where}: {msg}")
        ok = False
    for who, vec, m in S.triple():
        if m is not None:
            m.check_self()
    if not ok:
        return False, None, None
    S.parts = parts
    return True, state_key(parts, sig, S.sk), share


def run_observers(S, tier, hist, spec, t, counts, share):
    """Observers in a state whose triple was just compared (S.parts = canonical bytes per object)."""
    shape = S.mv.shape
    case = {"init": list(spec), "history": [list(e) for e in hist], "observers": tier}
    where = f"init {spec!r} after {[tuple(e) for e in hist]!r}"
    fl = []
    if getattr(S, "parts", None) is None:
        S.parts = compare(S, None, [])[0]
    observe(S, tier, fl, counts)
    try:  # observers act on the main Vector only: it must read back byte-identical
        if view_bytes(*read_one(S.v, S.mv)) != S.parts[0]:
            fl.append(("observers_do_not_mutate", "a read-only operation (get / get_data / slice / flatten) changed the main Vector", {"observer": "any"}))
    except Exception as e:
        fl.append(("observers_do_not_mutate", f"the main Vector is unreadable after read-only operations: {type(e).__name__}", {"observer": "any"}))
    roundtrip(S, fl, counts, whole=tier != "mini")
    ev = hist[-1] if hist else None
    for rel, msg, extra in fl:
        cls = mk_cls(rel, ev, shape, share, extra)
        cls["event"] = "observe"
        t.fail(cls, case, f"{where}: {msg}")
    return not fl


# ----------------------------------------------------------------------------- BFS shard
def run_history(spec, hist, seed, t, counts, observers="reduced", stop_on_fail=True):
    """Replay a history from scratch (fresh objects). Returns (S, key, share, ok)."""
    S = build_init(spec, seed)
    fl = []
    parts, sig, share = compare(S, None, fl)
    S.parts = parts
    key = state_key(parts, sig, S.sk)
    ok = True
    for rel, msg, who in fl:
        t.fail(mk_cls(rel, None, S.mv.shape, share, {"object": who}), {"init": list(spec), "history": []}, f"init {spec!r}: {msg}")
        ok = False
    done = []
    for ev in hist:
        ev = tuple(ev)
        if not enabled(ev, S):
            counts["disabled_skipped"] += 1
            continue
        done.append(ev)
        good, key2, share2 = step(S, ev, seed, done, spec, t, counts, None, share)
        if not good:
            ok = False
            if stop_on_fail:
                return S, None, share, False
            continue
        key, share = key2, share2
    return S, key, share, ok


def packed(keys):
    return np.array(sorted(keys), dtype=np.uint64).tobytes()


def shape_of(spec):
    return tuple(spec[1]) if spec[0] in ("shape", "one") else (len(spec[1]),)


FOLLOW = [("arith", "add", "f0"), ("set", "last", 1), ("setflat", "f0"), ("arith", "mul", "flast"), ("asg_all",), ("setfield", "flast")]


def after_refusals(blob, M, share, hist, EV, seed, spec, t, counts):
    """The refused operations of this state on one live object, then the history goes on from there: flatten / field
    flatten / round trip observers and one legal event (chosen round-robin by the history) compared with the model."""
    T, F = tables(seed)
    S, done = refusal_battery(lambda: load(blob, M, None), T, F, hist, spec, t, counts, share)
    if S is None:
        return
    extra = {"refusals_before": list(done)}
    fl = []
    observe(S, "mini", fl, counts)
    roundtrip(S, fl, counts, whole=False)
    for rel, msg, ex in fl:
        cls = mk_cls(rel, None, S.mv.shape, share, ex)
        cls["event"] = "observe_after_refused"
        t.fail(cls, dict({"init": list(spec), "history": [list(e) for e in hist]}, **extra), f"init {spec!r} after {hist!r} and the refused operations {done}: {msg}")
    if fl:
        return
    ev = FOLLOW[sum(EV.index(e) for e in hist) % len(FOLLOW)]
    if enabled(ev, S):
        step(S, ev, seed, hist + [ev], spec, t, counts, None, share, dict(extra, follow_after_refusals=True))
        counts["transitions"] += 1
        counts["ev_follow_after_refused"] += 1
        t.n += 1


# ----------------------------------------------------------------------------- cross-object operations
def check_obj(who, vec, m):
    shape, fields, units, cells, meta = read_one(vec, m)
    if view_bytes(shape, fields, units, cells, meta) == model_bytes(m):
        return None
    return diff_one(who, vec, m) or ("state_equals_model", f"{who}: canonical bytes differ from the model")


def cross_objects(blob, M, share, hist, spec, seed, t, counts, full=True):
    """Legal operations that move data BETWEEN the objects of a state, chained on one live state: main, copy,
    independent, kept slice (as a source for objects that share nothing with it), plus copy.deepcopy(main), a pickle
    round trip of main (first made different from main by in-place arithmetic, then used alternately with it) and
    copy.copy(main) (a Python shallow copy: shares everything with main by language semantics, used as a source only).
    For every ordered pair (dst, src) with compatible row structure and for the same and for a different field name:
    dst[f] = src[g] (a field view on the right), dst[f] = src[g].flatten(), dst[f].set_flattened(src[g]),
    dst[f] += src[g] (where one populated cell makes a view operand legal), and at the end dst[cell] = src[cell] and
    dst.set_data(src.get_data(*cell), *cell). Model: dst's column / cell holds src's current values, src and every
    other object unchanged. dst and src are compared after every operation, all objects at the end."""
    case0 = {"init": list(spec), "history": [list(e) for e in hist], "cross": True}
    where = f"init {spec!r} after {[tuple(e) for e in hist]!r}"

    def fresh():
        S = load(blob, M, None)
        objs = {"main": [S.v, S.mv], "independent": [S.w, S.mw]}
        if S.c is not None:
            objs["copy"] = [S.c, S.mc]
        objs["deepcopy"] = [_copy.deepcopy(S.v), S.mv.clone()]
        if full:
            objs["pickle"] = [pickle.loads(pickle.dumps(S.v)), S.mv.clone()]
        src_only = {"shallow_copy": [_copy.copy(S.v), S.mv]}  # alias of main: its model IS main's model
        if S.s is not None:
            src_only["slice"] = [S.s, S.ms]
        # make the two deep copies differ from main (and from each other) before they are used alternately with it
        for who, k in (("deepcopy", 11), ("pickle", 13)):
            if who not in objs:
                continue
            vec, m = objs[who]
            for fi, f in enumerate(m.fields):
                vec[f] += k + fi
                m.arith(fi, "add", k + fi)
        return S, objs, src_only

    def plan(objs, src_only):
        names = list(objs)
        # a kept slice shares its arrays with main (by design): it is only a reliable source BEFORE main is written in
        # place, so its pairs come first and it is not used for the cell spellings at the end of the chain
        pairs = [(d, s_) for d in ("deepcopy", "pickle") if d in objs for s_ in src_only]
        pairs += [(d, s_) for d in names for s_ in names if d != s_]
        if not full:
            # states of depth >= 2: the pairs around main and the view spellings only (everything in states of depth <= 1)
            keep = {("main", "deepcopy"), ("deepcopy", "main"), ("main", "copy"), ("copy", "main"), ("deepcopy", "slice"), ("deepcopy", "shallow_copy")}
            pairs = [p_ for p_ in pairs if p_ in keep]
        ops = []
        for d, s_ in pairs:
            for same in (True, False):
                for kind in ("assign_view", "assign_flatten", "set_flattened_view", "iadd_view") if full else ("assign_view", "set_flattened_view"):
                    ops.append((kind, d, s_, same))
        for d, s_ in pairs:
            if s_ != "slice":
                ops += [("assign_cell", d, s_, True)] + ([("set_data_from_get_data", d, s_, True)] if full else [])
        return ops

    S, objs, src_only = fresh()
    done = []
    for op in plan(objs, src_only):
        kind, d, s_, same = op
        dv, dm = objs[d]
        sv, sm = (objs.get(s_) or src_only[s_])
        problem = None
        try:
            if kind in ("assign_cell", "set_data_from_get_data"):
                if dm.shape != sm.shape or dm.nf != sm.nf:
                    continue
                cell = next((c for c, a in sm.populated()), None)
                if cell is None:
                    continue
                if kind == "assign_cell":
                    dv[cell_idx(cell)] = sv[cell_idx(cell)]
                else:
                    dv.set_data(sv.get_data(*cell), *cell)
                dm.put(cell, sm.get(cell))
                f = g = None
            else:
                if dm.total_rows() != sm.total_rows() or dm.total_rows() == 0:
                    continue
                if same:
                    common = [x for x in dm.fields if x in sm.fields]
                    if not common:
                        continue
                    f = g = common[0]
                else:
                    f = dm.fields[0]
                    g = next((x for x in reversed(sm.fields) if x != f), None)
                    if g is None:
                        continue
                fi, gi = dm.fields.index(f), sm.fields.index(g)
                if kind == "iadd_view":
                    pop = dm.populated()
                    if len(pop) != 1 or pop[0][1].shape[0] != sm.total_rows():
                        continue  # a whole-column operand only fits when dst has exactly one populated cell
                    operand = sm.column(gi)
                    dv[f] += sv[g]
                    dm.set_flat(fi, dm.column(fi) + operand)
                else:
                    if np.array_equal(dm.column(fi), sm.column(gi)):  # nothing to see if they already agree
                        dv[f] += 7
                        dm.arith(fi, "add", 7)
                    col = sm.column(gi)
                    if kind == "assign_view":
                        dv[f] = sv[g]
                    elif kind == "assign_flatten":
                        dv[f] = sv[g].flatten()
                    else:
                        dv[f].set_flattened(sv[g])
                    dm.set_flat(fi, col)
            dm.touch()
            problem = check_obj(d, dv, dm) or (check_obj(s_, sv, sm) if s_ not in ("shallow_copy",) or d != "main" else None)
            if problem is None and d == "main" and "shallow_copy" in src_only:
                pass  # the shallow copy follows main by language semantics; not judged
        except (Broken, AssertionError):
            raise
        except Exception as e:
            problem = ("legitimate_operation_raised", f"raised {type(e).__name__}: {str(e)[:120]}")
        counts["transitions"] += 1
        counts["ev_cross_" + kind] += 1
        t.n += 1
        done.append([kind, d, s_, "same_field_name" if same else "different_field_name"])
        if problem:
            cls = {"relation": "cross_object_operation_equals_model" if problem[0] != "legitimate_operation_raised" else problem[0], "event": "cross", "op": kind, "dst": d, "src": s_, "same_field_name": bool(same), "ndim": len(S.mv.shape)}
            t.fail(cls, dict(case0, ops=list(done)), f"{where}: {kind} dst={d} src={s_} ({'same' if same else 'different'} field name{'' if f is None else f', dst[{f!r}] <- src[{g!r}]'}): {problem[1]}")
            S, objs, src_only = fresh()
            done = []
    # everything else untouched: the state's own objects against their models, the extra objects against theirs
    fl = []
    S.mv, S.mw = objs["main"][1], objs["independent"][1]
    if "copy" in objs:
        S.mc = objs["copy"][1]
    S.drop_slice()  # cells handed from object to object by dst[cell] = src[cell] are shared by design of that spelling
    compare(S, None, fl)
    for rel, msg, who in fl:
        t.fail({"relation": "cross_object_operation_leaves_others_untouched", "event": "cross", "object": who, "ndim": len(S.mv.shape)}, dict(case0, ops=list(done)), f"{where}: after the cross-object operations {done[-3:]}: {msg}")


def expand_one(blob, M, share, hist, EV, seed, spec, t, counts, last=False):
    """Every enabled event from one live state (given as a pickle + models). Yields (ei, S2, key, sharing) for the
    transitions whose result agrees with the model; failures are recorded on t and not yielded."""
    probe = State()
    probe.mv, probe.mc, probe.mw, probe.ms, probe.sk = M
    for ei, ev in enumerate(EV):
        if not enabled(ev, probe) or (last and ev[0] == "slice"):  # decided on the models alone; a kept slice
            counts["not_enabled"] += 1  # only matters if a later event can follow, so none is taken at the last level
            continue
        S2 = load(blob, M, target_of(ev))
        good, k2, sh2 = step(S2, ev, seed, hist + [ev], spec, t, counts, None, share)
        counts["transitions"] += 1
        counts["ev_" + ev[0]] += 1
        t.n += 1
        if good:
            yield ei, S2, k2, sh2
    after_refusals(blob, M, share, hist, EV, seed, spec, t, counts)
    cross_objects(blob, M, share, hist, spec, seed, t, counts, full=len(hist) <= 1)


def shard_a(item, seed=0, full_depth1=True):
    """Phase A. item = (init index, first event index or -1, keys of the init state and of all depth-1 states).

    first = -1: the initial state with the full observer set, and every depth-1 transition.
    first >= 0: the depth-1 state reached by that event with the full observer set, and every transition out
    of it; the new depth-2 states are handed back as (key, event index) for global dedup in the parent."""
    ii, first, known = item
    spec = INITS[ii]
    t = Tally()
    counts = t.extra
    EV = events_for(shape_of(spec))
    states = set()
    hist0 = [] if first < 0 else [EV[first]]
    # the transition into a depth-1 state is counted (and its failures recorded) by the root shard
    S, key, share, ok = run_history(spec, hist0, seed, t if first < 0 else Tally(), Tally().extra)
    if not ok or key is None:
        return t
    states.add(key)
    run_observers(S, "full" if (first < 0 or full_depth1) else "reduced", hist0, spec, t, counts, share)
    S, key, share, ok = run_history(spec, hist0, seed, Tally(), Tally().extra)  # fresh objects after the observers
    new = []
    local = set()
    for ei, S2, k2, sh2 in expand_one(dump(S), S.models(), share, hist0, EV, seed, spec, t, counts):
        if first < 0:
            states.add(k2)
        elif k2 not in known and k2 not in local:
            local.add(k2)
            new.append((k2, ei))
    counts["reached_depth_%d" % (len(hist0) + 1)] += 1
    if first >= 0:
        t.outcomes.add(("F", ii, first, tuple(new)))
    t.outcomes.add(packed(states))
    counts["seam_data_fallback"] += SEAM["data_fallback"]
    SEAM["data_fallback"] = 0
    return t


def shard_b(item, depth=3, seed=0):
    """Phase B. item = (init index, first event index, owned depth-2 states as (key, event index), keys of all
    states of depth <= 2 of this initial state). BFS of histories of length <= depth below the owned states."""
    ii, first, owned, known = item
    spec = INITS[ii]
    t = Tally()
    counts = t.extra
    EV = events_for(shape_of(spec))
    seen = set(known)
    states = set()
    hist0 = [EV[first]]
    S, key, share, ok = run_history(spec, hist0, seed, Tally(), Tally().extra)
    if not ok:
        raise Broken(f"phase B cannot rebuild the depth-1 state {hist0!r} of {spec!r} that phase A accepted")
    blob1, m1 = dump(S), S.models()
    frontier = []
    for k2, ei in owned:
        ev = EV[ei]
        S2 = load(blob1, m1)
        h2 = hist0 + [ev]
        good, k, sh2 = step(S2, ev, seed, h2, spec, Tally(), Tally().extra, None, share)  # counted and judged in phase A
        if not good or k != k2:
            raise Broken(f"replay of {h2!r} from {spec!r} does not reproduce the state seen in phase A")
        states.add(k2)
        blob2 = dump(S2)
        m2 = frozen_models(S2)
        counts["new_states"] += 1
        if run_observers(S2, "reduced" if depth > 2 else "mini", h2, spec, t, counts, sh2) and depth > 2:
            frontier.append((h2, blob2, m2, sh2))
    for level in range(2, depth):
        nxt = []
        last = level + 1 == depth
        for hist, blob, M, share in frontier:
            for ei, S2, k2, sh2 in expand_one(blob, M, share, hist, EV, seed, spec, t, counts, last=last):
                if k2 in seen or k2 in states:
                    continue
                states.add(k2)
                h2 = hist + [EV[ei]]
                counts["reached_depth_%d" % len(h2)] += 1
                counts["new_states"] += 1
                if not last:
                    blob2 = dump(S2)
                    m2 = frozen_models(S2)
                good_obs = run_observers(S2, "mini" if last else "reduced", h2, spec, t, counts, sh2)
                if len(h2) >= 3 and len(t.samples) < 2 and sh2 == "none":
                    t.sample({"init": list(spec), "history": [list(e) for e in h2], "fields": list(S2.mv.fields), "units": list(S2.mv.units), "rows_per_cell": [None if a is None else int(a.shape[0]) for a in (S2.mv.get(c) for c in S2.mv.cells())]}, cap=2)
                if not last and good_obs:
                    nxt.append((h2, blob2, m2, sh2))
        frontier = nxt
    t.outcomes.add(packed(states))
    counts["seam_data_fallback"] += SEAM["data_fallback"]
    SEAM["data_fallback"] = 0
    return t


# ----------------------------------------------------------------------------- deviation-bounded histories
def default_histories(spec):
    """(default history, max deviations): a varied 8-step session with <= 2 deviations for every deep initial state;
    the simplest state-changing operation repeated 8 times with <= 2 deviations where the initial cells are populated
    (from_data), <= 1 elsewhere (on an empty Vector the repeated operation is a no-op until a deviation fills a cell)."""
    nd = len(shape_of(spec))
    rep = [("arith", "add", "f0")] * 8
    varied = [("set", "first", 3), ("asg_slice", nd - 1), ("add", "g"), ("arith", "mul", "flast"), ("copy",), ("setflat", "f0"), ("rm", "first"), ("c_arith",)]
    return [(varied, 2), (rep, 2 if spec[0] == "data" else 1)]


BATTERY_AFTER = 4  # deviation histories: the refused operations are tried after the 4th executed event


def dev_enabled(ev, S):
    """Deviation histories: an event that is not a whole-cell replacement first drops a kept slice, then runs."""
    if S.ms is not None and ev[0] not in REPL and ev[0] != "slice":
        S.drop_slice()
    return enabled(ev, S, bfs=False)


def rebuild_dev(spec, done, seed):
    """Fresh objects brought to the state after the executed events `done` (deviation semantics, nothing recorded)."""
    S = build_init(spec, seed)
    for i, ev in enumerate(done):
        dev_enabled(ev, S)
        step(S, ev, seed, done[: i + 1], spec, Tally(), Tally().extra, None, "none")
    return S


def run_dev_history(spec, hist, seed, t, counts, states=None, battery=True):
    """One length-8 history on ONE live object: every event compared with the model; the arrays kept from flatten()
    in the first state with data re-checked after every later event; after the 4th executed event all refused
    operations of that state (footprint oracle; only in histories with <= 1 deviation from their default, battery=True),
    the history then goes on from the observed post-exception state."""
    T, F = tables(seed)
    shape = shape_of(spec)
    S = build_init(spec, seed)
    share = "none"
    done = []
    ok = True
    kept, kept_at = None, None
    extra = {"dev": True, "battery": bool(battery)}
    for ev in hist:
        ev = tuple(ev)
        if not dev_enabled(ev, S):
            counts["dev_disabled_skipped"] += 1
            continue
        done.append(ev)
        good, k2, sh2 = step(S, ev, seed, list(done), spec, t, counts, None, share, extra)
        counts["transitions"] += 1
        counts["ev_" + ev[0]] += 1
        t.n += 1
        if not good:
            ok = False
            break
        share = sh2
        if states is not None:
            states.add(k2)
        # arrays kept from the first state with data are re-checked after EVERY later event of the history
        # (one live object all the way: sharing with the Vector's storage cannot be lost to cloning)
        try:
            if kept is None:
                if S.mv.total_rows() > 0:
                    kept = take_flat(S.v, S.mv)
            else:
                p = check_kept(kept, S)
                counts["kept_flatten_checks"] += 1
                if p:
                    t.fail(mk_cls(p[0], ev, shape, share, {"kept_across_history": True}), {"init": list(spec), "history": [list(e) for e in done], "kept_after": kept_at, "dev": True, "battery": bool(battery)}, f"init {spec!r} after {done!r}, arrays kept after step {kept_at}: {p[1]}")
                    ok = False
                    break
            if kept is not None and kept_at is None:
                kept_at = len(done)
        except Exception:
            pass
        if battery and len(done) == BATTERY_AFTER:
            live = [S]
            prefix = list(done)
            S2, names = refusal_battery(lambda: live.pop() if live else rebuild_dev(spec, prefix, seed), T, F, prefix, spec, t, counts, share, case_extra={"dev": True, "battery": True})
            counts["dev_batteries"] += 1
            if S2 is None:
                ok = False
                break
            if S2 is not S:
                kept = None  # objects were rebuilt: arrays kept from the old ones say nothing about the new ones
            S = S2
    if ok:
        counts["reached_depth_%d" % len(done)] += 1
        run_observers(S, "mini", done, spec, t, counts, share)
    return done, ok


def dev_chunk(item, seed=0):
    """item = (init index, default index, list of (number of deviations, history as a tuple of event indices))."""
    ii, di, hists = item
    spec = INITS[ii]
    EV = events_for(shape_of(spec))
    t = Tally()
    counts = t.extra
    states = set()
    for ndev, hx in hists:
        run_dev_history(spec, [EV[i] for i in hx], seed, t, counts, states, battery=ndev <= 1)
        counts["dev_histories"] += 1
    t.outcomes.add(packed(states))
    counts["seam_data_fallback"] += SEAM["data_fallback"]
    SEAM["data_fallback"] = 0
    return t


# ----------------------------------------------------------------------------- global modes of the process
MODES = ("warnings_error", "errstate_raise")
MODE_INITS = [("data", (2, 0, 3), 2), ("one", (2, 2), 2), ("shape", (2, 2), 2), ("data_int64", (2, 0, 3), 2), ("data_uint8", (2, 0, 3), 2), ("data_bool", (2, 0, 3), 2)]


@contextlib.contextmanager
def mode_ctx(mode):
    if mode == "warnings_error":
        with warnings.catch_warnings():
            warnings.simplefilter("error")
            yield
    elif mode == "errstate_raise":
        with np.errstate(all="raise"):
            yield
    else:
        yield


def observed_model(vec):
    shape = tuple(vec.shape)
    m = Model(shape, list(vec.fields), list(vec.units))
    for c, a in zip(m.cells(), read_cells(vec, shape, m.cells())):
        m.put(c, np.array(a, copy=True) if isinstance(a, np.ndarray) else None)
    m.meta = json.loads(json.dumps(dict(vec.metadata), default=repr))
    return m


def judge_mix(who, vec, pre, post):
    """An operation that RAISED (here: because a global mode turned a warning / floating-point flag into an exception).
    Round-3 footprint oracle in its general form, plus the structural invariants: the object's schema is the one before
    or the one the operation asked for; every cell is its old value, the requested value, or entry by entry a mix of
    the two; and — whatever happened — fields are unique and 1:1 with units and every populated cell is 2-D with one
    column per field (a half-applied STRUCTURAL change breaks the property's own invariants). (relation, message) / None."""
    if vec is None:
        return None if pre is None else ("refused_operation_stays_in_footprint", f"{who}: the object is gone")
    cands = [m for m in (pre, post) if m is not None]
    shape, fields, units = tuple(vec.shape), list(vec.fields), list(vec.units)
    cells = read_cells(vec, shape, list(itertools.product(*[range(n) for n in shape])))
    if len(set(fields)) != len(fields) or len(units) != len(fields) or vec.num_fields != len(fields):
        return ("structural_invariants_hold_after_refused_operation", f"{who}: fields {fields} units {units} num_fields {vec.num_fields}")
    for c, o in zip(itertools.product(*[range(n) for n in shape]), cells):
        if o is not None and (not isinstance(o, np.ndarray) or o.ndim != 2 or o.shape[1] != len(fields)):
            return ("structural_invariants_hold_after_refused_operation", f"{who}: cell {c} has shape {getattr(o, 'shape', None)} in a Vector with {len(fields)} fields {fields} (field names / units were changed, the cells were not)")
    try:
        whole = vec.flatten()
        if whole.ndim != 2 or whole.shape[1] != len(fields):
            return ("structural_invariants_hold_after_refused_operation", f"{who}: flatten() has shape {whole.shape} with {len(fields)} fields")
        for f in fields:
            vec[f].flatten()
    except Exception as e:
        return ("structural_invariants_hold_after_refused_operation", f"{who}: flatten raised {type(e).__name__}: {str(e)[:100]} with fields {fields}")
    ok = [m for m in cands if m.shape == shape and m.fields == fields and m.units == units]
    if not ok or not any(dict(vec.metadata) == m.meta for m in cands):
        return ("refused_operation_stays_in_footprint", f"{who}: schema / metadata {shape} {fields} {units} {dict(vec.metadata)} is neither the old nor the requested one")
    for c, o in zip(ok[0].cells(), cells):
        alts = [m.get(c) for m in ok]
        if any(same_cell(o, a) and (o is None or o.dtype == a.dtype) for a in alts):
            continue
        arrs = [a for a in alts if isinstance(a, np.ndarray)]
        if isinstance(o, np.ndarray) and arrs and len(arrs) == len(alts) and all(a.shape == o.shape for a in arrs):
            mixed = np.zeros(o.shape, dtype=bool)
            for a in arrs:
                mixed |= o == a
            if mixed.all():
                continue
        return ("refused_operation_stays_in_footprint", f"{who}: cell {c} = {show(o)} is neither the old value, nor the requested one, nor a mix of the two ({[show(a) for a in alts]})")
    return None


def mode_event(blob, M, ev, mode, hist, spec, seed, t, counts, share):
    """One event of the alphabet under a global mode. Not raising: exactly the default-mode result. Raising: refused
    operation -> judge_mix on every object, then the model follows the observed state and the observers run."""
    T, F = tables(seed)
    ref = load(blob, M, None)
    if apply_event(ref, ev, T, F) is not None:
        return  # does not succeed under the default mode either: judged by the ordinary search
    post = ref.models()
    S = load(blob, M, None)
    pre = S.models()
    MODE_ACTIVE[0] = True
    try:
        with mode_ctx(mode):
            imm = apply_event(S, ev, T, F)
    finally:
        MODE_ACTIVE[0] = False
    counts["transitions"] += 1
    counts["ev_mode_" + mode] += 1
    t.n += 1
    shape = S.mv.shape
    h2 = hist + [ev]
    case = {"init": list(spec), "history": [list(e) for e in hist], "mode": mode, "mode_event": list(ev)}
    where = f"init {spec!r} after {hist!r}, then {ev!r} under {mode}"
    cell_dtypes = sorted({a.dtype.name for _, a in pre[0].populated()})

    def fail(rel, msg, extra=None):
        cls = {"relation": rel, "event": ev[0], "mode": mode, "ndim": len(shape), "cell_dtypes": "+".join(cell_dtypes) or "none"}
        cls.update(extra or {})
        t.fail(cls, case, f"{where}: {msg}")

    raised = imm is not None and imm[0] == "legitimate_operation_raised"
    if not raised:
        if imm is not None:
            fail(imm[0], imm[1])
            return
        S.mv, S.mc, S.mw, S.ms, S.sk = post
        fl = []
        compare(S, ev, fl)
        for rel, msg, who in fl:
            fail(rel, f"not the default-mode result: {msg}", {"object": who})
        return
    counts[f"mode_{mode}_turned_into_exception_{ev[0]}"] += 1
    names = ("main", "copy", "independent", "slice")
    live = (S.v, S.c, S.w, S.s)
    bad = False
    for who, vec, pm, qm in zip(names, live, pre[:4], post[:4]):
        try:
            p = judge_mix(who, vec, pm, qm)
        except Exception as e:
            p = ("structural_invariants_hold_after_refused_operation", f"{who}: unreadable: {type(e).__name__}: {str(e)[:100]}")
        if p:
            fail(p[0], f"{imm[1]} — afterwards {p[1]}", {"object": who})
            bad = True
    if bad:
        return
    S.mv, S.mc, S.mw = observed_model(S.v), (observed_model(S.c) if S.c is not None else None), observed_model(S.w)
    S.ms = observed_model(S.s) if S.s is not None else None
    fl = []
    S.parts = compare(S, None, [])[0]
    observe(S, "mini", fl, counts)
    roundtrip(S, fl, counts, whole=True)
    for rel, msg, extra in fl:
        fail(rel, f"after the exception: {msg}", extra)


def mode_shard(item, seed=0):
    """item = (index into MODE_INITS, mode or 'default'). States: the initial state and its depth-1 successors (default
    mode); from each of them every enabled event under the mode, and the battery of refused operations under the mode."""
    mi, mode = item
    spec = MODE_INITS[mi]
    t = Tally()
    counts = t.extra
    T, F = tables(seed)
    EV = events_for(shape_of(spec))
    S, key, share, ok = run_history(spec, [], seed, t, counts)
    if not ok:
        return t
    states = {key}
    roots = [([], dump(S), frozen_models(S), share)]
    quiet = Tally()
    for ei, S2, k2, sh2 in expand_one(roots[0][1], roots[0][2], share, [], EV, seed, spec, quiet if mode != "default" else t, (quiet if mode != "default" else t).extra):
        if k2 not in states:
            states.add(k2)
            roots.append(([EV[ei]], dump(S2), frozen_models(S2), sh2))
    for hist, blob, M, sh in roots:
        probe = State()
        probe.mv, probe.mc, probe.mw, probe.ms, probe.sk = M
        for ev in EV:
            if not enabled(ev, probe):
                continue
            if mode == "default":
                if hist:  # depth 2 under the default mode (integer / bool cells are not part of the main search)
                    S2 = load(blob, M, target_of(ev))
                    good, k2, sh2 = step(S2, ev, seed, hist + [ev], spec, t, counts, None, sh)
                    counts["transitions"] += 1
                    counts["ev_" + ev[0]] += 1
                    t.n += 1
                    if good and k2 not in states:
                        states.add(k2)
                        run_observers(S2, "mini", hist + [ev], spec, t, counts, sh2)
            else:
                mode_event(blob, M, ev, mode, hist, spec, seed, t, counts, sh)
        if mode != "default":
            with mode_ctx(mode):
                refusal_battery(lambda: load(blob, M, None), T, F, hist, spec, t, counts, sh, case_extra={"mode": mode})
    t.outcomes.add(packed(states))
    counts["seam_data_fallback"] += SEAM["data_fallback"]
    SEAM["data_fallback"] = 0
    return t


# ----------------------------------------------------------------------------- width: many fields
WIDTHS = (9, 10, 12, 17, 33)
ORDERS = ("sorted", "reversed", "shuffle_a", "shuffle_b")
CONTAINERS = ("list", "tuple", "set", "dict_keys")
_WT = {}


def wide_values(seed, cell, rows, cols):
    """64*column + 8*row + 2*cell + noise/4: any permutation of columns, rows or cells shows."""
    if seed not in _WT:
        rng = np.random.default_rng([int(seed), 11, 4])
        _WT[seed] = 64.0 * np.arange(40)[None, None, :] + 8.0 * np.arange(3)[None, :, None] + 2.0 * np.arange(2)[:, None, None] + 1.0 + rng.integers(0, 4, size=(2, 3, 40)) / 4.0
    return np.array(_WT[seed][cell, :rows, :cols], copy=True)


def wide_build(n, seed):
    fields = [f"f{i}" for i in range(n)]
    units = [f"u{i}" for i in range(n)]
    v = V().from_shape((2,), fields=list(fields), units=list(units))
    m = Model((2,), fields, units)
    for cell, rows in ((0, 3), (1, 2)):
        v[cell] = wide_values(seed, cell, rows, n)
        m.put((cell,), wide_values(seed, cell, rows, n))
    return v, m


def order_names(names, order):
    names = list(names)
    if order == "sorted":
        return names
    if order == "reversed":
        return names[::-1]
    perm = np.random.default_rng([11, 4, 1 if order == "shuffle_a" else 2, len(names)]).permutation(len(names))  # harness-owned, fixed
    return [names[i] for i in perm]


def contain(names, cont):
    if cont == "str":
        return names[0]
    if cont == "list":
        return list(names)
    if cont == "tuple":
        return tuple(names)
    if cont == "set":
        return set(names)
    return dict.fromkeys(names).keys()


def keep_families(n, tier):
    """Keep-sets (positions) for removals that leave few survivors, incl. survivors of index >= 8."""
    fam = set()
    for k in (2, 3, 4, 5):
        for stride in (1, 2, 3, 5, 7, 8, 9, 11, 16):
            for j in range(n):
                K = tuple(j + i * stride for i in range(k))
                if K[-1] < n:
                    fam.add(K)
    full3 = n <= 17 or tier == "thorough"
    if full3:
        fam |= set(itertools.combinations(range(n), 3))
    if n <= 12:
        fam |= set(itertools.combinations(range(n), 4))
    return sorted(fam, key=lambda K: (len(K), K))


def variants(positions):
    """(order, container) spellings of one set of names: 4 orders as a list, 3 more containers in sorted order."""
    if len(positions) == 1:
        return [("sorted", c) for c in ("str",) + CONTAINERS]
    return [(o, "list") for o in ORDERS] + [("sorted", c) for c in CONTAINERS[1:]]


def width_cases(n, tier):
    """All op sequences for width n: each a list of ops (kind, positions in the CURRENT field list, order, container)."""
    allp = tuple(range(n))
    seqs = []
    removals = [(i,) for i in allp] + list(itertools.combinations(allp, 2))
    removals += [tuple(p for p in allp if p not in K) for K in ([(i,) for i in allp] + list(itertools.combinations(allp, 2)) + keep_families(n, tier))]
    seen = set()
    for R in removals:
        if R in seen or not R or len(R) == n:
            continue
        seen.add(R)
        for o, c in variants(R):
            seqs.append([("rm", R, o, c)])
    for k in (1, 3):
        for o, c in variants(tuple(range(k))):
            seqs.append([("add", tuple(range(k)), o, c)])
    for i in allp:
        seqs.append([("setf", (i,), "sorted", "str")])
        if i >= 7:
            seqs.append([("arith", (i,), "sorted", "str")])
    seqs.append([("copy_rm", (1, 8), "reversed", "list")])
    # depth 2: a removal first, then every field-set operation on what is left
    firsts = [tuple(p for p in allp if p not in K) for K in keep_families(n, "quick") if len(K) in (2, 3, 4, 5) and (K[-1] >= 8) and (K[0] + K[-1]) % 3 == 0]
    firsts += [(0,), (8,), (n - 1,)]
    for R in firsts:
        left = n - len(R)
        first = ("rm", R, "shuffle_a", "list")
        for i in range(left):
            seqs.append([first, ("rm", (i,), "sorted", "str")])
            seqs.append([first, ("rm", tuple(p for p in range(left) if p != i), "reversed", "tuple")] if left > 1 else [first])
            seqs.append([first, ("setf", (i,), "sorted", "str")])
        for o, c in (("sorted", "list"), ("reversed", "list"), ("sorted", "set"), ("sorted", "tuple")):
            seqs.append([first, ("add", (0, 1, 2), o, c)])
        seqs.append([first, ("arith", (left - 1,), "sorted", "str")])
        seqs.append([first, ("copy_rm", (0,), "sorted", "list")])
    return seqs


def wide_check(v, m, who="main"):
    """Exact comparison with the model, and every field BY NAME: v[name].flatten() is that field's column."""
    d = None
    shape, fields, units, cells, meta = read_one(v, m)
    if view_bytes(shape, fields, units, cells, meta) != model_bytes(m):
        d = diff_one(who, v, m) or ("state_equals_model", f"{who}: canonical bytes differ from the model")
    if d is None:
        for fi, f in enumerate(m.fields):
            got = v[f].flatten()
            exp = m.column(fi)
            if got.shape != exp.shape or not np.array_equal(got, exp):
                return ("field_by_name_is_that_fields_column", f"v[{f!r}].flatten() = {got.tolist()}, model says {exp.tolist()}")
        whole = v.flatten()
        if whole.shape != m.stacked().shape or not np.array_equal(whole, m.stacked()):
            return ("flatten_is_row_major_concatenation", f"v.flatten() differs from the model")
    return d


def run_wide(n, seq, seed, t, counts):
    v, m = wide_build(n, seed)
    _, F = tables(seed)
    done = []
    for kind, pos, order, cont in seq:
        pos = tuple(pos)
        done.append([kind, list(pos), order, cont])
        names = order_names([m.fields[i] for i in pos], order) if kind != "add" else order_names([f"n{i}" for i in pos], order)
        obj = contain(names, cont)
        other = None
        try:
            if kind == "rm":
                quiet_remove(v, obj)
                m.remove([obj] if isinstance(obj, str) else list(obj))
            elif kind == "add":
                given = [obj] if isinstance(obj, str) else list(obj)  # the order in which the container hands the names out
                v.add_fields(obj)
                m.add(given)
            elif kind == "setf":
                vals = np.array(F[0, : m.total_rows()], copy=True)
                v[names[0]] = vals
                m.set_flat(pos[0], F[0])
            elif kind == "arith":
                v[names[0]] += 2
                m.arith(pos[0], "add", 2)
            elif kind == "copy_rm":
                c = v.copy()
                mc = m.clone()
                quiet_remove(c, obj)
                mc.remove(list(obj))
                other = (c, mc)
            else:
                raise ValueError(kind)
            problem = wide_check(v, m)
            if problem is None and other is not None:
                problem = wide_check(other[0], other[1], "copy")
        except (Broken, AssertionError):
            raise
        except Exception as e:
            problem = ("legitimate_operation_raised", f"raised {type(e).__name__}: {str(e)[:120]}")
        counts["transitions"] += 1
        counts["ev_width_" + kind] += 1
        t.n += 1
        if problem:
            survivors = len(m.fields)
            cls = {"relation": problem[0], "event": kind, "dimension": "width", "num_fields": n, "names_order": order, "container": cont, "depth": len(done)}
            t.fail(cls, {"width": n, "ops": done}, f"{n} fields f0..f{n - 1}, ops {done}: {problem[1][:600]} (fields now {list(m.fields)[:12]}{'...' if survivors > 12 else ''})")
            return None
    shape, fields, units, cells, meta = read_one(v, m)
    return int.from_bytes(hashlib.blake2b(view_bytes(shape, fields, units, cells, meta), digest_size=8).digest(), "little")


def width_shard(item, seed=0, tier="quick"):
    n, lo, hi = item
    t = Tally()
    counts = t.extra
    states = set()
    for seq in width_cases(n, tier)[lo:hi]:
        k = run_wide(n, seq, seed, t, counts)
        counts["width_sequences"] += 1
        if k is not None:
            states.add(k)
    if lo == 0:
        t.sample({"width": n, "ops": width_cases(n, tier)[-1]}, cap=1)
    t.outcomes.add(packed(states))
    counts["seam_data_fallback"] += SEAM["data_fallback"]
    SEAM["data_fallback"] = 0
    return t


# ----------------------------------------------------------------------------- identity: one array object in several cells
# A Vector stores references to the arrays it is given, and an index list may name a position twice, so ONE ndarray
# object can sit in several cells (v[[1, 1, 2, 0]]; v[0] = a; v[1] = a; v[0:2] = [a, a]; v[0] = v[1]). The property's
# sentences still apply to such a Vector: a field's flattened view is the concatenation of that column over ALL cells
# (once per cell, in row-major order), writing it back restores the data, cells keep one column per field. What the
# property does NOT say is whether an in-place field operation acts once or once per occurrence on an array that sits
# in k cells (on /repo HEAD: once per occurrence), nor which of k different requested values such a cell keeps (HEAD:
# the last): the oracle accepts every reading (op applied 1..k times; the values requested for any occurrence) and then
# follows the observed state; cells whose array sits in ONE cell are judged exactly — in particular every cell that
# comes after a repeated one must receive exactly its own stretch of a flattened write.
ID_INITS = [((3,), 2, (2, 1, 3)), ((4,), 1, (1, 0, 2, 3)), ((2, 2), 2, (2, 1, None, 3)), ((2, 1, 2), 3, (1, 2, 3, 1))]
VID_SH, VID_ISET = 38, 42  # arrays stored in several cells (+k), whole-cell replacements (+ first/last)
ID_DEPTH = {"quick": 2, "thorough": 3}


class AModel:
    """Reference model of ONE Vector whose cells may hold the same array object: per cell the value (an array that is
    never mutated, or None) and a group label; cells with one label were handed the same object by the history."""

    __slots__ = ("shape", "fields", "units", "cells", "val", "grp", "nxt")

    def __init__(self, shape, fields, units):
        self.shape = tuple(shape)
        self.fields = list(fields)
        self.units = list(units)
        self.cells = list(itertools.product(*[range(n) for n in self.shape]))
        self.val = {c: None for c in self.cells}
        self.grp = {c: i for i, c in enumerate(self.cells)}
        self.nxt = len(self.cells)

    def clone(self):
        m = AModel.__new__(AModel)
        m.shape, m.fields, m.units, m.cells = self.shape, list(self.fields), list(self.units), self.cells
        m.val, m.grp, m.nxt = dict(self.val), dict(self.grp), self.nxt
        return m

    def fresh(self):
        self.nxt += 1
        return self.nxt - 1

    def put(self, c, arr, grp=None):
        self.val[c] = arr
        self.grp[c] = self.fresh() if grp is None else grp

    def members(self, c):
        """The populated cells that were given the same object as c (c itself first)."""
        g = self.grp[c]
        return [c] + [d for d in self.cells if d != c and self.grp[d] == g and self.val[d] is not None]

    def populated(self):
        return [(c, self.val[c]) for c in self.cells if self.val[c] is not None]

    def total_rows(self):
        return sum(a.shape[0] for _, a in self.populated())

    def bytes(self):
        return view_bytes(self.shape, self.fields, self.units, [self.val[c] for c in self.cells], {})


class IState:
    """x: the Vector the operations act on, m its model; parent / pm / pmap: the Vector x was taken from by an index
    list, its model and {cell of x: cell of parent}; orig / om: the Vector x was copied from (must never change)."""

    __slots__ = ("x", "m", "parent", "pm", "pmap", "orig", "om", "text", "take")


def ident_build(ii, seed):
    shape, nf, rows = ID_INITS[ii]
    T, _ = tables(seed)
    fields, units = (["field_0"], ["none"]) if nf == 1 else (FIELDS[:nf], UNITS[:nf])
    v = V().from_shape(shape, num_fields=1) if nf == 1 else V().from_shape(shape=shape, fields=list(fields), units=list(units))
    m = AModel(shape, fields, units)
    for k, (c, n) in enumerate(zip(m.cells, rows)):
        if n is not None:
            v[cell_idx(c)] = val(T, VID_INIT_V + k, n, nf)
            m.put(c, val(T, VID_INIT_V + k, n, nf))
    return v, m


def take_lists(n, tier):
    """Index lists for an axis of size n: a position named twice next to each other at the start / at the end, apart,
    three times, two positions twice each, the documented [1, 1, 2, 0] pattern, and an unsorted list without a repeat;
    thorough adds every list of length 2..3 that names a position twice."""
    L = n - 1
    if n == 1:
        base = [[0, 0], [0, 0, 0]]
    else:
        two = min(2, L)
        base = [[0, 0], [L, L, 0], [0, L, L], [L, 0, L], [1, 1, two, 0], [0, 0, 0, L], [0, 0, L, L], [two, 0, two], [L, 0]]
        if tier == "thorough":
            base += [list(p) for k in (2, 3) for p in itertools.product(range(n), repeat=k) if len(set(p)) < k]
    out = []
    for b in base:
        if b not in out:
            out.append(b)
    return out


def ident_sources(ii, tier):
    """How one array object comes to sit in several cells (plus controls with equal CONTENT in distinct objects)."""
    shape, nf, rows = ID_INITS[ii]
    nd = len(shape)
    ncell = len(rows)
    pop = [k for k, n in enumerate(rows) if n is not None]
    out = []
    for a in range(nd):
        for j, lst in enumerate(take_lists(shape[a], tier)):
            for kind in (("list", "array") if tier == "thorough" else (("list", "array")[(j + a) % 2],)):
                out.append(("take", a, list(lst), kind))
    for j, (p, q) in enumerate(itertools.combinations(range(ncell), 2)):
        out.append(("assign2", p, q, ("setitem", "set_data")[j % 2]))
    out.append(("assign3",))
    for p in range(ncell):
        for q in pop:
            if p != q:
                out.append(("self_cell", p, q))
    out += [("list_twice", k) for k in ("slice", "fancy", "all", "set_data_slice")]
    out += [("equal_content", 0, ncell - 1), ("equal_content", 0, 1)]
    out.append(("vec_from_dup",))
    if nd == 1:
        out.append(("from_data_twice",))
    return out


def ident_source(ii, src, seed):
    """Fresh objects brought into the source state. Returns an IState; St.text says how in words."""
    shape, nf, rows = ID_INITS[ii]
    T, _ = tables(seed)
    v, m = ident_build(ii, seed)
    nd = len(shape)
    cells = m.cells
    rest0 = (0,) * (nd - 1)
    ci = cell_idx
    St = IState()
    St.parent, St.pm, St.pmap, St.orig, St.om, St.take = None, None, {}, None, None, None
    St.x, St.m = v, m
    k = src[0]
    sh = lambda j=0, n=2: val(T, VID_SH + j, n, nf)
    if k == "take":
        a, lst, kind = src[1], list(src[2]), src[3]
        entry = list(lst) if kind == "list" else np.array(lst)
        if a == 0 and (nd == 1 or len(lst) % 2 == 1):
            key = entry  # trailing axes taken whole implicitly
        else:
            key = tuple(entry if d == a else slice(None) for d in range(nd))
        s = v[key]
        St.take = (entry, list(lst), [entry if d == a else slice(None) for d in range(nd)])
        new_shape = tuple(len(lst) if d == a else shape[d] for d in range(nd))
        sm = AModel(new_shape, m.fields, m.units)
        sm.nxt = m.nxt
        for out in sm.cells:
            p = tuple(lst[out[d]] if d == a else out[d] for d in range(nd))
            sm.val[out], sm.grp[out] = m.val[p], m.grp[p]
            St.pmap[out] = p
        St.x, St.m, St.parent, St.pm = s, sm, v, m
        St.text = f"s = v[{key!r}] (operations act on s)"
    elif k == "assign2":
        p, q, api = cells[src[1]], cells[src[2]], src[3]
        a = sh()
        if api == "setitem":
            v[ci(p)] = a
            v[ci(q)] = a
        else:
            v.set_data(a, *p)
            v.set_data(a, *q)
        g = m.fresh()
        m.put(p, sh(), g)
        m.put(q, sh(), g)
        St.text = f"a = array; v[{ci(p)!r}] = a; v[{ci(q)!r}] = a ({api})"
    elif k == "assign3":
        a = sh()
        g = m.fresh()
        for c in (cells[0], cells[1], cells[-1]):
            v[ci(c)] = a
            m.put(c, sh(), g)
        St.text = f"a = array; v[{ci(cells[0])!r}] = v[{ci(cells[1])!r}] = v[{ci(cells[-1])!r}] = a"
    elif k == "self_cell":
        p, q = cells[src[1]], cells[src[2]]
        v[ci(p)] = v[ci(q)]
        m.val[p], m.grp[p] = m.val[q], m.grp[q]
        St.text = f"v[{ci(p)!r}] = v[{ci(q)!r}]"
    elif k == "list_twice":
        how = src[1]
        a, b = sh(), sh(1, 3)
        g = m.fresh()
        if how in ("slice", "set_data_slice"):
            tg = [(0,) + rest0, (1,) + rest0]
            if how == "slice":
                v[ci((slice(0, 2),) + rest0)] = [a, a]
            else:
                v.set_data([a, a], slice(0, 2), *rest0)
            St.text = f"a = array; v[{ci((slice(0, 2),) + rest0)!r}] = [a, a] ({'__setitem__' if how == 'slice' else 'set_data'})"
        elif how == "fancy":
            L = shape[0] - 1
            tg = [(L,) + rest0, (0,) + rest0]
            v[ci(([L, 0],) + rest0)] = [a, a]
            St.text = f"a = array; v[{ci(([L, 0],) + rest0)!r}] = [a, a]"
        else:
            tg = None
            pattern = [0, 1, 0, 0, 1, 0, 0, 1][: len(cells)]
            idx = tuple(slice(None) for _ in shape)
            v[idx[0] if nd == 1 else idx] = [a if x == 0 else b for x in pattern]
            gb = m.fresh()
            for c, x in zip(cells, pattern):
                m.put(c, sh() if x == 0 else sh(1, 3), g if x == 0 else gb)
            St.text = f"a, b = arrays; v[:, ..] = {['ab'[x] for x in pattern]}"
        if tg is not None:
            for c in tg:
                m.put(c, sh(), g)
    elif k == "equal_content":
        p, q = cells[src[1]], cells[src[2]]
        v[ci(p)] = sh()
        v[ci(q)] = sh()
        m.put(p, sh())
        m.put(q, sh())
        St.text = f"v[{ci(p)!r}] = a; v[{ci(q)!r}] = a.copy() (equal content, two objects)"
    elif k == "vec_from_dup":
        n0 = shape[0]
        lst = [n0 - 1] * (n0 - 1) + [0] if n0 >= 3 else [1, 1]
        rest = next(r for r in itertools.product(*[range(n) for n in shape[1:]]) if all(m.val[(i,) + r] is not None for i in set(lst)))
        dst, srcx = ci((slice(0, n0),) + rest), ci((lst,) + rest)
        v[dst] = v[srcx]
        new = [m.val[(i,) + rest] for i in lst]
        for i, a in enumerate(new):
            m.put((i,) + rest, a)  # the library copies: the destination cells share nothing
        St.text = f"v[{dst!r}] = v[{srcx!r}]"
    elif k == "from_data_twice":
        a, b = sh(), sh(1, 3)
        if nf == 1:
            v = V().from_data([a, b, a], num_fields=1)
        else:
            v = V().from_data([a, b, a], fields=list(m.fields), units=list(m.units))
        m = AModel((3,), m.fields, m.units)
        g = m.fresh()
        m.put((0,), sh(), g)
        m.put((1,), sh(1, 3))
        m.put((2,), sh(), g)
        St.x, St.m = v, m
        St.text = "a, b = arrays; v = Vector.from_data([a, b, a])"
    else:
        raise ValueError(src)
    return St


def ident_ops(fields, copied):
    nf = len(fields)
    ops = [("rt", "f0")] + ([("rt", "flast")] if nf > 1 else [])
    ops += [("setflat", "f0"), ("setfield", "flast"), ("setflat_consistent", "flast")]
    ops += [("arith", "add", "f0"), ("arith", "sub", "flast"), ("arith", "mul", "flast"), ("arith", "div", "f0")]
    if "g" not in fields:
        ops.append(("add", "g"))
    if "h" not in fields and nf + 2 <= 6:
        ops.append(("add", "hi"))
    if nf >= 2:
        ops += [("rm", "first"), ("rm", "last")]
    if not copied:
        ops.append(("copy",))
    ops += [("set", "first"), ("set", "last")]
    return ops


def ident_sequences(fields, depth):
    """Every sequence of 1..depth enabled operations (enabledness only depends on the schema and on 'copied once')."""
    out = []

    def rec(prefix, fields, copied):
        if prefix:
            out.append(tuple(prefix))
        if len(prefix) == depth:
            return
        for op in ident_ops(fields, copied):
            f2 = fields
            if op == ("add", "g"):
                f2 = fields + ("g",)
            elif op == ("add", "hi"):
                f2 = fields + ("h", "i")
            elif op == ("rm", "first"):
                f2 = fields[1:]
            elif op == ("rm", "last"):
                f2 = fields[:-1]
            rec(prefix + [op], f2, copied or op[0] == "copy")

    rec([], tuple(fields), False)
    return out


def _with_col(a, fi, col):
    b = a.copy()
    b[:, fi] = col
    return b


def ident_step(St, op, T, F):
    """One operation on St.x and on the model. Returns None or (relation, message). Afterwards the model holds the
    OBSERVED cells (they were judged against the acceptable readings first)."""
    x, m = St.x, St.m
    nf = len(m.fields)
    k = op[0]
    cands = {c: [m.val[c]] for c in m.cells}
    written = None
    try:
        if k == "rt":
            fi = 0 if op[1] == "f0" else nf - 1
            f = m.fields[fi]
            if fi % 2 == 0:
                x[f].set_flattened(x[f].flatten())
            else:
                x[f] = x[f].flatten()
        elif k in ("setflat", "setfield", "setflat_consistent"):
            fi = 0 if op[1] == "f0" else nf - 1
            f = m.fields[fi]
            tot = m.total_rows()
            req, cur = {}, 0
            if k == "setflat_consistent":
                rep = {}
                for c, a in m.populated():
                    g = m.grp[c]
                    if g not in rep:
                        rep[g] = np.array(F[2, cur : cur + a.shape[0]], copy=True)
                    req[c] = rep[g]
                    cur += a.shape[0]
                values = np.concatenate([req[c] for c, _ in m.populated()]) if req else np.empty((0,))
                x[f].set_flattened(np.array(values, copy=True))
                written = (f, values)
                for c, a in m.populated():
                    cands[c] = [_with_col(a, fi, req[c])]
            else:
                row = 0 if k == "setflat" else 1
                for c, a in m.populated():
                    req[c] = F[row, cur : cur + a.shape[0]]
                    cur += a.shape[0]
                if k == "setflat":
                    x[f].set_flattened(np.array(F[0, :tot], copy=True))
                else:
                    x[f] = [float(z) for z in F[1, :tot]]
                for c, a in m.populated():
                    cands[c] = [_with_col(a, fi, req[d]) for d in m.members(c)]
        elif k == "arith":
            fi = 0 if op[2] == "f0" else nf - 1
            f = m.fields[fi]
            operand = ARITH[op[1]]
            if op[1] == "add":
                x[f] += operand
            elif op[1] == "sub":
                x[f] -= operand
            elif op[1] == "mul":
                x[f] *= operand
            else:
                x[f] /= operand
            fn = {"add": lambda z: z + operand, "sub": lambda z: z - operand, "mul": lambda z: z * operand, "div": lambda z: z / operand}[op[1]]
            for c, a in m.populated():
                col, alts = a[:, fi], []
                for _ in m.members(c):  # an array that sits in k cells: the operation applied 1..k times
                    col = fn(col)
                    alts.append(_with_col(a, fi, col))
                cands[c] = alts
        elif k == "add":
            names = ["g"] if op[1] == "g" else ["h", "i"]
            x.add_fields(names[0] if len(names) == 1 else list(names))
            m.fields += names
            m.units += ["none"] * len(names)
            for c, a in m.populated():
                cands[c] = [np.concatenate([a, np.zeros((a.shape[0], len(names)))], axis=1)]
        elif k == "rm":
            i = 0 if op[1] == "first" else nf - 1
            quiet_remove(x, m.fields[i] if i == 0 else [m.fields[i]])
            keep = [j for j in range(nf) if j != i]
            m.fields = [m.fields[j] for j in keep]
            m.units = [m.units[j] for j in keep]
            for c, a in m.populated():
                cands[c] = [np.stack([a[:, j] for j in keep], axis=1)]
        elif k == "copy":
            c2 = x.copy()
            St.orig, St.om = x, m
            St.x, St.m = c2, m.clone()
            St.pmap = {}
            x, m = St.x, St.m
        elif k == "set":
            c = m.cells[0] if op[1] == "first" else m.cells[-1]
            w = 0 if op[1] == "first" else 1
            x[cell_idx(c)] = val(T, VID_ISET + w, 2, nf)
            cands[c] = [val(T, VID_ISET + w, 2, nf)]
            m.grp[c] = m.fresh()
            St.pmap.pop(c, None)
        else:
            raise ValueError(op)
    except (Broken, AssertionError):
        raise
    except Exception as e:
        return ("legitimate_operation_raised", f"raised {type(e).__name__}: {str(e)[:160]}")
    try:
        if tuple(x.shape) != m.shape or list(x.fields) != m.fields or list(x.units) != m.units:
            return ("fields_equal_model", f"shape / fields / units are {tuple(x.shape)} {list(x.fields)} {list(x.units)}, model says {m.shape} {m.fields} {m.units}")
        obs = read_cells(x, m.shape, m.cells)
    except Exception as e:
        return ("readable", f"reading the Vector raised {type(e).__name__}: {str(e)[:120]}")
    for c, o in zip(m.cells, obs):
        if not any(same_cell(o, a) and (o is None or o.dtype == np.float64) for a in cands[c]):
            many = len(cands[c]) > 1
            return (
                "cells_equal_model",
                f"cell {c} = {show(o)}, model says {show(cands[c][0])}"
                + (f" (its array sits in {len(m.members(c))} cells; every reading accepted: {[show(a) for a in cands[c]]})" if many else "")
                + f"; all cells now {[show(z) for z in obs]}",
            )
    for c, o in zip(m.cells, obs):
        m.val[c] = None if o is None else np.array(o, copy=True)
    if written is not None:
        got = x[written[0]].flatten()
        if not (isinstance(got, np.ndarray) and got.shape == written[1].shape and np.array_equal(got, written[1])):
            return ("field_flatten_is_row_major_concatenation", f"wrote {written[1].tolist()} with set_flattened, v[{written[0]!r}].flatten() returns {show(got)}")
    return ident_follow_parent(St)


def ident_follow_parent(St):
    """The Vector x was taken from by an index list: schema unchanged; every cell holds its old value or what a cell of x
    taken from it holds now (a slice may share its arrays with its source: by design, not judged). The parent's model
    then follows the observation. Returns None or (relation, message)."""
    if St.parent is None:
        return None
    m = St.m
    try:
        p, pm = St.parent, St.pm
        if tuple(p.shape) != pm.shape or list(p.fields) != pm.fields or list(p.units) != pm.units:
            return ("mutation_not_visible_in_other_vector", f"the Vector the slice was taken from now has shape / fields / units {tuple(p.shape)} {list(p.fields)} {list(p.units)}, before {pm.shape} {pm.fields} {pm.units}")
        pobs = read_cells(p, pm.shape, pm.cells)
        for c, o in zip(pm.cells, pobs):
            alts = [pm.val[c]] + [m.val[d] for d, pc in St.pmap.items() if pc == c]
            if not any(same_cell(o, a) for a in alts):
                return ("slice_source_holds_old_or_slice_values", f"cell {c} of the Vector the slice was taken from = {show(o)}: neither its old value {show(pm.val[c])} nor what the slice holds for it")
        for c, o in zip(pm.cells, pobs):
            pm.val[c] = None if o is None else np.array(o, copy=True)
    except (Broken, AssertionError):
        raise
    except Exception as e:
        return ("readable", f"the Vector the slice was taken from is unreadable: {type(e).__name__}: {str(e)[:120]}")
    return None


def ident_observe(St):
    """In the state just reached: flatten / field flatten are the concatenation over ALL cells (a repeated array counts
    once per cell); the Vector x was taken from holds, cell by cell, its old value or what the cell of x taken from it
    holds now (sharing between a slice and its source is by design and not judged), with an unchanged schema; the Vector
    x was copied from is bitwise unchanged and shares no memory with the copy. Returns a list of (relation, message)."""
    x, m = St.x, St.m
    out = []
    pop = [a for _, a in m.populated()]
    try:
        exp = np.vstack(pop) if pop else np.empty((0, len(m.fields)))
        got = x.flatten()
        if not (isinstance(got, np.ndarray) and got.shape == exp.shape and np.array_equal(got, exp)):
            out.append(("flatten_is_row_major_concatenation", f"v.flatten() = {show(got)}, the cells say {exp.tolist()}"))
        for fi, f in enumerate(m.fields):
            got = x[f].flatten()
            e = exp[:, fi]
            if not (isinstance(got, np.ndarray) and got.shape == e.shape and np.array_equal(got, e)):
                out.append(("field_flatten_is_row_major_concatenation", f"v[{f!r}].flatten() = {show(got)}, the cells say {e.tolist()}"))
    except Exception as e:
        out.append(("flatten_is_row_major_concatenation", f"flatten raised {type(e).__name__}: {str(e)[:120]}"))
    live = [a for a in read_cells(x, m.shape, m.cells) if isinstance(a, np.ndarray)]
    if St.orig is not None:
        try:
            o, om = St.orig, St.om
            ocells = read_cells(o, om.shape, om.cells)
            if view_bytes(tuple(o.shape), list(o.fields), list(o.units), ocells, {}) != om.bytes():
                out.append(("mutation_not_visible_in_other_vector", f"an operation on the copy changed the Vector it was copied from: cells {[show(z) for z in ocells]}, fields {list(o.fields)}; before {[show(om.val[c]) for c in om.cells]}, {om.fields}"))
            elif any(np.shares_memory(a, b) for a in live for b in ocells if isinstance(b, np.ndarray)):
                out.append(("mutation_not_visible_in_other_vector", "a cell of the copy shares memory with a cell of the Vector it was copied from"))
        except Exception as e:
            out.append(("readable", f"the copied-from Vector is unreadable: {type(e).__name__}: {str(e)[:120]}"))
    return out


def ident_key(St):
    x, m = St.x, St.m
    cells = read_cells(x, m.shape, m.cells)
    first, sig = {}, []
    for i, a in enumerate(cells):
        sig.append(first.setdefault(id(a), i) if isinstance(a, np.ndarray) else -1)
    h = hashlib.blake2b(view_bytes(m.shape, m.fields, m.units, cells, {}), digest_size=8)
    h.update(repr((sig, St.parent is not None, St.orig is not None)).encode())
    return int.from_bytes(h.digest(), "little"), len(set(s for s in sig if s >= 0)) < sum(1 for s in sig if s >= 0)


def run_ident(ii, src, ops, seed, t, counts, states=None):
    """One sequence on ONE live object from scratch: the source, then the operations. Every operation is judged (cells);
    the observers run after the last one. A failure of an EARLIER operation is the business of the shorter sequence that
    ends there (all prefixes are enumerated): it ends this sequence silently."""
    T, F = tables(seed)
    src = tuple(src)
    case = {"identity": True, "init": ii, "source": list(src), "ops": [list(o) for o in ops]}
    cls = {"dimension": "identity", "source": src[0], "event": ops[-1][0] if ops else "source", "ndim": len(ID_INITS[ii][0])}
    V().from_shape((1,), num_fields=1).metadata.clear()
    try:
        St = ident_source(ii, src, seed)
    except (Broken, AssertionError):
        raise
    except Exception as e:
        if not ops:
            t.fail(dict(cls, relation="legitimate_operation_raised"), case, f"identity init {ID_INITS[ii]!r}, source {src!r} raised {type(e).__name__}: {str(e)[:160]}")
        return None
    where = f"identity init {ID_INITS[ii]!r} (shape, fields, rows per cell): {St.text}"
    problem = None
    if not ops:
        # the source state itself: exactly the model
        obs = read_cells(St.x, St.m.shape, St.m.cells)
        if tuple(St.x.shape) != St.m.shape or list(St.x.fields) != St.m.fields or list(St.x.units) != St.m.units:
            problem = ("sliced_vector_keeps_schema", f"shape / fields / units {tuple(St.x.shape)} {list(St.x.fields)} {list(St.x.units)}, model says {St.m.shape} {St.m.fields} {St.m.units}")
        else:
            for c, o in zip(St.m.cells, obs):
                if not same_cell(o, St.m.val[c]):
                    problem = ("cells_equal_model", f"cell {c} = {show(o)}, model says {show(St.m.val[c])}")
                    break
        if problem is None and St.take is not None:
            # the index object handed over is left as it was, and get_data with the same index returns the same cells
            entry, lst, args = St.take
            if list(np.asarray(entry).tolist()) != lst:
                problem = ("observers_do_not_mutate", f"the index object handed to v[...] was changed to {np.asarray(entry).tolist()}")
            else:
                try:
                    got = St.parent.get_data(*args)
                    exp = [St.m.val[c] for c in St.m.cells]
                    ok = (isinstance(got, list) and len(got) == len(exp) and all(same_cell(g, e) for g, e in zip(got, exp))) or (len(exp) == 1 and same_cell(got, exp[0]))
                    if not ok:
                        problem = ("get_data_returns_addressed_cells", f"v.get_data(*{args!r}) = {[show(g) for g in got] if isinstance(got, list) else show(got)}, model says {[show(e) for e in exp]}")
                except Exception as e:
                    problem = ("get_data_returns_addressed_cells", f"v.get_data(*{args!r}) raised {type(e).__name__}: {str(e)[:120]}")
    for i, op in enumerate(ops):
        problem = ident_step(St, tuple(op), T, F)
        if problem is not None and i + 1 < len(ops):
            return None
        where += f"; {tuple(op)!r}"
    counts["transitions"] += 1
    counts["ev_identity_" + (ops[-1][0] if ops else "source")] += 1
    t.n += 1
    probs = [problem] if problem is not None else ident_observe(St)
    counts["obs_identity"] += 1
    for rel, msg in probs:
        t.fail(dict(cls, relation=rel), case, f"{where}: {msg}")
    if probs:
        return None
    key, shared = ident_key(St)
    if shared:
        counts["identity_states_with_one_array_in_several_cells"] += 1
    if states is not None:
        states.add(key)
    return St


def ident_shard(item, seed=0, tier="quick"):
    ii, si = item
    src = ident_sources(ii, tier)[si]
    t = Tally()
    counts = t.extra
    states = set()
    fields = ["field_0"] if ID_INITS[ii][1] == 1 else FIELDS[: ID_INITS[ii][1]]
    # thorough: the sources of the quick tier get the larger depth, the additional index lists / spellings depth 2
    depth = ID_DEPTH[tier] if src in ident_sources(ii, "quick") else ID_DEPTH["quick"]
    if run_ident(ii, src, [], seed, t, counts, states) is not None:
        for ops in ident_sequences(fields, depth):
            run_ident(ii, src, ops, seed, t, counts, states)
            counts["identity_sequences"] += 1
    if si == 0:
        t.sample({"identity_init": list(map(repr, ID_INITS[ii])), "source": list(src), "ops": [list(o) for o in ident_sequences(fields, 2)[-1]]}, cap=1)
    t.outcomes.add(packed(states))
    counts["seam_data_fallback"] += SEAM["data_fallback"]
    SEAM["data_fallback"] = 0
    return t


# ----------------------------------------------------------------------------- content of field names
# Field names are arbitrary distinct strings: names that differ only in case, in surrounding blanks, in Unicode
# normalisation form, numeric-looking names with the same value, names that are prefixes of one another, names with
# blanks / dots / non-ASCII letters, names that spell an attribute of the class. v[name] addresses the column at the
# position of exactly that string in v.fields; a string that is not in v.fields is not a field, however similar.
NAME_FAMILIES = [
    ("case", ["k", "K"]),
    ("case3", ["Qx", "qx", "QX"]),
    ("casefold", ["stra\u00dfe", "strasse", "STRASSE"]),
    ("blanks", ["x", " x", "x "]),
    ("prefix", ["x", "xx", "xxx"]),
    ("numeric", ["1", "01", "1.0"]),
    ("unicode_nfc_nfd", ["\u00e9", "e\u0301", "e"]),
    ("unicode_compat", ["\ufb01", "fi"]),
    ("punctuation", ["a.b", "a", "a b"]),
    ("non_ascii_blank", ["k \u00e9", "k e", "k"]),
    ("pattern", ["x.", "xy", "x*"]),
    ("default_like", ["field_0", "field_00", "Field_0"]),
    ("attribute_like", ["shape", "fields", "data"]),
]
NAME_BUILDS = ("from_shape", "from_data")


def name_lists():
    out = []
    for fam, names in NAME_FAMILIES:
        for k in range(2, len(names) + 1):
            out += [(fam, list(p)) for p in itertools.permutations(names, k)]
        out += [(fam, [names[0], "y", names[1]]), (fam, [names[1], "y", names[0]])]  # a neutral name in between
    return out


def name_variants(name):
    """Strings a lenient lookup might identify with `name`."""
    import unicodedata

    c = {name.upper(), name.lower(), name.casefold(), name.swapcase(), name.title(), name.strip(), " " + name, name + " ", name + name[-1:], name[:-1], name.replace(" ", "_"), name.replace(".", "_"), name.replace(" ", "")}
    c |= {unicodedata.normalize(form, name) for form in ("NFC", "NFD", "NFKC", "NFKD")}
    try:
        z = float(name)
        c |= {str(z), "0" + name, str(int(z)) if z == int(z) else name, name + ".0"}
    except ValueError:
        pass
    return c


def absent_variants(fields, family):
    c = set(family)
    for f in fields:
        c |= name_variants(f)
    return sorted(c - set(fields))


def names_build(names, how, seed):
    n = len(names)
    units = [f"u{i}" for i in range(n)]
    if how == "from_shape":
        v = V().from_shape((2,), fields=list(names), units=list(units))
        for cell, rows in ((0, 3), (1, 2)):
            v[cell] = wide_values(seed, cell, rows, n)
    else:
        v = V().from_data([wide_values(seed, 0, 3, n), wide_values(seed, 1, 2, n)], fields=list(names), units=list(units))
    m = Model((2,), names, units)
    for cell, rows in ((0, 3), (1, 2)):
        m.put((cell,), wide_values(seed, cell, rows, n))
    return v, m


def names_ops(fields, family, full=True):
    """Operations that address a field by name, for every name of the current field list."""
    ops = []
    for i in range(len(fields)):
        ops += [("setf", i), ("arith", "mul", i), ("rm", i, "str")]
        if full:
            ops += [("setflat", i), ("arith", "add", i), ("arith", "sub", i), ("arith", "div", i), ("rm", i, "list"), ("add_existing", i), ("copy_rm", i)]
            if len(fields) >= 2:
                ops.append(("keep", i))
    absent = absent_variants(fields, family)
    ops += [("add", a) for a in absent if a.strip() and (full or a in family)]  # empty / blank-only names: lookups only
    ops.append(("absent",))
    return ops


def names_check(v, m, who="main"):
    """Exact comparison with the model, every field BY NAME (flatten and the field view indexed with a cell / a list)."""
    p = wide_check(v, m, who)
    if p is not None:
        return p
    for fi, f in enumerate(m.fields):
        got = v[f][0]
        exp = m.get((0,))[:, fi]
        if not same_cell(got, exp):
            return ("field_view_index_returns_addressed_column", f"v[{f!r}][0] = {show(got)}, model says {exp.tolist()}")
        got = v[f][[1, 0]].flatten()
        exp = np.concatenate([m.get((1,))[:, fi], m.get((0,))[:, fi]])
        if not same_cell(got, exp):
            return ("field_view_index_returns_addressed_column", f"v[{f!r}][[1, 0]].flatten() = {show(got)}, model says {exp.tolist()}")
    return None


def run_names(li, how, seq, seed, t, counts):
    fam, names = name_lists()[li]
    family = dict(NAME_FAMILIES)[fam]
    _, F = tables(seed)
    case = {"names": li, "build": how, "ops": [list(o) for o in seq]}
    cls = {"dimension": "field_names", "family": fam, "build": how, "depth": len(seq)}
    where = f"fields {names!r} ({how})"

    def fail(rel, msg, extra=None):
        t.fail(dict(cls, relation=rel, event=(seq[-1][0] if seq else "build"), **(extra or {})), case, f"{where}: {msg}")

    try:
        v, m = names_build(names, how, seed)
        problem = names_check(v, m) if not seq else None
    except (Broken, AssertionError):
        raise
    except Exception as e:
        problem = ("legitimate_operation_raised", f"building the Vector raised {type(e).__name__}: {str(e)[:120]}")
        if seq:
            return None
    if problem:
        fail(*problem)
        return None
    for n, op in enumerate(seq):
        op = tuple(op)
        k = op[0]
        last = n + 1 == len(seq)
        other = None
        problem = None
        try:
            if k in ("setf", "setflat"):
                f = m.fields[op[1]]
                vals = np.array(F[0 if k == "setf" else 1, : m.total_rows()], copy=True)
                if k == "setf":
                    v[f] = vals
                else:
                    v[f].set_flattened(vals)
                m.set_flat(op[1], F[0 if k == "setf" else 1])
                where += f"; v[{f!r}] <- values ({k})"
            elif k == "arith":
                f = m.fields[op[2]]
                operand = ARITH[op[1]]
                if op[1] == "add":
                    v[f] += operand
                elif op[1] == "sub":
                    v[f] -= operand
                elif op[1] == "mul":
                    v[f] *= operand
                else:
                    v[f] /= operand
                m.arith(op[2], op[1], operand)
                where += f"; v[{f!r}] {op[1]}= {operand}"
            elif k == "rm":
                f = m.fields[op[1]]
                quiet_remove(v, f if op[2] == "str" else [f])
                m.remove([f])
                where += f"; remove_fields({f!r})"
            elif k == "keep":
                drop = [f for j, f in enumerate(m.fields) if j != op[1]]
                quiet_remove(v, tuple(reversed(drop)))
                m.remove(drop)
                where += f"; remove_fields({tuple(reversed(drop))!r})"
            elif k == "add":
                v.add_fields(op[1])
                m.add([op[1]])
                where += f"; add_fields({op[1]!r})"
            elif k == "copy_rm":
                f = m.fields[op[1]]
                c, mc = v.copy(), m.clone()
                quiet_remove(c, [f])
                mc.remove([f])
                other = (c, mc)
                where += f"; c = v.copy(); c.remove_fields([{f!r}])"
            elif k == "add_existing":
                f = m.fields[op[1]]
                where += f"; add_fields([{f!r}]) (exists)"
                try:
                    v.add_fields([f])
                    problem = ("refused_operation_is_refused", f"adding the existing name {f!r} was ACCEPTED: fields {list(v.fields)}")
                except Exception:
                    pass
            elif k == "absent":
                # a string that is not in v.fields is not a field: get / set / arithmetic raise, remove_fields changes nothing
                where += "; lookups of absent look-alike names"
                for a in absent_variants(m.fields, family):
                    for kind, call in (("get", lambda: v[a]), ("set", lambda: v.__setitem__(a, np.array(F[2, : m.total_rows()], copy=True))), ("arith", lambda: v[a].__imul__(3)), ("remove", lambda: quiet_remove(v, a))):
                        raised = False
                        try:
                            call()
                        except (Broken, AssertionError):
                            raise
                        except Exception:
                            raised = True
                        counts["names_absent_lookups"] += 1
                        if kind != "remove" and not raised and problem is None:
                            problem = ("refused_operation_is_refused", f"{kind} with the name {a!r}, which is not in fields {m.fields!r}, was ACCEPTED (on /repo HEAD it raises KeyError)")
                        if problem is None and view_bytes(*read_one(v, m)) != model_bytes(m):
                            d = diff_one("main", v, m) or ("state_equals_model", "canonical bytes differ from the model")
                            problem = ("refused_operation_stays_in_footprint" if kind != "remove" else d[0], f"{kind} with the absent name {a!r} changed the Vector: {d[1]}")
            else:
                raise ValueError(op)
            if problem is None:
                problem = names_check(v, m)
            if problem is None and other is not None:
                problem = names_check(other[0], other[1], "copy")
        except (Broken, AssertionError):
            raise
        except Exception as e:
            problem = ("legitimate_operation_raised", f"raised {type(e).__name__}: {str(e)[:120]}")
        if problem is not None and not last:
            return None  # reported by the shorter sequence that ends here
        if last:
            counts["transitions"] += 1
            counts["ev_names_" + k] += 1
            t.n += 1
        if problem:
            fail(problem[0], f"{problem[1][:700]} (fields now {list(m.fields)!r})")
            return None
    shape, fields, units, cells, meta = read_one(v, m)
    return int.from_bytes(hashlib.blake2b(view_bytes(shape, fields, units, cells, meta), digest_size=8).digest(), "little")


def names_sequences(names, family, how, tier):
    """Depth 1: every operation for every name. Depth 2: after every structural first operation (remove one name, keep
    one name, add a family member) the reduced set (thorough: the full set) for every name that is left."""
    full = how == "from_shape" or tier == "thorough"
    seqs = [[]] + [[op] for op in names_ops(names, family, full=full)]
    if full:
        for op in names_ops(names, family):
            if op[0] == "rm" and op[2] == "str":
                left = [f for j, f in enumerate(names) if j != op[1]]
            elif op[0] == "keep":
                left = [names[op[1]]]
            elif op[0] == "add" and op[1] in family:
                left = list(names) + [op[1]]
            else:
                continue
            for op2 in names_ops(left, family, full=tier == "thorough"):
                seqs.append([op, op2])
    return seqs


def names_shard(item, seed=0, tier="quick"):
    lo, hi = item
    t = Tally()
    counts = t.extra
    states = set()
    lists = name_lists()
    for li in range(lo, hi):
        fam, names = lists[li]
        family = dict(NAME_FAMILIES)[fam]
        for how in NAME_BUILDS:
            for seq in names_sequences(names, family, how, tier):
                k = run_names(li, how, seq, seed, t, counts)
                counts["names_sequences"] += 1
                if k is not None:
                    states.add(k)
    if lo == 0:
        t.sample({"field_names": lists[0][1], "build": "from_shape", "ops": [list(o) for o in names_sequences(lists[0][1], dict(NAME_FAMILIES)[lists[0][0]], "from_shape", tier)[-1]]}, cap=1)
    t.outcomes.add(packed(states))
    counts["seam_data_fallback"] += SEAM["data_fallback"]
    SEAM["data_fallback"] = 0
    return t


# ----------------------------------------------------------------------------- driver
def run(ctx):
    seed = ctx.seed
    ctx.assume(
        "cell data are float64; every array handed to the library is a fresh object (the library stores references to caller arrays by design)",
        "all values are distinct dyadic rationals and the arithmetic operands are 2, 0.5, 3, 2, so every reachable value is exact in float64 and the comparison is exact",
        "a slice of a Vector may share its cell arrays with its source (name '[view]'): in-place field operations are not judged across a kept slice and its parent; replacing a WHOLE cell on one of them must not change what the other holds, however the slice was spelled",
        "a refused operation (one that raises) need not be atomic: it must stay inside its footprint (addressed cells / field column: old or requested values only), leave schema, metadata, copy and independent Vector untouched, and later events are compared against the observed post-exception state",
        "whether copy() carries metadata over is not pinned; only that the two dicts are independent",
        "a mixed index such as v[0:2, 1] keeps the integer axis with length 1; a partial index is padded with full slices",
        "a negative integer index in v[-1, ..] = array is accepted by the library (Python list semantics) and modelled as such; set_data / get_data refuse it",
        "outside the alphabet: singleton lists in assignments, removing every field; integer / bool cells only in the global-mode dimension",
        "global modes: warnings.simplefilter('error') and np.errstate(all='raise') are applied to the library call only; the reference model is shielded from them",
        "identity dimension: when ONE array object sits in k cells of a Vector the property does not say whether an in-place field operation acts once or k times on it, nor which of k different requested values it keeps: every reading is accepted and the model follows the observation; cells whose array sits in one cell are judged exactly",
        "field names are arbitrary distinct non-blank strings; a string that is not in v.fields is not a field, however similar (v[name] raises on /repo HEAD)",
        "on /repo HEAD no event of the alphabet emits a warning or raises a floating-point flag for float, int64, uint8 or bool cells (measured; the evidence counts mode_*_turned_into_exception_* would show otherwise)",
    )

    def once():
        t = Tally()
        spec = INITS[INITS.index(("shape", (2, 3), 2))]
        hist = [("set", "first", 3), ("asg_slice", 1), ("add", "g"), ("copy",), ("c_arith",), ("arith", "div", "flast"), ("rm", "first"), ("setflat", "f0"), ("slice", 0), ("s_set", "first"), ("set", "last", 1)]
        S, key, share, ok = run_history(spec, hist, seed, t, t.extra)
        # the pickled path must give the same canonical state as the replay from scratch
        S2 = load(dump(S), S.models())
        fl = []
        parts, sig, _ = compare(S2, None, fl)
        return (key, state_key(parts, sig, S2.sk), share, ok, [f["msg"] for f in t.fails], len(fl))

    ctx.selftest(once)
    r = once()
    if r[3] and r[0] != r[1]:  # only meaningful when the self-test history itself passes
        raise Broken("pickle clone of a live state differs from the replayed state")

    depth = 3
    deep_depth = None if ctx.quick else 4
    depth_of = {ii: (deep_depth if (deep_depth and spec in DEEP_INITS) else depth) for ii, spec in enumerate(INITS)}
    # cheap pre-pass in the parent: which first events reach distinct states (no observers, nothing recorded)
    items = []
    n_first = 0
    known1 = {}
    for ii, spec in enumerate(INITS):
        EV = events_for(shape_of(spec))
        scratch = Tally()
        S0, k0, share0, ok0 = run_history(spec, [], seed, scratch, scratch.extra)
        known = {k0}
        firsts = []
        for ei, ev in enumerate(EV):
            S = build_init(spec, seed)
            if not enabled(ev, S):
                continue
            good, k2, sh2 = step(S, ev, seed, [ev], spec, scratch, scratch.extra, None, share0)
            if good and k2 not in known:
                known.add(k2)
                firsts.append(ei)
        kn = tuple(sorted(known))
        known1[ii] = known
        items.append((ii, -1, kn))
        items += [(ii, ei, kn) for ei in firsts]
        n_first += len(firsts)
    ctx.say(f"{len(INITS)} initial states, {n_first} distinct first events; phase A: depth <= 2 transitions, sharded by (initial state, first event)")
    weight = lambda it: (-len(shape_of(INITS[it[0]])) * 10 - INITS[it[0]][2] - 100 * (depth_of[it[0]] > depth), it[0], it[1])
    items.sort(key=weight)
    ma = ctx.pmap(shard_a, items, chunk=1, label="bfs-A", seed=seed, full_depth1=not ctx.quick)
    all_states = [np.frombuffer(b, dtype=np.uint64) for b in ma.outcomes if isinstance(b, bytes)]
    # global dedup of the depth-2 states per initial state: a state is owned by the first shard (in alphabet order) that reached it
    fronts = sorted((o for o in ma.outcomes if isinstance(o, tuple) and o and o[0] == "F"), key=lambda o: (o[1], o[2]))
    known2 = {ii: set(known1[ii]) for ii in known1}
    owned = []
    for _, ii, first, new in fronts:
        mine = []
        for k2, ei in new:
            if k2 not in known2[ii]:
                known2[ii].add(k2)
                mine.append((k2, ei))
        if mine:
            owned.append((ii, first, tuple(mine)))
    kn2 = {ii: tuple(sorted(v)) for ii, v in known2.items()}
    n2 = sum(len(o[2]) for o in owned)
    transitions = int(ma.extra["transitions"])
    bounds = {"bfs_depth": depth, "initial_states": len(INITS)}
    if deep_depth:
        bounds["bfs_depth_deep"] = deep_depth
        bounds["deep_initial_states"] = [[s[0], list(s[1]), s[2]] for s in DEEP_INITS]
    ctx.say(f"phase B: {n2} distinct depth-2 states in {len(owned)} shards, BFS to depth {depth}" + (f" ({deep_depth} from {len(DEEP_INITS)} initial states)" if deep_depth else ""))
    b_items = sorted(((ii, first, mine, kn2[ii]) for ii, first, mine in owned), key=lambda it: (-depth_of[it[0]], -len(it[2]) * len(shape_of(INITS[it[0]])), it[0], it[1]))
    for dd in sorted({depth_of[it[0]] for it in b_items}, reverse=True):
        mb = ctx.pmap(shard_b, [it for it in b_items if depth_of[it[0]] == dd], chunk=1, label=f"bfs-B depth {dd}", depth=dd, seed=seed)
        all_states += [np.frombuffer(b, dtype=np.uint64) for b in mb.outcomes if isinstance(b, bytes)]
        transitions += int(mb.extra["transitions"])
    if deep_depth:
        # deviation-bounded length-8 histories
        dev_items = []
        nh = 0
        for spec in DEEP_INITS:
            ii = INITS.index(spec)
            shape = shape_of(spec)
            EV = events_for(shape)
            index = {e: i for i, e in enumerate(EV)}
            for di, (default, b) in enumerate(default_histories(spec)):
                dflt = [index[e] for e in default]
                hs = [(k, tuple(h)) for k, h in deviation_histories(dflt, list(range(len(EV))), b)]
                nh += len(hs)
                for i in range(0, len(hs), 400):
                    dev_items.append((ii, di, hs[i : i + 400]))
        ctx.say(f"thorough: {nh} deviation-bounded histories of length 8 (<= 2 deviations from a varied default, <= 1 or 2 from a repeated one, {len(DEEP_INITS)} initial states)")
        m3 = ctx.pmap(dev_chunk, dev_items, chunk=1, label="deviations", seed=seed)
        all_states += [np.frombuffer(b, dtype=np.uint64) for b in m3.outcomes if isinstance(b, bytes)]
        transitions += int(m3.extra["transitions"])
        bounds["deviation_history_length"] = 8
        bounds["deviation_max_positions"] = {"varied_default": 2, "repeated_default": "2 from from_data, 1 from from_shape"}
        bounds["deviation_histories"] = nh
    # width dimension: 9..33 fields, every field-set operation, names in 4 orders and 4 containers
    w_items = []
    nseq = 0
    for n in WIDTHS:
        total = len(width_cases(n, ctx.tier))
        nseq += total
        w_items += [(n, lo, min(total, lo + 400)) for lo in range(0, total, 400)]
    ctx.say(f"width: {nseq} operation sequences (depth 1-2) on Vectors with {list(WIDTHS)} fields")
    mw_ = ctx.pmap(width_shard, w_items, chunk=1, label="width", seed=seed, tier=ctx.tier)
    all_states += [np.frombuffer(b, dtype=np.uint64) for b in mw_.outcomes if isinstance(b, bytes)]
    transitions += int(mw_.extra["transitions"])
    bounds["width"] = {"num_fields": list(WIDTHS), "sequences": nseq, "orders": list(ORDERS), "containers": ["str"] + list(CONTAINERS)}
    # global modes: the whole alphabet and the refused operations under warnings-as-errors / np.errstate(all="raise")
    m_items = [(mi, mode) for mi in range(len(MODE_INITS)) for mode in MODES + (("default",) if MODE_INITS[mi][0].startswith("data_") else ())]
    ctx.say(f"global modes: {len(m_items)} (initial state, mode) pairs, states of depth <= 1, every event and every refused operation under the mode")
    mm = ctx.pmap(mode_shard, m_items, chunk=1, label="modes", seed=seed)
    all_states += [np.frombuffer(b, dtype=np.uint64) for b in mm.outcomes if isinstance(b, bytes)]
    transitions += int(mm.extra["transitions"])
    bounds["global_modes"] = {"modes": list(MODES), "initial_states": [[x[0], list(x[1]), x[2]] for x in MODE_INITS], "depth_of_states": 1}
    # identity dimension: one array object in several cells (index lists naming a position twice, one object assigned twice)
    i_items = [(ii, si) for ii in range(len(ID_INITS)) for si in range(len(ident_sources(ii, ctx.tier)))]
    i_items.sort(key=lambda it: (-len(ID_INITS[it[0]][0]) * ID_INITS[it[0]][1], it))
    ctx.say(f"identity: {len(i_items)} (initial state, source) pairs, every sequence of <= {ID_DEPTH[ctx.tier]} operations after each")
    mi_ = ctx.pmap(ident_shard, i_items, chunk=4, label="identity", seed=seed, tier=ctx.tier)
    all_states += [np.frombuffer(b, dtype=np.uint64) for b in mi_.outcomes if isinstance(b, bytes)]
    transitions += int(mi_.extra["transitions"])
    bounds["identity"] = {
        "initial_states": [[list(s), nf, [r for r in rows]] for s, nf, rows in ID_INITS],
        "sources": sorted({s[0] for ii in range(len(ID_INITS)) for s in ident_sources(ii, ctx.tier)}),
        "index_lists_axis_of_3": take_lists(3, ctx.tier),
        "source_states": len(i_items),
        "operations_after_source": ID_DEPTH[ctx.tier],
        "operations_after_sources_added_by_thorough": ID_DEPTH["quick"],
        "sequences": int(mi_.extra["identity_sequences"]),
    }
    # content of field names: look-alike names in every operation that addresses a field by name
    n_lists = len(name_lists())
    n_items = [(lo, min(n_lists, lo + 4)) for lo in range(0, n_lists, 4)]
    ctx.say(f"field names: {n_lists} field lists from {len(NAME_FAMILIES)} families of look-alike names, 2 constructions, operation sequences of depth 1-2")
    mn_ = ctx.pmap(names_shard, n_items, chunk=1, label="names", seed=seed, tier=ctx.tier)
    all_states += [np.frombuffer(b, dtype=np.uint64) for b in mn_.outcomes if isinstance(b, bytes)]
    transitions += int(mn_.extra["transitions"])
    bounds["field_names"] = {"families": [[f, list(n)] for f, n in NAME_FAMILIES], "field_lists": n_lists, "constructions": list(NAME_BUILDS), "sequences": int(mn_.extra["names_sequences"]), "absent_lookups": int(mn_.extra["names_absent_lookups"])}
    ex = ctx.tally.extra
    maxd = max([int(k.rsplit("_", 1)[1]) for k, v in ex.items() if k.startswith("reached_depth_") and v > 0] or [0])
    nstates = int(np.unique(np.concatenate(all_states)).size) if all_states else 0
    # the packed digests are only a transport format: keep the tally small and honest
    ctx.tally.outcomes = set()
    observers = sum(int(v) for k, v in ex.items() if k.startswith("obs_"))
    ctx.coverage.update(
        states=nstates,
        transitions=transitions,
        traces_validated_against_impl=transitions,
        observer_evaluations=observers,
        max_depth=maxd,
        evaluations=transitions + observers,
        distinct_nontrivial=max(0, nstates - len(INITS)),
        distinct_outcomes=nstates,
        bounds=bounds,
        alphabet={
            "events_3d": len(events_for((2, 2, 2))),
            "events_1d": len(events_for((2,))),
            "index_members_per_axis": MEMBERS,
            "initial_states": [[s[0], list(s[1]), s[2]] for s in INITS],
            "rows_per_cell": [0, 1, 2, 3],
            "arith_operands": ARITH,
        },
        exhaustive=True,
    )
    if ex.get("seam_data_fallback", 0):
        ctx.seam_missing.append("Vector.data (nested list of cells): cells were read one by one through v[int index] instead")
    # vacuity guards (the search is pruned below failing states, so they only apply to a run without failures)
    if ctx.tally.nfails:
        return
    if nstates < 500:
        raise Broken(f"state space suspiciously small ({nstates} states)")
    kinds = sorted({e[0] for e in events_for((2, 2, 2))})
    never = [k for k in kinds if ex.get("ev_" + k, 0) == 0]
    if never:
        raise Broken(f"events never enabled anywhere: {never}")
    if ex.get("identity_states_with_one_array_in_several_cells", 0) < 100:
        raise Broken("identity dimension: hardly any state in which one array object sits in several cells was reached")
    for k in ("ev_identity_rt", "ev_identity_setflat", "ev_identity_arith", "ev_identity_add", "ev_identity_rm", "ev_identity_copy", "ev_names_setf", "ev_names_arith", "ev_names_rm", "ev_names_add", "names_absent_lookups"):
        if ex.get(k, 0) == 0:
            raise Broken(f"{k} never ran")
    for k in ("ev_cross_assign_view", "ev_cross_assign_flatten", "ev_cross_set_flattened_view", "ev_cross_assign_cell", "obs_slice", "obs_get_data", "obs_flatten", "obs_field_flatten", "obs_roundtrip", "ev_refused", "ev_follow_after_refused", "kept_flatten_checks"):
        if ex.get(k, 0) == 0:
            raise Broken(f"observer {k} never ran")


def replay(ctx, case):
    t = ctx.tally
    if "width" in case:
        print(f"  {case['width']} fields, ops {case['ops']}")
        run_wide(case["width"], [tuple(op) for op in case["ops"]], ctx.seed, t, t.extra)
        return
    if case.get("identity"):
        src, ops = tuple(case["source"]), [tuple(o) for o in case["ops"]]
        print(f"  identity init {ID_INITS[case['init']]!r} (shape, fields, rows per cell), source {src!r}, operations {ops!r}")
        before = t.nfails
        St = run_ident(case["init"], src, ops, ctx.seed, t, t.extra)
        print("  reproduces" if t.nfails > before else "  does not reproduce")
        if St is not None:
            print(f"  {St.text}; state after the operations:")
            for c_, a in zip(St.m.cells, read_cells(St.x, St.m.shape, St.m.cells)):
                print(f"    cell {c_}: observed {show(a)}")
        return
    if "names" in case:
        fam, names = name_lists()[case["names"]]
        print(f"  fields {names!r} (family {fam}), built with {case['build']}, ops {case['ops']}")
        run_names(case["names"], case["build"], [tuple(o) for o in case["ops"]], ctx.seed, t, t.extra)
        return
    if "mode" in case:
        spec = tuple(case["init"])
        spec = (spec[0], tuple(spec[1]), spec[2])
        hist = [tuple(e) for e in case["history"]]
        S, key, share, ok = run_history(spec, hist, ctx.seed, t, t.extra)
        print(f"  init {spec!r}, history {hist!r}, then under the global mode {case['mode']}: " + (f"event {case['mode_event']}" if "mode_event" in case else "the refused operations of that state"))
        if not ok:
            return
        blob, M = dump(S), frozen_models(S)
        if "mode_event" in case:
            mode_event(blob, M, tuple(case["mode_event"]), case["mode"], hist, spec, ctx.seed, t, t.extra, share)
        else:
            T, F = tables(ctx.seed)
            with mode_ctx(case["mode"]):
                refusal_battery(lambda: load(blob, M, None), T, F, hist, spec, t, t.extra, share, case_extra={"mode": case["mode"]})
        return
    spec = tuple(case["init"])
    spec = (spec[0], tuple(spec[1]), spec[2])
    hist = [tuple(e) for e in case["history"]]
    t = ctx.tally
    if case.get("dev"):
        # a deviation-bounded history: one live object, kept flatten() arrays, refused operations after the 4th event
        done, ok = run_dev_history(spec, hist, ctx.seed, t, t.extra, battery=case.get("battery", True))
        print(f"  init {spec!r}, deviation-history semantics, executed {done!r}")
        return
    S, key, share, ok = run_history(spec, hist, ctx.seed, t, t.extra, stop_on_fail=True)
    print(f"  init {spec!r}, history {hist!r}")
    if ok and case.get("cross"):
        print("  then the cross-object operations of that state")
        cross_objects(dump(S), frozen_models(S), share, hist, spec, ctx.seed, t, t.extra, full=True)
        cross_objects(dump(S), frozen_models(S), share, hist, spec, ctx.seed, t, t.extra, full=False)
    elif ok and ("refusal" in case or "refusals_before" in case):
        # the refused operations of that state on one live object, then the observers and one legal event
        print(f"  then the refused operations of that state" + (f" (recorded: {case['refusal']})" if "refusal" in case else ""))
        after_refusals(dump(S), S.models(), share, hist, events_for(shape_of(spec)), ctx.seed, spec, t, t.extra)
    elif ok:
        run_observers(S, case.get("observers") or "full", hist, spec, t, t.extra, share)
    for who, vec, m in S.triple():
        if vec is None:
            continue
        try:
            print(f"  {who}: fields {list(vec.fields)} units {list(vec.units)} metadata {dict(vec.metadata)}")
            for c in m.cells():
                print(f"    cell {c}: observed {show(vec[cell_idx(c)])} | model {show(m.get(c))}")
        except Exception as e:
            print(f"  {who}: unreadable ({type(e).__name__}: {e})")
    print(f"  cell sharing pattern: {share}")
