"""C04 — direct ptychography: batch-invariant, linear, exact on analytic cases, no hidden state.

Shapes S + L of DESIGN §1. The configuration lattice

    scan shape x construction mask x sub-mask x aberrations x rotation x kernel (and every alias string)
    x parallax sign flipping x upsampling x low/high-pass filter

is enumerated completely, and at EVERY point the schedule dimension is enumerated completely too: every
``max_batch_size`` from 1 to the number of bright-field pixels of the (sub-)mask, and None. Every
evaluation runs the real ``DirectPtychography.from_virtual_bfs(...).reconstruct(...)`` and reads
``corrected_stack`` / ``corrected_bf``.

Oracles
 (1) batch size b == one batch (relative tolerance), alias string == canonical kernel name (bit-identical);
 (2) linearity R(2x-3y) = 2R(x)-3R(y) on seeded pairs at every point, and for the smallest scan shape on the
     full DELTA BASIS of the stack: R(x) = sum_j x_j R(e_j);
 (3) single-pass kernels (ssb, prlx, icom): sum over a partition of the mask of W_sub * R_sub = W_full * R_full,
     W = aperture weight sum |psi(k)|^2 over the mask as the library's own probe evaluation reports it. The
     two-pass kernels (obf, mf) are NOT claimed to recombine and do not: they run as a built-in sensitivity
     control (if they start to satisfy the relation the oracle has gone blind -> harness.Broken);
 (4) parallax without sign flipping: R = sum_i T_i(v_i - mean_i) / W with T_i the translation by
     +grad chi(k_i)/2pi (identity for zero aberrations), computed by an independent NumPy Fourier shift and
     an independent closed-form gradient of the defocus/astigmatism surface;
 (5) determinism / no hidden state: two fresh objects agree bit for bit; an object that has gone through all
     other batch sizes, sub-masks, filters and an unrelated reconstruct (other kernel, upsampling, override
     aberrations and rotation, other sub-mask) reproduces the fresh result bit for bit; hyper-parameters given
     as reconstruct(override_...) == given at construction;
 (6) (added for the mutant "Butterworth envelope applied twice in the two-pass kernels", which none of (1)-(5)
     can see) the low/high-pass envelope is a function of the filter hyper-parameters only: in Fourier space
     F[R_k,filtered] * F[R_p,unfiltered] = F[R_k,unfiltered] * F[R_p,filtered] for every kernel k against the
     reference kernel p = parallax without flipping. No filter formula is assumed.
"""
from __future__ import annotations

import itertools
import math
import re
import warnings

import numpy as np

from mc.harness import Broken, Tally

LEVEL = "exploration"
TECHNIQUE = (
    "exhaustive configuration lattice (scan shape x mask x sub-mask x aberrations x rotation x kernel+aliases x upsampling x filter) "
    "with the complete schedule dimension (every max_batch_size 1..num_bf and None) at every point; full delta basis of the stack for linearity"
)
CLAIM = (
    "For every point of the stated lattice and every batch size 1..num_bf the reconstruction equals the one-batch result (within 3e-5 of its maximum, float32), "
    "every alias string gives the bit-identical result of its canonical kernel, the reconstruction is linear in the stack (complete delta basis "
    "for the 5x5 scan, seeded pairs elsewhere), single-pass kernels recombine over three partitions of the mask weighted by the aperture weight "
    "(two-pass kernels are kept as a control that must violate it), parallax without sign flipping equals the independently translated, "
    "mean-subtracted sum divided by the aperture weight, and results are bit-identical between fresh objects and after arbitrary intervening "
    "reconstructions. Exhaustive lattice + complete schedule enumeration is the right level: the defects live in batch remainders, sub-mask "
    "index mapping and two-pass normalisation, all finite dimensions; linearity closes the data quantifier for the smallest shape."
)
NOTE = (
    "Trusted: the stack order convention (image i belongs to the i-th True pixel of the mask in row-major order), the library's own "
    "evaluate_probe for the aperture weight W (own closed-form soft aperture is compared and reported), float32 tolerances relative to the "
    "output maximum. Stack contents are seeded (dyadic values so that 2x-3y is exact in float32). Scan shapes beyond 8x6, masks beyond 21 "
    "pixels, aberration values off the alphabet and soft_edges=False are not explored. Oracle (6) goes beyond the literal statement."
)
RULE = (
    "Cartesian product of the alphabets in coverage.alphabet; inside each point every max_batch_size 1..num_bf(sub-mask) and None. An "
    "evaluation = one comparison of a reconstruction with its oracle. Non-trivial = the reference reconstruction is not identically zero and, "
    "for batch cases, the batch size actually splits the set (b < num_bf); distinct = distinct (relation, point, batch size) descriptors."
)

# ----------------------------------------------------------------------------- alphabets
ENERGY = 80e3
SCAN_SAMPLING = (0.4, 0.5)  # Angstrom, deliberately anisotropic
DET = (8, 8)
DK_MRAD = 8.0
MASKS = {"disc5": 12.0, "disc7": 20.0}  # semi-angle [mrad]: 9 pixels in 5x5 / 21 pixels in 7x7 after the library's crop
SHAPES = [(5, 5), (6, 7), (8, 6)]
ABERS = {
    "none": {},
    "defocus": {"C10": -120.0},
    "defocus+astig": {"C10": -120.0, "C12": 25.0, "phi12": 0.4},
    "defocus+astig+coma+Cs": {"C10": -120.0, "C12": 25.0, "phi12": 0.4, "C21": 3000.0, "phi21": -0.7, "C30": 2.0e5},
}
ANALYTIC_ABERS = ("none", "defocus", "defocus+astig")  # the property states (4) for these only
ROTS = [0.0, 0.3]
# kernel variants: (canonical name, parallax_flip_phase or None when not applicable)
KVARIANTS = [("ssb", None), ("obf", None), ("mf", None), ("prlx", True), ("prlx", False), ("icom", None)]
SINGLE_PASS = ("ssb", "prlx", "icom")
UPS = [1, 2, 3]
# (q_highpass, q_lowpass) in 1/Angstrom, chosen so that for every scan shape some frequencies sit in the transition band
FILTERS = {"none": (None, None), "low": (None, 0.8), "high": (0.45, None), "both": (0.45, 0.8)}
SUBMASKS = ["full", "cb0", "cb1", "q0", "q1", "q2", "q3", "one", "rest"]
PARTITIONS = {"checkerboard": ["cb0", "cb1"], "quadrants": ["q0", "q1", "q2", "q3"], "one+rest": ["one", "rest"]}
KNOWN_ALIASES = {
    "ssb": ["single-sideband", "acbf", "aberration-corrected-bright-field"],
    "obf": ["optimum-bright-field"],
    "mf": ["matched-filter"],
    "prlx": ["parallax", "tcbf", "tilt-corrected-bright-field"],
    "icom": ["center-of-mass"],
}

# Tolerances (float32 implementation), all relative to the maximum of the reference. "observed" = worst over seeds
# {0,1,2,7,12345}, both tiers, current tree (see max_* in the evidence); each tolerance is >= 20x the observed noise and
# <= 1/20 of the smallest effect seen in a mutant run. DESIGN proposed 5e-6 for batch invariance from a 50-point probe
# (<= 6e-7); the full lattice reaches 1.1e-6 for parallax (float32 phase ramps of up to ~100 rad evaluated in differently
# shaped einsum batches), so the 20x rule gives 3e-5.
TOL_BATCH = 3e-5  # observed: prlx 1.06e-6, mf 5.0e-7, obf 4.6e-7, ssb 3.5e-7, icom 0; mutants: power of last batch only / wrong gradient rows > 1
TOL_LIN = 5e-5  # seeded pairs, relative to max|R(2x-3y)|; observed 1.9e-6; bound by the 20x rule (no linearity mutant planned)
TOL_BASIS = 2e-4  # R(x) vs sum_j x_j R(e_j) over up to 525 float32 basis responses; observed 7.0e-6
TOL_RECOMB = 4e-5  # observed 8.7e-7; mutants: wrong index mapping / num_bf normalisation 0.13..1.9
TOL_ANALYTIC = 2e-4  # observed 6.1e-6 (float32 phase ramp); mutants: num_bf normalisation 0.16..0.33, ramp sign > 1, rotation sign > 0.8, DC kept > 3
TOL_FILTER = 4e-5  # cross-kernel envelope relation, relative to the largest product; observed 9.0e-7; envelope twice 6e-2..9e-2
TOL_OVERRIDE = 3e-5  # override_* vs constructor hyper-parameters, run with another batch size: same noise as TOL_BATCH; observed 8.6e-7
CONTROL_MIN = 1e-3  # a two-pass recombination residual above this counts as "violates" (observed minimum over the lattice: obf 1.6e-2, mf 2.4e-2)


def _lib():
    import torch

    from quantem.core.datastructures import Dataset2d, Dataset3d
    from quantem.diffractive_imaging.direct_ptychography import DirectPtychography

    return torch, Dataset2d, Dataset3d, DirectPtychography


# ----------------------------------------------------------------------------- independent side (NumPy only)
def det_mask(maskname):
    """Corner-centred detector mask on the 8x8 detector and the signed pixel coordinates of its True pixels in
    row-major (= stack) order."""
    si = np.fft.fftfreq(DET[0], 1.0 / DET[0]).round().astype(int)
    sj = np.fft.fftfreq(DET[1], 1.0 / DET[1]).round().astype(int)
    a = np.hypot(si[:, None] * DK_MRAD, sj[None, :] * DK_MRAD)
    m = a <= MASKS[maskname]
    pix = [(int(si[i]), int(sj[j])) for i, j in zip(*np.nonzero(m))]
    return m, pix


def sub_indices(pix, sub):
    """Indices (into stack order) of the bright-field pixels of a named sub-mask."""
    n = len(pix)
    if sub == "full":
        return list(range(n))
    if sub in ("cb0", "cb1"):
        par = int(sub[2])
        return [i for i, (a, b) in enumerate(pix) if (a + b) % 2 == par]
    if sub in ("q0", "q1", "q2", "q3"):
        want = {"q0": (True, True), "q1": (True, False), "q2": (False, True), "q3": (False, False)}[sub]
        return [i for i, (a, b) in enumerate(pix) if ((a >= 0), (b >= 0)) == want]
    one = pix.index((1, -1))
    if sub == "one":
        return [one]
    if sub == "rest":
        return [i for i in range(n) if i != one]
    raise ValueError(sub)


def sub_array(pix, idx, g):
    """Boolean corner-centred array of shape g for the pixels idx (what reconstruct(bf_mask=...) takes)."""
    arr = np.zeros(g, dtype=bool)
    for i in idx:
        a, b = pix[i]
        arr[a % g[0], b % g[1]] = True
    return arr


def make_stack(seed, shape, maskname, which):
    """Seeded stack 1 + 0.1*noise on a dyadic grid (13 significant bits): integer combinations are exact in float32."""
    n = len(det_mask(maskname)[1])
    rng = np.random.default_rng([seed, 4, shape[0], shape[1], n, which])
    return (1.0 + np.round(0.1 * rng.normal(size=(n,) + tuple(shape)) * 4096.0) / 4096.0).astype(np.float32)


def own_weight_map(g, maskname, rot):
    """Closed-form soft aperture |psi|^2 on the corner-centred g grid (isotropic angular sampling)."""
    da = DK_MRAD * 1e-3
    ai = np.fft.fftfreq(g[0], 1.0 / g[0])[:, None] * da
    aj = np.fft.fftfreq(g[1], 1.0 / g[1])[None, :] * da
    ax = ai * math.cos(rot) - aj * math.sin(rot)
    ay = ai * math.sin(rot) + aj * math.cos(rot)
    alpha = np.hypot(ax, ay)
    phi = np.arctan2(ay, ax)
    den = np.sqrt((np.cos(phi) * da) ** 2 + (np.sin(phi) * da) ** 2)
    return np.clip((MASKS[maskname] * 1e-3 - alpha) / den + 0.5, 0.0, 1.0) ** 2


def geometric_shifts(pix, abers, rot):
    """+grad chi(k_i)/2pi in Angstrom for defocus/astigmatism, closed form in Cartesian angles:
    chi = (2pi/lambda) * 1/2 * [C10 (ax^2+ay^2) + C12 ((ax^2-ay^2) cos 2phi12 + 2 ax ay sin 2phi12)], a = lambda k
    => grad_k chi / 2pi = (C10 ax + C12 (ax c + ay s),  C10 ay + C12 (ax s - ay c)),  evaluated at the detector pixel in the
    rotated frame (ax', ay') = R(rot) (ax, ay) and applied in the scan frame (the library's convention for rotation_angle)."""
    extra = set(abers) - {"C10", "C12", "phi12"}
    if extra:
        raise ValueError(f"closed form covers defocus/astigmatism only, got {sorted(extra)}")
    C10, C12, p12 = abers.get("C10", 0.0), abers.get("C12", 0.0), abers.get("phi12", 0.0)
    c, s = math.cos(2 * p12), math.sin(2 * p12)
    out = []
    for a, b in pix:
        ax0, ay0 = a * DK_MRAD * 1e-3, b * DK_MRAD * 1e-3
        ax = ax0 * math.cos(rot) - ay0 * math.sin(rot)
        ay = ax0 * math.sin(rot) + ay0 * math.cos(rot)
        out.append((C10 * ax + C12 * (ax * c + ay * s), C10 * ay + C12 * (ax * s - ay * c)))
    return np.asarray(out, float).reshape(-1, 2)


def parallax_oracle(images, shifts, W, up):
    """sum_i translate(v_i - mean_i, +shift_i) / W on the (up-fold finer) scan grid. For up > 1 the virtual image is the
    zero-interleaved image (the library upsamples by tiling the spectrum, which is exactly that)."""
    v = np.asarray(images, np.float64)
    v = v - v.mean(axis=(1, 2), keepdims=True)
    n, R, C = v.shape
    if up > 1:
        vv = np.zeros((n, R * up, C * up))
        vv[:, ::up, ::up] = v
        v = vv
    qx = np.fft.fftfreq(R * up, SCAN_SAMPLING[0] / up)[:, None]
    qy = np.fft.fftfreq(C * up, SCAN_SAMPLING[1] / up)[None, :]
    out = np.zeros((n, R * up, C * up))
    for i in range(n):
        ramp = np.exp(-2j * np.pi * (qx * shifts[i, 0] + qy * shifts[i, 1]))
        out[i] = np.real(np.fft.ifft2(np.fft.fft2(v[i]) * ramp))
    return out / W


def relerr(a, ref):
    a = np.asarray(a, np.float64)
    ref = np.asarray(ref, np.float64)
    if a.shape != ref.shape:
        return float("inf")
    s = float(np.max(np.abs(ref))) if ref.size else 0.0
    d = float(np.max(np.abs(a - ref))) if ref.size else 0.0
    if not np.isfinite(d):
        return float("inf")
    return d / s if s > 0 else d


# ----------------------------------------------------------------------------- library side
_ALIAS_CACHE = {}


def alias_table():
    """canonical -> alias strings: the known table plus anything else found in the library's alias resolver."""
    if "t" in _ALIAS_CACHE:
        return _ALIAS_CACHE["t"], _ALIAS_CACHE["found"]
    table = {k: list(v) for k, v in KNOWN_ALIASES.items()}
    found = None
    try:
        import inspect

        _, _, _, DP = _lib()
        src = inspect.getsource(getattr(DP, "_normalize_kernel_name"))
        found = 0
        for a, c in re.findall(r"[\"']([A-Za-z0-9_\- ]+)[\"']\s*:\s*[\"']([a-z]+)[\"']", src):
            if c in table and a != c:
                found += 1
                if a not in table[c]:
                    table[c].append(a)
    except Exception:
        found = None
    _ALIAS_CACHE["t"], _ALIAS_CACHE["found"] = table, found
    return table, found


class ReconError(Exception):
    """The library raised inside reconstruct() at a valid lattice point: a verdict, not a crash of the check."""


def build(stack, maskname, abers, rot, seed):
    torch, Dataset2d, Dataset3d, DP = _lib()
    m8, _ = det_mask(maskname)
    vd = Dataset3d.from_array(np.array(stack, dtype=np.float32, copy=True), units=("index", "A", "A"), sampling=(1,) + SCAN_SAMPLING)
    md = Dataset2d.from_array(m8.copy(), units=("mrad", "mrad"), sampling=(DK_MRAD, DK_MRAD))
    with warnings.catch_warnings():
        warnings.simplefilter("ignore")
        return DP.from_virtual_bfs(
            vd, md, energy=ENERGY, rotation_angle=rot, aberration_coefs=dict(abers), semiangle_cutoff=MASKS[maskname], verbose=0, crop_bf_mask=True, rng=int(seed) % (2**31)
        )


def recon(dp, kv, up, filt, arr, b, alias=None, **extra):
    """One real reconstruction; returns a float64 copy of corrected_stack."""
    torch = _lib()[0]
    kern, flip = kv
    hp, lp = FILTERS[filt]
    kw = dict(deconvolution_kernel=alias or kern, upsampling_factor=up, max_batch_size=b, q_highpass=hp, q_lowpass=lp, verbose=False)
    if flip is not None:
        kw["parallax_flip_phase"] = flip
    if arr is not None:
        kw["bf_mask"] = torch.as_tensor(arr.copy())
    kw.update(extra)
    with warnings.catch_warnings():
        warnings.simplefilter("ignore")
        try:
            dp.reconstruct(**kw)
        except Exception as ex:
            shown = {k: (v if not hasattr(v, "shape") else f"<mask {int(v.sum())} px>") for k, v in kw.items()}
            raise ReconError(f"reconstruct({shown}) raised {type(ex).__name__}: {ex}") from ex
    return dp.corrected_stack.detach().cpu().numpy().copy()


def lib_weight_map(dp, abers, rot):
    """|psi(k)|^2 from the library's own probe evaluation (public functions of complex_probe); None if the seam is gone."""
    try:
        import quantem.diffractive_imaging.complex_probe as CP

        kxa, kya = CP.spatial_frequencies(tuple(int(v) for v in dp.gpts), dp.sampling, rotation_angle=rot)
        k, phi = CP.polar_coordinates(kxa, kya)
        pr = CP.evaluate_probe(k * dp.wavelength, phi, dp.semiangle_cutoff, dp.angular_sampling, dp.wavelength, aberration_coefs=dict(abers))
        return pr.abs().square().detach().cpu().numpy().astype(np.float64)
    except Exception:
        return None


class Env:
    """Everything that depends on (scan shape, construction mask, aberrations, rotation) only."""

    def __init__(self, shape, maskname, abername, rot, seed):
        self.shape, self.maskname, self.abername, self.rot, self.seed = tuple(shape), maskname, abername, float(rot), seed
        self.abers = ABERS[abername]
        self.m8, self.pix = det_mask(maskname)
        self.x = make_stack(seed, shape, maskname, 0)
        self.y = make_stack(seed, shape, maskname, 1)
        self.z = (2.0 * self.x.astype(np.float64) - 3.0 * self.y.astype(np.float64)).astype(np.float32)
        if not np.array_equal(self.z.astype(np.float64), 2.0 * self.x.astype(np.float64) - 3.0 * self.y.astype(np.float64)):
            raise Broken("2x-3y is not exactly representable in float32: the seeded stacks are not dyadic")
        self.A = self.fresh()
        self.Y = build(self.y, maskname, self.abers, self.rot, seed)
        self.Z = build(self.z, maskname, self.abers, self.rot, seed)
        self.g = tuple(int(v) for v in self.A.bf_mask.shape)
        libmask = self.A.bf_mask.detach().cpu().numpy().astype(bool)
        self.subs = {s: sub_indices(self.pix, s) for s in SUBMASKS}
        self.arrays = {s: sub_array(self.pix, self.subs[s], self.g) for s in SUBMASKS}
        if not np.array_equal(libmask, self.arrays["full"]) or int(self.A.num_bf) != len(self.pix):
            raise Broken(f"the library's cropped construction mask {libmask.shape} is not the corner-centred disc this check builds ({maskname})")
        self.wmap_own = own_weight_map(self.g, maskname, self.rot)
        wl = lib_weight_map(self.A, self.abers, self.rot)
        self.w_from_lib = wl is not None and wl.shape == self.wmap_own.shape
        self.wmap = wl if self.w_from_lib else self.wmap_own
        self.W = {s: float(self.wmap[self.arrays[s]].sum()) for s in SUBMASKS}
        self.W_own = {s: float(self.wmap_own[self.arrays[s]].sum()) for s in SUBMASKS}

    def fresh(self, stack=None):
        return build(self.x if stack is None else stack, self.maskname, self.abers, self.rot, self.seed)

    def point(self, kv, up, filt, sub=None, **more):
        d = {"shape": list(self.shape), "mask": self.maskname, "aber": self.abername, "rot": self.rot, "kernel": kv[0], "flip": kv[1], "up": up, "filter": filt}
        if sub is not None:
            d["sub"] = sub
        d.update(more)
        return d


def kclass(kv):
    return {"kernel": kv[0], "passes": "single" if kv[0] in SINGLE_PASS else "two"}


def check_point(t, env, kv, up, filt, sub):
    """All per-point relations at one lattice point. Returns (corrected_bf of the fresh reference, reference stack)."""
    try:
        return _check_point(t, env, kv, up, filt, sub)
    except ReconError as ex:
        pt = env.point(kv, up, filt, sub)
        t.case(key=["raised", pt], nontrivial=True)
        t.fail({"relation": "reconstruct_raised", "exception": type(ex.__cause__).__name__, **kclass(kv)}, dict(pt, kind="point"), f"{ex} at {pt}")
        return None, None


def _check_point(t, env, kv, up, filt, sub):
    idx = env.subs[sub]
    n = len(idx)
    arr = env.arrays[sub] if sub != "full" else None  # the full mask goes through the default path (bf_mask=None)
    pt = env.point(kv, up, filt, sub)
    F = env.fresh()
    ref = recon(F, kv, up, filt, arr, None)
    bf = F.corrected_bf.detach().cpu().numpy().astype(np.float64)
    scale = float(np.max(np.abs(ref))) if np.all(np.isfinite(ref)) else float("nan")
    nz = bool(scale > 0)
    t.case(key=["point", pt], nontrivial=nz, outcome=[round(scale, 7), round(float(np.sum(ref, dtype=np.float64)), 6), list(ref.shape)])
    want_shape = (n, env.shape[0] * up, env.shape[1] * up)
    if ref.shape != want_shape or not np.all(np.isfinite(ref)):
        t.fail({"relation": "finite_result_of_expected_shape", **kclass(kv)}, dict(pt, kind="point"), f"corrected_stack shape {ref.shape} (expected {want_shape}), finite={bool(np.all(np.isfinite(ref)))} at {pt}")
        return bf, ref
    if sub == "full":  # passing the construction mask explicitly == the default path
        o = recon(F, kv, up, filt, env.arrays["full"], None)
        t.case(key=["explicit_full_mask", pt], nontrivial=nz)
        if not np.array_equal(o, ref):
            t.fail({"relation": "explicit_full_mask_equals_default", **kclass(kv)}, dict(pt, kind="point"), f"reconstruct(bf_mask=<construction mask>) differs from reconstruct() by {relerr(o, ref):.3e} at {pt}")

    # (5a) two fresh objects, bit for bit
    if sub in ("full", "cb1", "one"):
        o = recon(env.fresh(), kv, up, filt, arr, None)
        t.case(key=["fresh_fresh", pt], nontrivial=nz)
        if not np.array_equal(o, ref):
            t.fail({"relation": "two_fresh_objects_bit_identical", **kclass(kv)}, dict(pt, kind="point"), f"two fresh objects differ by {relerr(o, ref):.3e} of max at {pt}")

    # (1) the schedule dimension, completely: every batch size 1..n on the long-lived object
    for b in range(1, n + 1):
        o = recon(env.A, kv, up, filt, arr, b)
        e = relerr(o, ref)
        t.case(key=["batch", pt, b], nontrivial=nz and b < n)
        t.stat("batch_rel_err_" + kv[0], e)
        if not e <= TOL_BATCH:
            t.fail({"relation": "batch_invariance", **kclass(kv)}, dict(pt, kind="point", batch=b), f"max_batch_size={b} of num_bf={n} differs from one batch by {e:.3e} of max (tol {TOL_BATCH}) at {pt}")

    # (5b) an unrelated reconstruction in between, then the original settings again: bit-identical with the fresh object
    k2 = KVARIANTS[(KVARIANTS.index(tuple(kv)) + 1 + SUBMASKS.index(sub)) % len(KVARIANTS)]
    recon(env.A, k2, 1 + up % 3, "low" if filt != "low" else "high", env.arrays["cb0" if sub != "cb0" else "q0"], 2, override_aberration_coefs={"C10": 55.0, "C12": -9.0}, override_rotation_angle=0.11)
    o = recon(env.A, kv, up, filt, arr, None)
    t.case(key=["history", pt], nontrivial=nz)
    if not np.array_equal(o, ref):
        t.fail({"relation": "no_hidden_state", **kclass(kv)}, dict(pt, kind="point"), f"object with a history (all batch sizes, other sub-masks/filters, one unrelated reconstruct with {k2[0]} and override aberrations) differs from a fresh object by {relerr(o, ref):.3e} of max at {pt}")

    # (1b) every alias string == canonical name, exactly
    table, _ = alias_table()
    names = list(table[kv[0]])
    if sub == "full":
        names += [a.upper() for a in [kv[0]] + table[kv[0]]]
    for alias in names:
        try:
            o = recon(env.A, kv, up, filt, arr, None, alias=alias)
        except ReconError as ex:
            if isinstance(ex.__cause__, ValueError) and "nknown deconvolution kernel" in str(ex.__cause__):
                t.extra["alias_strings_rejected_by_library"] += 1
                continue
            raise
        t.case(key=["alias", pt, alias], nontrivial=nz)
        t.extra["alias_evaluations"] += 1
        if not np.array_equal(o, ref):
            t.fail({"relation": "alias_equals_canonical", "kernel": kv[0], "alias": alias.lower()}, dict(pt, kind="point", alias=alias), f"deconvolution_kernel={alias!r} differs from {kv[0]!r} by {relerr(o, ref):.3e} of max at {pt}")

    # (2) linearity on the seeded pair
    ry = recon(env.Y, kv, up, filt, arr, None)
    rz = recon(env.Z, kv, up, filt, arr, None)
    want = 2.0 * ref.astype(np.float64) - 3.0 * ry.astype(np.float64)
    e = relerr(rz, want)
    t.case(key=["linearity_pair", pt], nontrivial=bool(np.any(want != 0)))
    t.stat("linearity_pair_rel_err", e)
    if not e <= TOL_LIN:
        t.fail({"relation": "linearity", **kclass(kv)}, dict(pt, kind="point"), f"R(2x-3y) differs from 2R(x)-3R(y) by {e:.3e} of max (tol {TOL_LIN}) at {pt}")

    # (4) analytic parallax
    if tuple(kv) == ("prlx", False) and filt == "none" and env.abername in ANALYTIC_ABERS:
        sh = geometric_shifts([env.pix[i] for i in idx], env.abers, env.rot)
        want = parallax_oracle(env.x[idx], sh, env.W[sub], up)
        e = relerr(ref, want)
        eb = relerr(bf, want.sum(0))
        t.case(key=["analytic", pt], nontrivial=True, outcome=[round(float(np.abs(want).max()), 7)])
        t.stat("analytic_rel_err_stack", e)
        t.stat("analytic_rel_err_sum", eb)
        t.extra["analytic_points"] += 1
        if not (e <= TOL_ANALYTIC and eb <= TOL_ANALYTIC):
            how = "sum of mean-subtracted images / W" if env.abername == "none" else "sum of images translated by +grad chi(k_i)/2pi / W"
            t.fail(
                {"relation": "parallax_analytic", "aberrations": "zero" if env.abername == "none" else "defocus_astigmatism", "upsampled": bool(up > 1), "sub_mask": bool(sub != "full")},
                dict(pt, kind="point"),
                f"parallax (no sign flipping) differs from {how} by {e:.3e} (stack) / {eb:.3e} (corrected_bf) of max (tol {TOL_ANALYTIC}); W={env.W[sub]:.6f}, num_bf={n}, at {pt}",
            )
    return bf, ref


def check_recombination(t, env, kv, up, filt, bfs):
    """(3) sum over a partition of W_sub R_sub == W_full R_full; verdict for single-pass kernels, control for two-pass."""
    full = env.W["full"] * bfs["full"]
    s = float(np.max(np.abs(full)))
    for pname, parts in PARTITIONS.items():
        got = sum(env.W[p] * bfs[p] for p in parts)
        pt = env.point(kv, up, filt, partition=pname)
        e = relerr(got, full)
        single = kv[0] in SINGLE_PASS
        t.case(key=["recombination", pt], nontrivial=bool(s > 0))
        if single:
            t.stat("recombination_rel_err_single_pass", e)
            if not e <= TOL_RECOMB:
                t.fail(
                    {"relation": "submask_recombination", "kernel": kv[0], "partition": pname},
                    dict(pt, kind="setting"),
                    f"sum over {parts} of W_sub*R_sub differs from W_full*R_full by {e:.3e} of max (tol {TOL_RECOMB}); W={[round(env.W[p], 6) for p in parts]} W_full={env.W['full']:.6f} at {pt}",
                )
        elif s > 0:
            t.extra[f"control_points_{kv[0]}"] += 1
            if e > CONTROL_MIN:
                t.extra[f"control_violations_{kv[0]}"] += 1
            t.stat(f"neg_min_control_residual_{kv[0]}", -e)


REF_KERNEL = ("prlx", False)


def check_filter(t, env, kv, up, filt, stack_filt):
    """(6) the filter envelope is the same function of q for every kernel (reference: parallax without flipping)."""
    if filt == "none" or tuple(kv) == REF_KERNEL:
        return
    F = env.fresh()  # a fresh object, so that a hidden-state defect is reported by its own relation and not here
    k0 = recon(F, kv, up, "none", None, None).astype(np.float64)
    p0 = recon(F, REF_KERNEL, up, "none", None, None).astype(np.float64).sum(0)
    p1 = recon(F, REF_KERNEL, up, filt, None, None).astype(np.float64).sum(0)
    K1 = np.fft.fft2(np.asarray(stack_filt, np.float64))
    K0 = np.fft.fft2(k0)
    P0 = np.fft.fft2(p0)[None]
    P1 = np.fft.fft2(p1)[None]
    lhs, rhs = K1 * P0, K0 * P1
    s = max(float(np.abs(lhs).max()), float(np.abs(rhs).max()))
    pt = env.point(kv, up, filt)
    e = float(np.abs(lhs - rhs).max()) / s if s > 0 else 0.0
    t.case(key=["filter_envelope", pt], nontrivial=bool(s > 0))
    t.stat("filter_envelope_rel_err", e)
    if not e <= TOL_FILTER:
        t.fail(
            {"relation": "filter_envelope_same_for_every_kernel", **kclass(kv)},
            dict(pt, kind="setting"),
            f"F[R_{kv[0]},filtered]*F[R_prlx,unfiltered] differs from F[R_{kv[0]},unfiltered]*F[R_prlx,filtered] by {e:.3e} of max (tol {TOL_FILTER}): the envelope of filter '{filt}' acts differently on {kv[0]} than on parallax, at {pt}",
        )


def check_override(t, env, kv, up, filt):
    """(5c) hyper-parameters passed to reconstruct(override_...) == the same hyper-parameters given at construction."""
    ref = recon(env.fresh(), kv, up, filt, None, None)
    plain = build(env.x, env.maskname, {}, 0.0, env.seed)
    o = recon(plain, kv, up, filt, None, 3, override_aberration_coefs=dict(env.abers), override_rotation_angle=env.rot)
    e = relerr(o, ref)
    pt = env.point(kv, up, filt)
    t.case(key=["override", pt], nontrivial=bool(np.any(ref != 0)))
    t.stat("override_rel_err", e)
    if not e <= TOL_OVERRIDE:
        t.fail({"relation": "override_equals_constructor_hyperparameters", **kclass(kv)}, dict(pt, kind="setting"), f"reconstruct(override_aberration_coefs, override_rotation_angle) differs from the same values given at construction by {e:.3e} at {pt}")


def run_setting(t, env, kv, up, filt):
    bfs, full_stack = {}, None
    for sub in SUBMASKS:
        bf, ref = check_point(t, env, kv, up, filt, sub)
        bfs[sub] = bf
        if sub == "full":
            full_stack = ref
    try:
        if all(b is not None and b.shape == bfs["full"].shape and np.all(np.isfinite(b)) for b in bfs.values()):
            check_recombination(t, env, kv, up, filt, bfs)
            check_filter(t, env, kv, up, filt, full_stack)
        check_override(t, env, kv, up, filt)
    except ReconError as ex:
        pt = env.point(kv, up, filt)
        t.fail({"relation": "reconstruct_raised", "exception": type(ex.__cause__).__name__, **kclass(kv)}, dict(pt, kind="setting"), f"{ex} at {pt}")


# ----------------------------------------------------------------------------- workers
def w_lattice(item, seed=0, filters=("none",)):
    shape, maskname, abername, rot, kvi, up = item
    t = Tally()
    env = Env(shape, maskname, abername, rot, seed)
    kv = KVARIANTS[kvi]
    for filt in filters:
        run_setting(t, env, kv, up, filt)
    if not env.w_from_lib:
        t.extra["weight_seam_missing"] += 1
    t.stat("aperture_weight_own_vs_library_rel", max(abs(env.W[s] - env.W_own[s]) / env.W_own[s] for s in SUBMASKS))
    t.extra["settings"] += len(filters)
    t.sample({"point": env.point(kv, up, filters[0], "full"), "num_bf": len(env.pix), "W_full": round(env.W["full"], 6), "batch_sizes": list(range(1, len(env.pix) + 1)) + [None]}, cap=1)
    return t


def basis_config(t, env, kv, up, filt, resp=None):
    """(2) on the complete delta basis: R(x) == sum_j x_j R(e_j) for the seeded stacks x, y and 2x-3y."""
    n, (R, C) = len(env.pix), env.shape
    pt = env.point(kv, up, filt)
    if resp is None:
        resp = np.zeros((n * R * C, n, R * up, C * up), np.float32)
        for j in range(n * R * C):
            e = np.zeros((n, R, C), np.float32)
            e.reshape(-1)[j] = 1.0
            resp[j] = recon(env.fresh(e), kv, up, filt, None, None)
    M = resp.reshape(n * R * C, -1).astype(np.float64)
    nzcols = int(np.count_nonzero(np.abs(M).max(axis=1)))
    worst = 0.0
    for name, stack, dp in (("x", env.x, env.A), ("y", env.y, env.Y), ("2x-3y", env.z, env.Z)):
        got = recon(dp, kv, up, filt, None, None).astype(np.float64).reshape(-1)
        want = stack.astype(np.float64).reshape(-1) @ M
        e = relerr(got, want)
        worst = max(worst, e)
        t.case(key=["basis_linearity", pt, name], nontrivial=bool(np.any(want != 0)), outcome=[round(float(np.abs(want).max()), 7)])
        t.stat("basis_linearity_rel_err", e)
        if not e <= TOL_BASIS:
            t.fail({"relation": "linearity_delta_basis", **kclass(kv)}, dict(pt, kind="basis", stack=name), f"R({name}) differs from sum_j {name}_j R(e_j) over the {n * R * C} delta stacks by {e:.3e} of max (tol {TOL_BASIS}) at {pt}")
    t.extra["basis_vectors_reconstructed"] += n * R * C
    t.extra["basis_configs"] += 1
    # a basis response is non-zero unless the kernel annihilates that image (icom at k=0, flip with chi=0): guard against an all-zero operator
    if nzcols == 0 and not (tuple(kv) == ("prlx", True) and env.abername == "none"):
        t.fail({"relation": "finite_result_of_expected_shape", **kclass(kv)}, dict(pt, kind="basis", stack="x"), f"every delta stack reconstructs to zero at {pt}")
    return worst


def w_basis(item, seed=0, filters=("none",)):
    maskname, abername, rot, kvi, up_ = item
    ups = (up_,)
    t = Tally()
    env = Env(SHAPES[0], maskname, abername, rot, seed)
    kv = KVARIANTS[kvi]
    n, (R, C) = len(env.pix), env.shape
    # one fresh object per basis vector, reused for every (upsampling, filter) of this item
    resp = {(up, f): np.zeros((n * R * C, n, R * up, C * up), np.float32) for up in ups for f in filters}
    try:
        for j in range(n * R * C):
            e = np.zeros((n, R, C), np.float32)
            e.reshape(-1)[j] = 1.0
            dp = env.fresh(e)
            for up in ups:
                for f in filters:
                    resp[(up, f)][j] = recon(dp, kv, up, f, None, None)
        for up in ups:
            for f in filters:
                basis_config(t, env, kv, up, f, resp=resp[(up, f)])
    except ReconError as ex:
        pt = env.point(kv, ups[0], filters[0])
        t.case(key=["raised", pt], nontrivial=True)
        t.fail({"relation": "reconstruct_raised", "exception": type(ex.__cause__).__name__, **kclass(kv)}, dict(pt, kind="basis", stack="x"), f"{ex} (delta basis) at {pt}")
    t.sample({"basis": env.point(kv, ups[0], filters[0]), "delta_stacks": n * R * C}, cap=1)
    return t


# ----------------------------------------------------------------------------- driver
def run(ctx):
    q = ctx.quick
    table, found = alias_table()
    if found is None:
        ctx.seam_missing.append("DirectPtychography._normalize_kernel_name (alias discovery): only the known alias table is used")
    ctx.assume(
        "stack order convention: image i of the stack belongs to the i-th True pixel of the detector mask in row-major order",
        "aperture weight W = sum |psi(k)|^2 over the mask from the library's public evaluate_probe (own closed-form soft aperture compared, see max_aperture_weight_own_vs_library_rel)",
        "float32 tolerances relative to the output maximum: batch 3e-5, linearity 5e-5 (delta basis 2e-4), recombination / filter 4e-5, analytic 2e-4",
        "oracle (4) is applied for zero aberrations, defocus and defocus+astigmatism only (as the property states), unfiltered; for upsampling > 1 the virtual image is the zero-interleaved image on the finer grid",
        "two-pass kernels (obf, mf) are exempt from recombination and must violate it (sensitivity control)",
        "oracle (6) (same filter envelope for every kernel) is not part of the literal statement; it makes 'filter' a hyper-parameter with one meaning",
    )

    def once():
        t = w_lattice(((5, 5), "disc5", "defocus+astig", 0.3, 1, 2), seed=ctx.seed, filters=("both",))
        t2 = w_lattice(((6, 7), "disc5", "defocus", 0.0, 4, 1), seed=ctx.seed, filters=("none",))
        return (t.n, sorted(t.outcomes), t.nfails, sorted(t.maxima.items()), t2.n, sorted(t2.outcomes), t2.nfails, sorted(t2.maxima.items()))

    ctx.selftest(once)

    shapes = [SHAPES[1]] if q else SHAPES  # quick: the non-square odd/even shape; the 5x5 scan is covered by the delta-basis part
    filters = ("none", "both") if q else tuple(FILTERS)
    masks = list(MASKS)
    ctx.coverage["alphabet"] = {
        "scan_shapes": [list(s) for s in shapes],
        "scan_sampling_A": list(SCAN_SAMPLING),
        "construction_masks": {m: {"semiangle_mrad": MASKS[m], "num_bf": len(det_mask(m)[1])} for m in masks},
        "sub_masks": SUBMASKS,
        "partitions": PARTITIONS,
        "aberrations": ABERS,
        "rotations_rad": ROTS,
        "kernels": [{"kernel": k, "parallax_flip_phase": f} for k, f in KVARIANTS],
        "aliases": table,
        "aliases_found_in_library_source": found,
        "upsampling": UPS,
        "filters_qhigh_qlow": {k: list(FILTERS[k]) for k in filters},
        "batch_sizes": "every integer 1..num_bf(sub-mask) and None, at every point",
    }
    abers = [a for a in ABERS if a != "defocus"] if q else list(ABERS)  # quick: defocus alone is implied by defocus+astig
    ctx.coverage["alphabet"]["aberrations"] = {a: ABERS[a] for a in abers}
    items = list(itertools.product(shapes, masks, abers, ROTS, range(len(KVARIANTS)), UPS))
    # simplest first (small mask, no aberrations, upsampling 1): the failures kept per class are then the simplest points.
    # Items cost 0.2-3 s each, so the order does not matter for the pool balance.
    items.sort(key=lambda it: (len(det_mask(it[1])[1]), it[5], list(ABERS).index(it[2]), it[3], it[0][0] * it[0][1], it[4]))
    ctx.coverage["bounds"] = {"lattice_points": len(items) * len(filters) * len(SUBMASKS), "settings": len(items) * len(filters)}
    ctx.pmap(w_lattice, items, chunk=1, label="lattice x schedules", seed=ctx.seed, filters=filters)

    # (2) complete delta basis for the smallest scan shape
    b_masks = ["disc5"] if q else masks
    b_abers = ["none", "defocus+astig+coma+Cs"] if q else list(ABERS)
    b_filters = ("none", "both") if q else tuple(FILTERS)
    b_items = list(itertools.product(b_masks, b_abers, ROTS, range(len(KVARIANTS)), UPS))
    b_items.sort(key=lambda it: (-len(det_mask(it[0])[1]), -it[4]))  # expensive first: items cost 2-12 s
    ctx.coverage["bounds"]["delta_basis"] = {"scan_shape": list(SHAPES[0]), "masks": b_masks, "aberrations": b_abers, "filters": list(b_filters), "upsampling": UPS, "configs": len(b_items) * len(b_filters)}
    ctx.pmap(w_basis, b_items, chunk=1, label="delta basis", seed=ctx.seed, filters=b_filters)

    ex = ctx.tally.extra
    if ex.get("weight_seam_missing"):
        ctx.seam_missing.append("complex_probe.evaluate_probe/spatial_frequencies/polar_coordinates (aperture weight): own closed-form soft aperture used instead")
    # sensitivity control: the two-pass kernels must keep violating the recombination relation
    for k in ("obf", "mf"):
        pts, viol = ex.get(f"control_points_{k}", 0), ex.get(f"control_violations_{k}", 0)
        ctx.coverage[f"control_{k}"] = {"points": int(pts), "violating": int(viol)}
        if ctx.tally.nfails:
            continue  # recorded failures take precedence: report them instead of aborting on the control
        if pts == 0 or viol < 0.9 * pts:
            raise Broken(
                f"sensitivity control: the two-pass kernel {k} violates sub-mask recombination at only {viol} of {pts} points (residual > {CONTROL_MIN}); "
                "either the recombination oracle has gone blind or the library's two-pass normalisation legitimately changed (then update this control)"
            )
    if not ctx.tally.nfails and (ex.get("analytic_points", 0) < 10 or ex.get("alias_evaluations", 0) < 10):
        raise Broken("the analytic / alias sub-lattices were not enumerated")
    if len(ctx.tally.outcomes) < 50:
        raise Broken("too few distinct reference outputs: the lattice did not vary")


def replay(ctx, case):
    t = Tally()
    kv = (case["kernel"], case["flip"])
    env = Env(tuple(case["shape"]), case["mask"], case["aber"], case["rot"], ctx.seed)
    kind = case.get("kind", "point")
    if kind == "basis":
        try:
            w = basis_config(t, env, kv, case["up"], case["filter"])
            print(f"  delta-basis linearity worst relative error {w:.3e} (tol {TOL_BASIS})")
        except ReconError as ex:
            t.fail({"relation": "reconstruct_raised", "exception": type(ex.__cause__).__name__, **kclass(kv)}, case, str(ex))
    elif kind == "setting":
        run_setting(t, env, kv, case["up"], case["filter"])
    else:
        bf, ref = check_point(t, env, kv, case["up"], case["filter"], case["sub"])
        if ref is not None:
            print(f"  point {env.point(kv, case['up'], case['filter'], case['sub'])}: num_bf={len(env.subs[case['sub']])} W={env.W[case['sub']]:.6f} max|R|={np.abs(ref).max():.6g}")
    print("  worst observed deviations at this point:", {k: f"{v:.3e}" for k, v in sorted(t.maxima.items())})
    for f in t.fails:
        ctx.fail(f["cls"], f["case"], f["msg"])
