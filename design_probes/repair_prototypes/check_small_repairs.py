import sys; sys.path.insert(0,"/tmp/qscratch/src")
import numpy as np, torch, warnings, math, os, tempfile
os.environ["QUANTEM_CONFIG"]=tempfile.mkdtemp()
warnings.simplefilter("ignore")
import quantem; assert quantem.__file__.startswith("/tmp/qscratch")
# Vector
from quantem.core.datastructures.vector import Vector
v1=Vector.from_shape((3,),num_fields=2)
for i in range(3): v1[i]=np.full((i+1,2),float(i))
s=v1[0:2]; print("1-D slice",s.shape,[c.shape for c in s._data], "get_data", [c.shape for c in v1.get_data(slice(1,3))])
v3=Vector.from_shape((2,2,2),num_fields=1)
for idx in np.ndindex(2,2,2): v3[idx]=np.full((1,1),float(idx[0]*4+idx[1]*2+idx[2]))
s=v3[0:2,1,0:2]; print("3-D slice",s.shape,[[ [float(c[0,0]) for c in b] for b in a] for a in s._data])
v2=Vector.from_shape((4,3),num_fields=1)
for idx in np.ndindex(4,3): v2[idx]=np.full((1,1),float(idx[0]*3+idx[1]))
s=v2[1:3,[0,2]]; print("2-D fancy",s.shape,[[float(c[0,0]) for c in r] for r in s._data])
a=Vector.from_shape((2,),num_fields=1); b=Vector.from_shape((2,),num_fields=1); a.metadata["k"]=1; print("metadata independent:",b.metadata=={}, a.copy().metadata)
# config
from quantem.core import config as C
before=C.get("verbose")
with C.set({"verbose":5,"newkey.sub":1,"viz.cmap":"x"}):
    inside=(C.get("verbose"),C.get("newkey.sub"),C.get("viz.cmap"))
print("ctx",inside,"->",C.get("verbose"),C.get("newkey",None),C.get("viz.cmap"))
C.set({"plain":3}); print("plain set still works",C.get("plain"))
# normalisation
from quantem.core.visualization.custom_normalizations import CustomNormalization
for dt in (np.int8,np.int16,np.uint8):
    info=np.iinfo(dt); d=np.linspace(info.min,info.max,7).astype(dt); out=np.asarray(CustomNormalization("manual",data=d)(d)); print(dt.__name__,np.round(out,3),"mono",bool(np.all(np.diff(out)>=0)))
# drift
from quantem.imaging.drift import DriftCorrection
rng=np.random.default_rng(0); im=rng.random((6,10))
res={}
for nk in (1,2,3,4):
    dc=DriftCorrection.from_data([im,im.copy()],[30,30]).preprocess(pad_fraction=0.5,number_knots=nk,pad_value="mean"); res[nk]=dc.interpolator[0].transform_coordinates(dc.knots[0])
print("knots agree",max(np.abs(res[1][0]-res[k][0]).max()+np.abs(res[1][1]-res[k][1]).max() for k in (2,3,4)))
k0=[k.copy() for k in dc.knots]; dc.align_translation(show_merged=False); print("fixed point knot motion",max(np.abs(a-b).max() for a,b in zip(k0,dc.knots)))
# COM loop
from quantem.core.datastructures import Dataset4dstem
from quantem.diffractive_imaging.dataset_models import PtychographyDatasetRaster
arr=rng.random((3,4,6,8)).astype(np.float32)+0.1; ds=Dataset4dstem.from_array(arr,sampling=[1,1,.1,.1],units=["A","A","A^-1","A^-1"])
kr,kc=np.mgrid[:6,:8]; cr=(arr*kr).sum((-1,-2))/arr.sum((-1,-2)); cc=(arr*kc).sum((-1,-2))/arr.sum((-1,-2))
for vec in (True,False):
    p=PtychographyDatasetRaster.from_dataset4dstem(ds,verbose=0); p.preprocess(com_fit_function="none",vectorized=vec,plot_rotation=False,plot_com=False,force_com_rotation=0,force_com_transpose=False); print("COM vectorized",vec,np.abs(p.com_measured[0]-cr).max(),np.abs(p.com_measured[1]-cc).max())
