"""C14 — skip lists remove exactly the named attributes, at save or load time.

Shape L, level exploration. One 3-level attribute-nested graph Top -> Mid -> Inner whose levels share
attribute names (scalars, arrays, tensors incl. a Parameter, containers, objects; `Inner.__new__` already
sets one attribute, so that a skipped name can exist on the object before anything is restored) is pushed
through the whole skip-list lattice on the real `save(skip=...)` / `load(skip=...)`:

  names : every subset of a 7-name universe (names present at one depth, at several depths, at none)
          x when {save, load, both, split between save and load} x store {zip, dir}
          (thorough: every assignment of each name to {nowhere, save, load}, i.e. all disjoint pairs, + both);
          bare-string and tuple forms of `skip` for the singletons;
  types : every subset of size <= 2 of {ndarray, Tensor, int, str, float, list, dict, Inner} at save time
          x store; every (name, type) pair with the name given at save or at load time.

Oracle: a fresh in-memory build of the graph with the named attributes (and the attributes that are
instances of a listed type) deleted at every level reached through attributes, compared with the C01
structural-equality relation — survivors are compared for equality, not just presence; dict keys and
container elements that merely look like a skipped name must survive. load-time == save-time is checked
exactly between the two loaded graphs.
"""
from __future__ import annotations

import itertools

from mc.harness import Broken, Tally

from checks import _serial as S

LEVEL = "exploration"
TECHNIQUE = "exhaustive enumeration of the skip-list lattice (name subsets x when x store, type subsets) on the real save/load, pruned in-memory graph as oracle"
CLAIM = (
    "For a 3-level attribute-nested graph with shared attribute names, every subset of a 7-name universe (present at one depth, "
    "several depths, nowhere) is skipped at save time, at load time, at both and split between the two, in both stores, and every "
    "type list of size <= 2 over 8 types is skipped at save time; each loaded object is compared with the in-memory graph from "
    "which exactly those attributes were deleted at every attribute-nested level, using the C01 structural-equality relation, so "
    "survivors are checked for equality and nothing else may disappear or appear; recorded lists are honoured by a plain load and "
    "load-time skipping gives exactly the save-time result. Exploration is the right level: the property is a statement over a "
    "finite lattice of skip lists, each point decided exactly by one execution."
)
NOTE = (
    "Trusted: the pruning oracle (12 lines) and the equality relation of checks/_serial.py; one graph shape (the quantifier's "
    "'all object graphs' is covered by C01's grammar without skip lists); nested AutoSerialize objects are reached through "
    "attributes only, as the quantifier says; type skipping is exercised at save time only, as the statement says."
)
RULE = (
    "Full enumeration of name subsets x when x store and of type subsets x store (plus name x type pairs) on one 3-level graph. "
    "A point is non-trivial when its skip lists remove at least one attribute of the graph; distinct = distinct (skip lists, when, store)."
)

STORES = ("zip", "dir")
UNIVERSE = ["a", "arr", "t", "mid", "inner", "q", "zzz"]
TYPE_NAMES = ["ndarray", "Tensor", "int", "str", "float", "list", "dict", "Inner"]


def type_of(name):
    import numpy as np
    import torch

    return {"ndarray": np.ndarray, "Tensor": torch.Tensor, "int": int, "str": str, "float": float, "list": list, "dict": dict, "Inner": S.Inner}[name]


def graph_desc():
    L, C, D, O = S.L, S.C, S.D, S.O
    inner = O(
        "Inner", a=L("i-1"), arr=L("arr:f64:(3,)"), t=L("t_f32_grad"), s=L("s"),
        lst=C("list", L("i0"), L("s"), L("arr:i16:(3,)")), n=L("none"), q=C("tuple", L("i2^40"), L("s")),
    )
    mid = O(
        "Mid", a=L("f0.5"), inner=inner, b=C("list", L("i-1"), L("i0")), tup=C("tuple", L("path_rel"), L("f1.5")),
        w=L("t_param"), t=L("s_unicode"),
    )
    top = O(
        "Top", a=L("i2^40"), mid=mid, c=D(("a", L("i0")), ("t", L("s")), ("arr", L("arr:u8:(3,)"))),
        arr=L("arr:i16:(2, 3)"), p=L("f1.5"), flag=L("true"), st=C("set", L("s"), L("s_empty")), name=L("s_unicode"),
    )
    return top


GRAPH = graph_desc()


def prune(obj, names, types):
    """The oracle: delete the named attributes / instances of the listed types at every attribute-nested level."""
    removed = 0
    for k in list(vars(obj)):
        v = vars(obj)[k]
        if k in names or (types and isinstance(v, types)):
            delattr(obj, k)
            removed += 1
        elif isinstance(v, S.AutoSerialize):
            removed += prune(v, names, types)
    return removed


def expected(seed, names, types):
    x = S.build(GRAPH, seed)
    n = prune(x, set(names), tuple(type_of(t) for t in types))
    return x, n


def _skip_arg(names, types, form="list"):
    lst = list(names) + [type_of(t) for t in types]
    if form == "str":
        assert len(lst) == 1
        return lst[0]
    if form == "tuple":
        return tuple(lst)
    return lst


def _cls(rec, relation, when):
    """Failure class: coarse on purpose (the names involved go to the message, not to the class)."""
    c = {"relation": relation, "when": when.split("_")[0], "what": rec["what"], "kind": rec["kind"]}
    if rec.get("extra") or rec.get("missing"):
        c["direction"] = "not_removed" if rec.get("extra") and not rec.get("missing") else "survivor_lost" if rec.get("missing") and not rec.get("extra") else "both"
        leaked = sorted(n for n in rec.get("extra") or [] if isinstance(n, str) and not S.name_allowed(n))
        if leaked:  # reserved metadata names on the loaded object: not a skip-list decision at all
            c["direction"] = "extra"
            c["reserved_names_leaked"] = leaked
    return c


def _judge(fails, relation, when, store, names, types, exp, status, got):
    label = f"store={store} when={when} skip names={list(names)} types={list(types)}"
    if status != "ok":
        fails.append(({"relation": relation, "when": when.split("_")[0], "symptom": status, "exc": type(got).__name__}, f"{label}: {status.replace('_', ' ')} {type(got).__name__}: {str(got)[:200]} (expected: the pruned graph)"))
        return None
    d = S.diff(exp, got, slack=True, root="top")
    if d:
        fails.append((_cls(d[0], relation, when), f"{label}: loaded object differs from the in-memory graph with those attributes removed: {S.fmt(d)}"))
        return None
    return got


def _load(p, skip):
    try:
        with S.quiet():
            return "ok", (S.q_load(p, skip=skip) if skip is not None else S.q_load(p))
    except Exception as e:
        return "load_raises", e


def _save(x, p, store, skip):
    try:
        with S.quiet():
            if skip is None:
                x.save(p, store=store)
            else:
                x.save(p, store=store, skip=skip)
        return "ok", None
    except Exception as e:
        return "save_raises", e


def run_names(case, seed, scratch, wd=None, reuse=None):
    """One point of the name lattice: {"when", "save": [...], "load": [...], "store": s, "form": list|str|tuple}.
    `reuse` (a dict owned by the caller, valid inside one work directory) lets two points that ask for the very
    same save() share the file: 'save' and 'both' differ only in the load call."""
    fails = []
    s_save, s_load, store, form = case["save"], case["load"], case["store"], case.get("form", "list")
    names = sorted(set(s_save) | set(s_load))
    when = case["when"]
    exp, removed = expected(seed, names, ())
    own = wd is None
    ctxm = S.Workdir(scratch, "C14") if own else None
    if own:
        wd = ctxm.__enter__()
    try:
        key = (tuple(s_save), form if s_save else None)
        if reuse is not None and key in reuse:
            p, st = reuse[key]
        else:
            p = S.target(wd, store, f"n{len(reuse) if reuse is not None else 0}")
            st = _save(S.build(GRAPH, seed), p, store, _skip_arg(s_save, (), form) if s_save else None)
            if reuse is not None:
                reuse[key] = (p, st)
        if st[0] == "ok":
            st = _load(p, _skip_arg(s_load, (), form) if s_load else None)
        status, y = st
        got = _judge(fails, "skip_names", when, store, names, (), exp, status, y)
        outcome = S.summary(y) if status == "ok" else [status]
    finally:
        if own:
            ctxm.__exit__(None, None, None)
    return fails, outcome, removed > 0, got


def run_subset(item, seed, scratch):
    """All `when` variants of one name subset in one store + exact equality of load-time and save-time results."""
    fails, points = [], []
    subset, store = item["subset"], item["store"]
    results = {}
    variants = [("save", subset, []), ("load", [], subset), ("both", subset, subset)]
    if len(subset) >= 2:
        variants.append(("split", subset[0::2], subset[1::2]))
    if len(subset) == 1:
        variants += [("save_str", subset, []), ("load_str", [], subset)]
    if len(subset) == 2:
        variants += [("save_tuple", subset, []), ("load_tuple", [], subset)]
    with S.Workdir(scratch, "C14") as wd:
        reuse = {}
        for when, s_save, s_load in variants:
            form = "str" if when.endswith("_str") else "tuple" if when.endswith("_tuple") else "list"
            case = {"family": "names", "when": when, "save": list(s_save), "load": list(s_load), "store": store, "form": form, "seed": seed}
            f, outcome, nontrivial, got = run_names(case, seed, scratch, wd=wd, reuse=reuse)
            for cls, msg in f:
                fails.append((cls, case, msg))
            points.append((case, outcome, nontrivial))
            results[when] = got
    if results.get("save") is not None and results.get("load") is not None:
        d = S.diff(results["save"], results["load"], slack=False, root="top")
        if d:
            case = {"family": "names", "when": "load", "save": [], "load": list(subset), "store": store, "form": "list", "seed": seed, "compare_with_save_time": True}
            fails.append((_cls(d[0], "load_time_equals_save_time", "load"), case, f"store={store} names={subset}: load-time result (observed) differs from save-time result (expected): {S.fmt(d)}"))
    return fails, points


def run_types(case, seed, scratch):
    """{"types": [...], "name": optional, "name_when": save|load, "store": s}"""
    fails = []
    types, store = case["types"], case["store"]
    name, name_when = case.get("name"), case.get("name_when", "save")
    names = [name] if name else []
    exp, removed = expected(seed, names, types)
    when = "save" if not name else f"types@save+name@{name_when}"
    with S.Workdir(scratch, "C14") as wd:
        x = S.build(GRAPH, seed)
        s_names = names if name_when == "save" else []
        l_names = names if name_when == "load" else []
        st, y = S.save_load(
            x, wd, store, name="t",
            save_kw={"skip": _skip_arg(s_names, types)} if (types or s_names) else {},
            load_kw={"skip": _skip_arg(l_names, ())} if l_names else {},
        )
        _judge(fails, "skip_types", when, store, names, types, exp, st, y)
        outcome = S.summary(y) if st == "ok" else [st]
    return fails, outcome, removed > 0


# ----------------------------------------------------------------------------- workers
def eval_subset(item, seed=0, scratch="/tmp"):
    t = Tally()
    fails, points = run_subset(item, seed, scratch)
    for case, outcome, nontrivial in points:
        t.case(key=[case["when"], case["save"], case["load"], case["store"]], nontrivial=nontrivial, outcome=outcome)
        t.extra["name_points"] += 1
    for cls, case, msg in fails:
        t.fail(cls, case, msg)
    if len(item["subset"]) == 3 and item["store"] == "zip":
        t.sample({"family": "names", "subset": item["subset"], "store": item["store"], "whens": [p[0]["when"] for p in points], "observed": "equal to the pruned in-memory graph; load-time == save-time" if not fails else f"{len(fails)} failure(s)"}, cap=1)
    return t


def eval_pair(item, seed=0, scratch="/tmp"):
    """Thorough tier: one disjoint (save, load) pair of name sets."""
    t = Tally()
    case = {"family": "names", "when": item["when"], "save": item["save"], "load": item["load"], "store": item["store"], "form": "list", "seed": seed}
    f, outcome, nontrivial, _ = run_names(case, seed, scratch)
    t.case(key=[case["when"], case["save"], case["load"], case["store"]], nontrivial=nontrivial, outcome=outcome)
    t.extra["name_points"] += 1
    for cls, msg in f:
        t.fail(cls, case, msg)
    return t


def eval_types(item, seed=0, scratch="/tmp"):
    t = Tally()
    case = dict(item, family="types", seed=seed)
    f, outcome, nontrivial = run_types(case, seed, scratch)
    t.case(key=["types", item["types"], item.get("name"), item.get("name_when"), item["store"]], nontrivial=nontrivial, outcome=outcome)
    t.extra["type_points"] += 1
    for cls, msg in f:
        t.fail(cls, case, msg)
    if len(item["types"]) == 2 and not item.get("name"):
        t.sample({"family": "types", "types": item["types"], "store": item["store"], "observed": "equal to the in-memory graph without instances of these types" if not f else f"{len(f)} failure(s)"}, cap=1)
    return t


# ----------------------------------------------------------------------------- driver
def subsets(u):
    out = []
    for r in range(len(u) + 1):
        for c in itertools.combinations(u, r):
            out.append(list(c))
    return out


def run(ctx):
    ctx.assume(
        "nested AutoSerialize objects are reached through attributes only (objects inside containers are outside the quantifier)",
        "type lists are given at save time only; they are recorded in the file and re-applied by load()",
        "dict keys and container elements are not attributes: a key equal to a skipped name must survive",
        "survivors are compared with the C01 relation (NumPy scalars / all-numeric sequences by numeric value against the input; exactly between two loaded graphs)",
    )

    def once():
        f, pts = run_subset({"subset": ["a", "inner", "zzz"], "store": "zip"}, ctx.seed, ctx.scratch)
        f2, o2, _ = run_types({"types": ["int", "Tensor"], "store": "dir"}, ctx.seed, ctx.scratch)
        # reproducible = the built input and the verdict; loaded bytes of a faulty serializer may differ between runs
        key = lambda c: repr(sorted(c.items(), key=repr))  # noqa: E731
        return (S.summary(S.build(GRAPH, ctx.seed)), [p[0]["when"] for p in pts], sorted(key(c) for c, _, _ in f), sorted(key(c) for c, _ in f2))

    ctx.selftest(once)
    # vacuity of the oracle itself: pruning must see names at one, several and no depth
    removed = {n: expected(ctx.seed, [n], ())[1] for n in UNIVERSE}
    if sorted(removed.values()) != [0, 1, 1, 1, 2, 2, 3]:
        raise Broken(f"name universe no longer has names at 0/1/2/3 depths: {removed}")
    subs = subsets(UNIVERSE)
    items = [{"subset": s, "store": st} for s in subs for st in STORES]
    m1 = ctx.pmap(eval_subset, items, chunk=2, label="name subsets", seed=ctx.seed, scratch=ctx.scratch)
    npairs = 0
    if not ctx.quick:
        # every assignment of each name to {nowhere, save, load}: all disjoint (save, load) pairs not yet covered above
        pairs = []
        for assign in itertools.product((0, 1, 2), repeat=len(UNIVERSE)):
            sv = [n for n, a in zip(UNIVERSE, assign) if a == 1]
            ld = [n for n, a in zip(UNIVERSE, assign) if a == 2]
            if not sv or not ld:
                continue  # save-only / load-only are in the subset family
            for st in STORES:
                pairs.append({"when": "split", "save": sv, "load": ld, "store": st})
        npairs = len(pairs)
        ctx.pmap(eval_pair, pairs, label="disjoint save/load pairs", seed=ctx.seed, scratch=ctx.scratch)
    titems = []
    tsubs = [list(c) for r in (0, 1, 2) for c in itertools.combinations(TYPE_NAMES, r)]
    for ts in tsubs:
        for st in STORES:
            titems.append({"types": ts, "store": st})
    for tn in TYPE_NAMES:
        for n in UNIVERSE:
            for nw in ("save", "load"):
                for st in STORES:
                    titems.append({"types": [tn], "name": n, "name_when": nw, "store": st})
    m2 = ctx.pmap(eval_types, titems, chunk=4, label="type lists", seed=ctx.seed, scratch=ctx.scratch)
    ctx.coverage.update(
        alphabet={
            "name_universe": UNIVERSE, "depths_at_which_each_name_occurs": removed, "types": TYPE_NAMES, "stores": list(STORES),
            "when": ["save", "load", "both", "split"] + ([] if ctx.quick else ["every disjoint (save, load) pair"]), "skip_forms": ["list", "bare str", "tuple"],
            "graph": S.show(GRAPH),
        },
        bounds={"name_subsets": len(subs), "type_subsets_max_size": 2, "type_subsets": len(tsubs), "name_x_type_pairs": len(TYPE_NAMES) * len(UNIVERSE) * 2, "disjoint_pairs": npairs},
        relations=["skip_names (when=save: the recorded list is honoured by a plain load)", "load_time_equals_save_time", "skip_types"],
        exhaustive=True,
    )
    if int(m1.extra["name_points"]) < len(items) * 3 or int(m2.extra["type_points"]) != len(titems):
        raise Broken(f"enumeration incomplete: {m1.extra['name_points']} name points, {m2.extra['type_points']} type points")
    if len(m1.outcomes) < 20 or len(m2.outcomes) < 10:
        raise Broken(f"too few distinct outcomes: names {len(m1.outcomes)}, types {len(m2.outcomes)}")


def replay(ctx, case):
    seed = case.get("seed", ctx.seed)
    print(f"  graph: {S.show(GRAPH)}")
    if case["family"] == "names":
        f, outcome, _, got = run_names(case, seed, ctx.scratch)
        fails = [(c, m) for c, m in f]
        if case.get("compare_with_save_time") and got is not None:
            c2 = dict(case, when="save", save=case["load"], load=[])
            _, _, _, ref = run_names(c2, seed, ctx.scratch)
            if ref is not None:
                d = S.diff(ref, got, slack=False, root="top")
                if d:
                    fails.append((_cls(d[0], "load_time_equals_save_time", "load"), f"load-time result differs from save-time result: {S.fmt(d)}"))
        exp, _ = expected(seed, sorted(set(case["save"]) | set(case["load"])), ())
    else:
        f, outcome, _ = run_types(case, seed, ctx.scratch)
        fails = list(f)
        exp, _ = expected(seed, [case["name"]] if case.get("name") else [], case["types"])
    for cls, msg in fails:
        ctx.fail(cls, case, msg)
    print(f"  expected: {str(S.summary(exp))[:600]}")
    print(f"  observed: {str(outcome)[:600]}")
